(* C20 - gauss_quant (Odeh & Evans), hertz_to_angular, angular_to_hertz: the
   definitions are those of gen/WinHelp.v, regenerated from util.py on every run. *)
From Coq Require Import Reals ZArith Lia Lra.
Set Warnings "-ambiguous-paths".
From Coquelicot Require Import Coquelicot.
From Interval Require Import Tactic.
From Verif Require Import lib.C20_Numpy gen.WinHelp.
Open Scope R_scope.

(** * Hz <-> rad/sample *)
Lemma angular_hertz_inverse_l f sr : sr <> 0 -> angular_to_hertz (hertz_to_angular f sr) sr = f.
Proof. intros H. unfold angular_to_hertz, hertz_to_angular. pose proof PI_RGT_0. field. split; lra. Qed.

Lemma hertz_angular_inverse_l a sr : sr <> 0 -> hertz_to_angular (angular_to_hertz a sr) sr = a.
Proof. intros H. unfold angular_to_hertz, hertz_to_angular. pose proof PI_RGT_0. field. split; lra. Qed.

Lemma nyquist_l sr : sr <> 0 -> hertz_to_angular (sr / 2) sr = PI.
Proof. intros H. unfold hertz_to_angular. field. assumption. Qed.

(* anchors and order: the pair is not merely "some" pair of mutual inverses - the Nyquist frequency is pi rad/sample,
   one full turn is the sampling rate, and both maps are linear and increasing for a positive rate *)
Lemma angular_pi_l sr : angular_to_hertz PI sr = sr / 2.
Proof. unfold angular_to_hertz. pose proof PI_RGT_0. field. lra. Qed.

Lemma angular_2pi_l sr : angular_to_hertz (2 * PI) sr = sr.
Proof. unfold angular_to_hertz. pose proof PI_RGT_0. field. lra. Qed.

Lemma hertz_to_angular_incr_l a b sr : 0 < sr -> a < b -> hertz_to_angular a sr < hertz_to_angular b sr.
Proof.
  intros Hsr Hab. unfold hertz_to_angular. unfold Rdiv.
  apply Rmult_lt_compat_r; [apply Rinv_0_lt_compat; exact Hsr|].
  pose proof PI_RGT_0. nra.
Qed.

Lemma angular_to_hertz_incr_l a b sr : 0 < sr -> a < b -> angular_to_hertz a sr < angular_to_hertz b sr.
Proof.
  intros Hsr Hab. unfold angular_to_hertz. unfold Rdiv.
  apply Rmult_lt_compat_r; [apply Rinv_0_lt_compat; pose proof PI_RGT_0; lra|].
  nra.
Qed.

Lemma hertz_to_angular_linear_l a b c sr : sr <> 0 ->
  hertz_to_angular (c * a + b) sr = c * hertz_to_angular a sr + hertz_to_angular b sr.
Proof. intros H. unfold hertz_to_angular. field. assumption. Qed.

(** * A readable form of the generated gauss_quant *)
Definition oeN (y : R) : R :=
  (((113410552537 / 2500000000000000 * y + 40846242049 / 2000000000000) * y
    + 342242088547 / 1000000000000) * y + 1) * y + 20139526943 / 62500000000.
Definition oeD (y : R) : R :=
  (((19280350317 / 5000000000000 * y + 2070755057 / 20000000000) * y
    + 265551731183 / 500000000000) * y + 117716314099 / 200000000000) * y
  + 49674231303 / 500000000000.
Definition oez (y : R) : R := y - oeN y / oeD y.
Definition tail_eps : R := 1 / 100000000000000000000.
(* the quantile of the upper tail probability r <= 1/2, in standard deviations *)
Definition zr (r : R) : R := if Rlt_dec r tail_eps then 10 else oez (sqrt (-2 * ln r)).
Definition rr (p : R) : R := if Rgt_dec p (1 / 2) then 1 - p else p.

Lemma gauss_quant_unfold p mu std :
  gauss_quant p mu std = (if Rlt_dec p (1 / 2) then - zr (rr p) else zr (rr p)) * std + mu.
Proof.
  unfold gauss_quant, zr, rr, oez, oeN, oeD, tail_eps. cbv zeta.
  destruct (Rgt_dec p (1 / 2)); destruct (Rlt_dec _ (1 / 100000000000000000000));
    destruct (Rlt_dec p (1 / 2)); reflexivity.
Qed.

(** * Affine in mu and std, odd about the median *)
Lemma gauss_quant_affine_l p mu std : gauss_quant p mu std = gauss_quant p 0 1 * std + mu.
Proof. rewrite !gauss_quant_unfold. ring. Qed.

Lemma gauss_quant_symmetric_l p mu std :
  p <> 1 / 2 -> gauss_quant (1 - p) mu std = 2 * mu - gauss_quant p mu std.
Proof.
  intros Hp. rewrite !gauss_quant_unfold. unfold rr.
  destruct (Rlt_dec (1 - p) (1 / 2)), (Rlt_dec p (1 / 2)),
    (Rgt_dec (1 - p) (1 / 2)), (Rgt_dec p (1 / 2)); try lra;
    replace (1 - (1 - p)) with p by ring; ring.
Qed.

(** * Monotonicity *)
Definition doez (y : R) : R :=
  1 - ((((4 * (113410552537 / 2500000000000000) * y + 3 * (40846242049 / 2000000000000)) * y
         + 2 * (342242088547 / 1000000000000)) * y + 1) * oeD y
       - oeN y * (((4 * (19280350317 / 5000000000000) * y + 3 * (2070755057 / 20000000000)) * y
                   + 2 * (265551731183 / 500000000000)) * y + 117716314099 / 200000000000))
      / (oeD y * oeD y).

Lemma oeD_pos y : 0 <= y -> 0 < oeD y.
Proof. intros H. unfold oeD. nra. Qed.

Lemma oeN_pos y : 0 <= y -> 0 < oeN y.
Proof. intros H. unfold oeN. nra. Qed.

Lemma oez_is_derive y : 0 <= y -> is_derive oez y (doez y).
Proof.
  intros H. pose proof (oeD_pos y H) as HD.
  unfold oez, doez. unfold oeN at 1, oeD at 1.
  auto_derive.
  - fold (oeD y). lra.
  - fold (oeD y). unfold oeN, oeD in *. field. lra.
Qed.

Lemma doez_pos y : 1 <= y <= 10 -> 0 < doez y.
Proof.
  intros H. unfold doez, oeN, oeD.
  interval with (i_bisect y, i_prec 50).
Qed.

Lemma oez_increasing a b : 1 <= a -> a < b -> b <= 10 -> oez a < oez b.
Proof.
  intros Ha Hab Hb.
  destruct (MVT_gen oez a b doez) as [c [Hc E]].
  - intros x Hx. apply oez_is_derive.
    rewrite Rmin_left in Hx by lra. lra.
  - intros x Hx. rewrite Rmin_left in Hx by lra.
    apply derivable_continuous_pt. exists (doez x). apply is_derive_Reals, oez_is_derive. lra.
  - rewrite Rmin_left, Rmax_right in Hc by lra.
    assert (0 < doez c) by (apply doez_pos; lra).
    assert (0 < doez c * (b - a)) by (apply Rmult_lt_0_compat; lra).
    lra.
Qed.

Lemma oez_lt_id y : 0 <= y -> oez y < y.
Proof.
  intros H. unfold oez.
  assert (0 < oeN y / oeD y) by (apply Rdiv_lt_0_compat; [apply oeN_pos | apply oeD_pos]; assumption).
  lra.
Qed.

Definition y_of (r : R) : R := sqrt (-2 * ln r).

Lemma y_of_half_pos : 0 < oez (y_of (1 / 2)).
Proof. unfold oez, y_of, oeN, oeD. interval with (i_prec 80). Qed.

Lemma y_of_half_ge1 : 1 <= y_of (1 / 2).
Proof. unfold y_of. interval. Qed.

Lemma y_of_eps_le10 : y_of tail_eps <= 10.
Proof. unfold y_of, tail_eps. interval. Qed.

Lemma y_of_decreasing r1 r2 : 0 < r1 -> r1 < r2 -> r2 <= 1 -> y_of r2 < y_of r1.
Proof.
  intros H1 H12 H2. unfold y_of.
  assert (ln r1 < ln r2) by (apply ln_increasing; lra).
  assert (ln r2 <= 0) by (rewrite <- ln_1; destruct (Req_dec r2 1) as [-> | N]; [lra | apply Rlt_le, ln_increasing; lra]).
  apply sqrt_lt_1_alt. lra.
Qed.

Lemma y_of_range r : tail_eps <= r -> r <= 1 / 2 -> 1 <= y_of r <= 10.
Proof.
  intros H1 H2. assert (0 < tail_eps) by (unfold tail_eps; lra).
  pose proof y_of_half_ge1. pose proof y_of_eps_le10.
  split.
  - destruct (Req_dec r (1 / 2)) as [-> | N]; [assumption|].
    apply Rlt_le, Rle_lt_trans with (y_of (1 / 2)); [assumption|].
    apply y_of_decreasing; lra.
  - destruct (Req_dec r tail_eps) as [-> | N]; [assumption|].
    apply Rlt_le, Rlt_le_trans with (y_of tail_eps); [|assumption].
    apply y_of_decreasing; lra.
Qed.

(* the upper-tail quantile is positive ... *)
Lemma zr_pos r : 0 < r -> r <= 1 / 2 -> 0 < zr r.
Proof.
  intros H1 H2. unfold zr. destruct (Rlt_dec r tail_eps); [lra|].
  fold (y_of r). pose proof y_of_half_pos.
  destruct (Req_dec r (1 / 2)) as [-> | N]; [assumption|].
  apply Rlt_trans with (oez (y_of (1 / 2))); [assumption|].
  pose proof (y_of_range r ltac:(lra) H2). pose proof y_of_half_ge1.
  apply oez_increasing; try lra. apply y_of_decreasing; lra.
Qed.

(* ... never increases with the tail probability, and strictly decreases once
   the smaller probability is at least 1e-20 *)
Lemma zr_antitone r1 r2 : 0 < r1 -> r1 < r2 -> r2 <= 1 / 2 -> zr r2 <= zr r1.
Proof.
  intros H1 H12 H2. unfold zr.
  destruct (Rlt_dec r1 tail_eps), (Rlt_dec r2 tail_eps); try lra.
  - fold (y_of r2). pose proof (y_of_range r2 ltac:(lra) H2).
    pose proof (oez_lt_id (y_of r2)). lra.
  - fold (y_of r1) (y_of r2).
    pose proof (y_of_range r1 ltac:(lra) ltac:(lra)). pose proof (y_of_range r2 ltac:(lra) H2).
    apply Rlt_le, oez_increasing; try lra. apply y_of_decreasing; lra.
Qed.

Lemma zr_strictly_antitone r1 r2 : tail_eps <= r1 -> r1 < r2 -> r2 <= 1 / 2 -> zr r2 < zr r1.
Proof.
  intros H1 H12 H2. assert (0 < tail_eps) by (unfold tail_eps; lra). unfold zr.
  destruct (Rlt_dec r1 tail_eps), (Rlt_dec r2 tail_eps); try lra.
  fold (y_of r1) (y_of r2).
  pose proof (y_of_range r1 ltac:(lra) ltac:(lra)). pose proof (y_of_range r2 ltac:(lra) H2).
  apply oez_increasing; try lra. apply y_of_decreasing; lra.
Qed.

Lemma gq01 p : gauss_quant p 0 1 = if Rlt_dec p (1 / 2) then - zr (rr p) else zr (rr p).
Proof. rewrite gauss_quant_unfold. ring. Qed.

(* standard quantile: weakly increasing on (0,1) *)
Lemma gq01_increasing p q : 0 < p -> p < q -> q < 1 -> gauss_quant p 0 1 <= gauss_quant q 0 1.
Proof.
  intros Hp Hpq Hq. rewrite !gq01. unfold rr.
  destruct (Rlt_dec p (1 / 2)), (Rlt_dec q (1 / 2)), (Rgt_dec p (1 / 2)), (Rgt_dec q (1 / 2)); try lra.
  - pose proof (zr_antitone p q). lra.
  - pose proof (zr_pos p). pose proof (zr_pos (1 - q)). lra.
  - pose proof (zr_pos p). pose proof (zr_pos q). lra.
  - apply zr_antitone; lra.
  - assert (p = 1 / 2) by lra. subst p. apply zr_antitone; lra.
Qed.

(* strictly increasing as long as both tail probabilities are at least 1e-20 *)
Lemma gq01_strictly_increasing p q :
  tail_eps <= p -> p < q -> q <= 1 - tail_eps -> gauss_quant p 0 1 < gauss_quant q 0 1.
Proof.
  intros Hp Hpq Hq. assert (0 < tail_eps) by (unfold tail_eps; lra).
  rewrite !gq01. unfold rr.
  destruct (Rlt_dec p (1 / 2)), (Rlt_dec q (1 / 2)), (Rgt_dec p (1 / 2)), (Rgt_dec q (1 / 2)); try lra.
  - pose proof (zr_strictly_antitone p q). lra.
  - pose proof (zr_pos p). pose proof (zr_pos (1 - q)). lra.
  - pose proof (zr_pos p). pose proof (zr_pos q). lra.
  - apply zr_strictly_antitone; lra.
  - assert (p = 1 / 2) by lra. subst p. apply zr_strictly_antitone; lra.
Qed.

Lemma gauss_quant_increasing_l p q mu std :
  0 < std -> 0 < p -> p < q -> q < 1 -> gauss_quant p mu std <= gauss_quant q mu std.
Proof.
  intros Hs Hp Hpq Hq. rewrite (gauss_quant_affine_l p), (gauss_quant_affine_l q).
  pose proof (gq01_increasing p q Hp Hpq Hq). nra.
Qed.

Lemma gauss_quant_strictly_increasing_l p q mu std :
  0 < std -> tail_eps <= p -> p < q -> q <= 1 - tail_eps ->
  gauss_quant p mu std < gauss_quant q mu std.
Proof.
  intros Hs Hp Hpq Hq. rewrite (gauss_quant_affine_l p), (gauss_quant_affine_l q).
  pose proof (gq01_strictly_increasing p q Hp Hpq Hq). nra.
Qed.

Lemma gauss_quant_strictly_increasing_c p q mu std :
  0 < std -> 1 / 10 ^ 20 <= p -> p < q -> q <= 1 - 1 / 10 ^ 20 ->
  gauss_quant p mu std < gauss_quant q mu std.
Proof.
  intros Hs Hp Hpq Hq. apply gauss_quant_strictly_increasing_l; try assumption; unfold tail_eps; lra.
Qed.

(* the sign tells the side of the median; the median itself is 1.5e-8 off *)
Lemma gauss_quant_sign_l p : 0 < p -> p < 1 ->
  (p < 1 / 2 -> gauss_quant p 0 1 < 0) /\ (1 / 2 <= p -> 0 < gauss_quant p 0 1).
Proof.
  intros H0 H1. rewrite gq01. unfold rr.
  destruct (Rlt_dec p (1 / 2)), (Rgt_dec p (1 / 2)); split; intros; try lra.
  - pose proof (zr_pos p). lra.
  - pose proof (zr_pos (1 - p)). lra.
  - pose proof (zr_pos p). lra.
Qed.

Lemma gauss_quant_median_l : Rabs (gauss_quant (1 / 2) 0 1) <= 2 / 100000000.
Proof.
  rewrite gq01. unfold rr, zr, tail_eps.
  destruct (Rlt_dec (1 / 2) (1 / 2)); [lra|]. destruct (Rgt_dec (1 / 2) (1 / 2)); [lra|].
  destruct (Rlt_dec (1 / 2) (1 / 100000000000000000000)); [lra|].
  unfold oez, oeN, oeD. interval with (i_prec 80).
Qed.

Lemma gauss_quant_monotone_l p q mu std : 0 < std -> p < q ->
  (0 < p -> q < 1 -> gauss_quant p mu std <= gauss_quant q mu std) /\
  (1 / 10 ^ 20 <= p -> q <= 1 - 1 / 10 ^ 20 -> gauss_quant p mu std < gauss_quant q mu std).
Proof.
  intros Hs Hpq. split; intros.
  - apply gauss_quant_increasing_l; assumption.
  - apply gauss_quant_strictly_increasing_c; assumption.
Qed.

Lemma gauss_quant_sign_median_l p : 0 < p -> p < 1 ->
  (p < 1 / 2 -> gauss_quant p 0 1 < 0) /\ (1 / 2 <= p -> 0 < gauss_quant p 0 1) /\
  Rabs (gauss_quant (1 / 2) 0 1) <= 2 / 100000000.
Proof.
  intros H0 H1. destruct (gauss_quant_sign_l p H0 H1) as [A B].
  split; [exact A | split; [exact B | exact gauss_quant_median_l]].
Qed.

(* far tails saturate at 10 standard deviations *)
Lemma gauss_quant_tail_l p : 0 < p -> p < tail_eps -> gauss_quant p 0 1 = -10 /\ gauss_quant (1 - p) 0 1 = 10.
Proof.
  intros H0 H1. assert (tail_eps < 1 / 4) by (unfold tail_eps; lra).
  rewrite !gq01. unfold rr, zr.
  destruct (Rlt_dec p (1 / 2)), (Rgt_dec p (1 / 2)), (Rlt_dec (1 - p) (1 / 2)), (Rgt_dec (1 - p) (1 / 2)); try lra.
  replace (1 - (1 - p)) with p by ring.
  destruct (Rlt_dec p tail_eps); [|lra]. split; ring.
Qed.

(* hypotheses are satisfiable *)
Example gauss_example : 0 < 2 /\ tail_eps <= 1 / 10 /\ 1 / 10 < 9 / 10 /\ 9 / 10 <= 1 - tail_eps.
Proof. unfold tail_eps. lra. Qed.
