(* C20 - circshift_fourier: the shift theorem for the model, for every real shift
   (negative, larger than the DFT size, fractional), every segment / start index /
   DFT size, the default DFT size and the copy flag. *)
From Coq Require Import Reals ZArith List Bool Lia Lra.
Set Warnings "-ambiguous-paths".
From Coquelicot Require Import Complex.
From Verif Require Import lib.C20_Numpy gen.WinHelp C20.Model C20.ProofsGamma.
Import ListNotations.
Open Scope R_scope.

(** * cis *)
Lemma cis_plus a b : cis (a + b) = Cmult (cis a) (cis b).
Proof. unfold cis, Cmult. simpl. rewrite cos_plus, sin_plus. f_equal; ring. Qed.

Lemma cis_0 : cis 0 = RtoC 1.
Proof. unfold cis, RtoC. rewrite cos_0, sin_0. reflexivity. Qed.

Lemma cis_2pi_nat n : cis (2 * PI * INR n) = RtoC 1.
Proof.
  unfold cis, RtoC.
  replace (2 * PI * INR n) with (0 + 2 * INR n * PI) by ring.
  rewrite cos_period, sin_period, cos_0, sin_0. reflexivity.
Qed.

Lemma cis_neg a : cis (- a) = (cos a, - sin a).
Proof. unfold cis. rewrite cos_neg, sin_neg. reflexivity. Qed.

Lemma cis_2pi_int k : cis (2 * PI * IZR k) = RtoC 1.
Proof.
  destruct (Z_le_gt_dec 0 k).
  - replace k with (Z.of_nat (Z.to_nat k)) by lia. rewrite <- INR_IZR_INZ. apply cis_2pi_nat.
  - replace k with (- Z.of_nat (Z.to_nat (- k)))%Z by lia.
    rewrite opp_IZR, <- INR_IZR_INZ.
    replace (2 * PI * - INR (Z.to_nat (- k))) with (- (2 * PI * INR (Z.to_nat (- k)))) by ring.
    rewrite cis_neg.
    pose proof (cis_2pi_nat (Z.to_nat (- k))) as E. unfold cis, RtoC in E. inversion E as [[E1 E2]].
    rewrite E1, E2. unfold RtoC. f_equal. ring.
Qed.

Lemma cis_period a k : cis (a + 2 * PI * IZR k) = cis a.
Proof. rewrite cis_plus, cis_2pi_int. unfold Cmult, RtoC, cis. simpl. f_equal; ring. Qed.

(** * Sums of complex lists *)
Lemma Csum_map2_ext {A B} (f g : A -> B -> C) l1 l2 :
  (forall x k, In k l2 -> f x k = g x k) -> Csum (map2 f l1 l2) = Csum (map2 g l1 l2).
Proof.
  revert l2. induction l1 as [|x l1 IH]; intros l2 H; [reflexivity|].
  destruct l2 as [|k l2]; [reflexivity|].
  unfold map2 in *. simpl. rewrite H by (left; reflexivity). f_equal.
  apply IH. intros y j Hj. apply H. right. assumption.
Qed.

Lemma Csum_scal c l : Csum (map (Cmult c) l) = Cmult c (Csum l).
Proof.
  induction l; simpl.
  - unfold Cmult, RtoC. simpl. f_equal; ring.
  - rewrite IHl. ring.
Qed.

(* multiplying the segment by a ramp first, then by the IDFT kernel *)
Lemma Csum_ramp (A B : Z -> R) (filt : list C) (bins : list Z) :
  Csum (map2 (fun x k => Cmult x (cis (A k)))
             (map2 Cmult filt (map (fun k => cis (B k)) bins)) bins) =
  Csum (map2 (fun x k => Cmult x (cis (B k + A k))) filt bins).
Proof.
  revert bins. induction filt as [|x filt IH]; intros bins; [reflexivity|].
  destruct bins as [|k bins]; [reflexivity|].
  unfold map2 in *. simpl. rewrite IH. rewrite cis_plus. f_equal. ring.
Qed.

(** * Lengths *)
Lemma Zlength_zrange n : (0 <= n)%Z -> Zlength (zrange n) = n.
Proof. intros H. rewrite Zlength_correct, zrange_length. lia. Qed.

Lemma csf_bins_length len start d : (0 <= len)%Z -> length (csf_bins len start d) = Z.to_nat len.
Proof.
  intros H. unfold csf_bins, np_arange2, csf_bin_lo, csf_bin_hi.
  rewrite !map_length, zrange_length. f_equal. lia.
Qed.

Lemma circshift_out_length_l filt s start dft : Zlength (circshift_out filt s start dft) = Zlength filt.
Proof.
  unfold circshift_out. rewrite !Zlength_correct, map2_length, map_length, csf_bins_length by lia.
  rewrite Nat2Z.id. lia.
Qed.

(** * floor and Python's % *)
Lemma Rfloor_spec x : Rfloor x <= x < Rfloor x + 1.
Proof. unfold Rfloor. pose proof (base_Int_part x). lra. Qed.

Lemma pymod_range x m : 0 < m -> 0 <= pymod x m < m.
Proof.
  intros Hm. unfold pymod. pose proof (Rfloor_spec (x / m)) as [H1 H2].
  assert (x = m * (x / m)) by (field; lra). split; nra.
Qed.

Lemma pymod_eq x m : exists q : Z, pymod x m = x - m * IZR q.
Proof. exists (Int_part (x / m)). reflexivity. Qed.

Lemma Int_part_unique x z : IZR z <= x < IZR z + 1 -> Int_part x = z.
Proof.
  intros [H1 H2]. unfold Int_part.
  assert ((z + 1)%Z = up x) by (apply up_tech; [assumption | rewrite plus_IZR; assumption]).
  lia.
Qed.

Lemma pymod_add_period x m k : 0 < m -> pymod (x + m * IZR k) m = pymod x m.
Proof.
  intros Hm. unfold pymod, Rfloor.
  assert (E : Int_part ((x + m * IZR k) / m) = (Int_part (x / m) + k)%Z).
  { apply Int_part_unique. rewrite plus_IZR.
    replace ((x + m * IZR k) / m) with (x / m + IZR k) by (field; lra).
    pose proof (base_Int_part (x / m)). lra. }
  rewrite E, plus_IZR. ring.
Qed.

(** * The shift theorem *)
Section Shift.
  Variables (d start : Z) (filt : list C).
  Hypothesis Hd : (0 < d)%Z.

  Let dR_pos : 0 < IZR d.
  Proof. apply IZR_lt. assumption. Qed.

  (* the output's time signal is the input's, delayed by the (unreduced, real) shift *)
  Lemma circshift_shift_theorem_real_l (s t : R) :
    seg_idft d start (circshift_out filt s start (Some d)) t = seg_idft d start filt (t - s).
  Proof.
    unfold seg_idft. rewrite circshift_out_length_l. f_equal.
    unfold circshift_out. simpl csf_resolve. cbv zeta.
    rewrite Csum_ramp. apply Csum_map2_ext. intros x k _. f_equal.
    unfold csf_shift_reduced. destruct (pymod_eq s (IZR d)) as [q ->].
    unfold csf_angle.
    replace (-2 * PI * (s - IZR d * IZR q) / IZR d * IZR k + 2 * PI * IZR k * t / IZR d)
      with (2 * PI * IZR k * (t - s) / IZR d + 2 * PI * IZR (k * q)) by (rewrite mult_IZR; field; lra).
    apply cis_period.
  Qed.

  (* the time signal has period d *)
  Lemma seg_idft_periodic_l (t : R) (m : Z) :
    seg_idft d start filt (t + IZR d * IZR m) = seg_idft d start filt t.
  Proof.
    unfold seg_idft. f_equal. apply Csum_map2_ext. intros x k _. f_equal.
    replace (2 * PI * IZR k * (t + IZR d * IZR m) / IZR d)
      with (2 * PI * IZR k * t / IZR d + 2 * PI * IZR (k * m)) by (rewrite mult_IZR; field; lra).
    apply cis_period.
  Qed.

  Lemma seg_idft_mod_l (n : Z) : seg_idft d start filt (IZR n) = seg_idft d start filt (IZR (n mod d)).
  Proof.
    rewrite (Z.div_mod n d) at 1 by lia.
    rewrite plus_IZR, mult_IZR, Rplus_comm. apply seg_idft_periodic_l.
  Qed.

  (* integer shifts: a circular shift of the samples *)
  Lemma circshift_shift_theorem_seg_l (s n : Z) :
    seg_idft d start (circshift_out filt (IZR s) start (Some d)) (IZR n) =
    seg_idft d start filt (IZR ((n - s) mod d)).
  Proof. rewrite circshift_shift_theorem_real_l, <- minus_IZR. apply seg_idft_mod_l. Qed.

  (* shifts that differ by a multiple of the DFT size give the same output *)
  Lemma circshift_shift_periodic_l (s : R) (m : Z) :
    circshift_out filt (s + IZR d * IZR m) start (Some d) = circshift_out filt s start (Some d).
  Proof.
    unfold circshift_out. simpl csf_resolve. cbv zeta. unfold csf_shift_reduced.
    rewrite pymod_add_period by assumption. reflexivity.
  Qed.
End Shift.

(** * The dense spectrum: ifft(embed(segment)) is that time signal at integer times *)
Lemma csf_bins_range len start d k : (0 < d)%Z -> In k (csf_bins len start d) -> (0 <= k < d)%Z.
Proof.
  intros Hd H. unfold csf_bins, csf_bin_mod in H. apply in_map_iff in H as [j [<- _]].
  apply Z.mod_pos_bound. assumption.
Qed.

Lemma map2_map_same {A X Y} (F : A -> X) (g : X -> A -> Y) l :
  map2 g (map F l) l = map (fun b => g (F b) b) l.
Proof. unfold map2. induction l; simpl; [reflexivity | rewrite IHl; reflexivity]. Qed.

Lemma Csum_map_plus {A} (f g : A -> C) l :
  Csum (map (fun b => Cplus (f b) (g b)) l) = Cplus (Csum (map f l)) (Csum (map g l)).
Proof. induction l; simpl; [ring | rewrite IHl; ring]. Qed.

Lemma Csum_map_zero {A} (l : list A) : Csum (map (fun _ => RtoC 0) l) = RtoC 0.
Proof. induction l; simpl; [reflexivity | rewrite IHl; ring]. Qed.

(* picking bin k out of 0..n-1 *)
Lemma Csum_pick (x : C) (th : Z -> R) k n :
  Csum (map (fun b => Cmult (if (k =? Z.of_nat b)%Z then x else RtoC 0) (cis (th (Z.of_nat b)))) (seq 0 n)) =
  if (0 <=? k)%Z && (k <? Z.of_nat n)%Z then Cmult x (cis (th k)) else RtoC 0.
Proof.
  induction n.
  - simpl. destruct (Z.leb_spec 0 k); simpl; [|reflexivity]. destruct (Z.ltb_spec k 0); [lia | reflexivity].
  - rewrite seq_S, map_app. simpl plus.
    assert (App : forall l1 l2, Csum (l1 ++ l2) = Cplus (Csum l1) (Csum l2)).
    { induction l1; intros; simpl; [ring | rewrite IHl1; ring]. }
    rewrite App, IHn. simpl. change (Z.pos (Pos.of_succ_nat n)) with (Z.of_nat (S n)).
    destruct (Z.leb_spec 0 k); cbn [andb].
    + destruct (Z.ltb_spec k (Z.of_nat n)), (Z.ltb_spec k (Z.of_nat (S n))), (Z.eqb_spec k (Z.of_nat n)); try lia; subst; ring.
    + destruct (Z.eqb_spec k (Z.of_nat n)); [lia | ring].
Qed.

Lemma idft_embed_gen (d : Z) (th : Z -> R) (filt : list C) (bins : list Z) :
  (0 < d)%Z -> (forall k, In k bins -> (0 <= k < d)%Z) ->
  Csum (map (fun b => Cmult (Csum (map2 (fun x k => if (k =? b)%Z then x else RtoC 0) filt bins)) (cis (th b)))
            (zrange d)) =
  Csum (map2 (fun x k => Cmult x (cis (th k))) filt bins).
Proof.
  intros Hd. revert bins. induction filt as [|x filt IH]; intros bins Hb.
  - unfold map2. simpl.
    rewrite (map_ext _ (fun _ => RtoC 0)) by (intros; ring). apply Csum_map_zero.
  - destruct bins as [|k bins].
    + unfold map2. simpl. rewrite (map_ext _ (fun _ => RtoC 0)) by (intros; ring). apply Csum_map_zero.
    + unfold map2 in *. simpl.
      rewrite (map_ext _ (fun b => Cplus (Cmult (if (k =? b)%Z then x else RtoC 0) (cis (th b)))
                                        (Cmult (Csum (map (fun p => if (snd p =? b)%Z then fst p else RtoC 0) (combine filt bins))) (cis (th b)))))
        by (intros; ring).
      rewrite Csum_map_plus, IH by (intros; apply Hb; right; assumption).
      f_equal. unfold zrange. rewrite map_map.
      rewrite Csum_pick. rewrite Z2Nat.id by lia.
      assert (0 <= k < d)%Z by (apply Hb; left; reflexivity).
      destruct (Z.leb_spec 0 k); [|lia]. destruct (Z.ltb_spec k d); [|lia]. reflexivity.
Qed.

Lemma embed_length d start filt : (0 <= d)%Z -> Zlength (embed d start filt) = d.
Proof. intros H. unfold embed. rewrite Zlength_correct, map_length, zrange_length. lia. Qed.

Lemma idft_embed_l d start filt n :
  (0 < d)%Z -> idft (embed d start filt) n = seg_idft d start filt (IZR n).
Proof.
  intros Hd. unfold idft. rewrite embed_length by lia. unfold seg_idft. f_equal.
  unfold embed. rewrite map2_map_same.
  apply (idft_embed_gen d (fun b => 2 * PI * IZR b * IZR n / IZR d)); [assumption|].
  intros k. apply csf_bins_range. assumption.
Qed.

Lemma Zlength_nn {A} (l : list A) : (0 <= Zlength l)%Z.
Proof. rewrite Zlength_correct. lia. Qed.

(* a segment that fits in the DFT is embedded verbatim: zeros, the segment, zeros
   (np.roll(np.pad(filt, (0, D - len)), start) of the repo's own test) *)
Lemma Csum_pick_seg (filt : list C) (a b : Z) :
  Csum (map2 (fun x k => if (k =? b)%Z then x else RtoC 0) filt
             (map (fun i => (a + i)%Z) (zrange (Zlength filt)))) =
  if (a <=? b)%Z && (b <? a + Zlength filt)%Z then nth (Z.to_nat (b - a)) filt (RtoC 0) else RtoC 0.
Proof.
  revert a. induction filt as [|x filt IH]; intros a.
  - simpl. destruct ((a <=? b)%Z && (b <? a + Zlength (@nil C))%Z); [|reflexivity].
    destruct (Z.to_nat (b - a)); reflexivity.
  - rewrite Zlength_cons. unfold zrange. rewrite Z2Nat.inj_succ by apply Zlength_nn.
    rewrite <- cons_seq, <- seq_shift. simpl map. rewrite !map_map.
    unfold map2. simpl combine. simpl map. simpl Csum.
    specialize (IH (a + 1)%Z). unfold map2, zrange in IH.
    rewrite (map_ext (fun x0 : nat => (a + Z.of_nat (S x0))%Z) (fun x0 => (a + 1 + Z.of_nat x0)%Z)) by (intros; lia).
    rewrite map_map in IH. rewrite IH.
    pose proof (Zlength_nn filt) as Hn.
    change (Z.of_nat 0) with 0%Z. rewrite Z.add_0_r.
    destruct (Z.eqb_spec a b) as [-> | Nab].
    + destruct (Z.leb_spec (b + 1) b); [lia|]. simpl andb.
      destruct (Z.leb_spec b b); [|lia]. destruct (Z.ltb_spec b (b + Z.succ (Zlength filt))); [|lia].
      simpl andb. replace (b - b)%Z with 0%Z by lia. simpl. ring.
    + destruct (Z.leb_spec (a + 1) b), (Z.leb_spec a b); try lia; simpl andb.
      * destruct (Z.ltb_spec b (a + 1 + Zlength filt)), (Z.ltb_spec b (a + Z.succ (Zlength filt))); try lia.
        -- replace (Z.to_nat (b - a)) with (S (Z.to_nat (b - (a + 1)))) by lia. simpl. ring.
        -- ring.
      * cbv iota. ring.
Qed.

Lemma embed_fitting_l d start filt b :
  (0 <= start)%Z -> (start + Zlength filt <= d)%Z -> (0 <= b < d)%Z ->
  nth (Z.to_nat b) (embed d start filt) (RtoC 0) =
  if (start <=? b)%Z && (b <? start + Zlength filt)%Z
  then nth (Z.to_nat (b - start)) filt (RtoC 0) else RtoC 0.
Proof.
  intros Hs Hf Hb. unfold embed.
  set (F := fun b0 : Z => _).
  rewrite (nth_indep _ (RtoC 0) (F 0%Z)) by (rewrite map_length, zrange_length; lia).
  rewrite map_nth, zrange_nth by lia. rewrite Z2Nat.id by lia. unfold F.
  rewrite <- Csum_pick_seg. f_equal.
  unfold csf_bins, np_arange2, csf_bin_lo, csf_bin_hi, csf_bin_mod.
  replace (start + Zlength filt - start)%Z with (Zlength filt) by lia.
  rewrite map_map. f_equal. apply map_ext_in. intros i Hi.
  unfold zrange in Hi. apply in_map_iff in Hi as [n [<- Hn]]. apply in_seq in Hn.
  apply Z.mod_small. pose proof (Zlength_nn filt). lia.
Qed.

(* The property's clause: the inverse DFT of the output is the inverse DFT of the
   input circularly shifted by [s] samples. *)
Lemma circshift_shift_theorem_l filt (s : Z) start d n :
  (0 < d)%Z ->
  idft (embed d start (circshift_out filt (IZR s) start (Some d))) n =
  idft (embed d start filt) ((n - s) mod d).
Proof.
  intros Hd. rewrite !idft_embed_l by assumption. apply circshift_shift_theorem_seg_l. assumption.
Qed.

(* a segment that fits in the DFT (0 <= start, start + len <= d) is embedded verbatim:
   zeros, the segment, zeros *)
Lemma csf_default_l filt s start :
  circshift_out filt s start None = circshift_out filt s start (Some (Zlength filt + start)%Z).
Proof. reflexivity. Qed.

Lemma circshift_copy_l filt s start dft c128 :
  csf_arg_after (circshift_fourier filt s start dft true c128) = filt /\
  csf_same_object (circshift_fourier filt s start dft true c128) = false /\
  csf_ret (circshift_fourier filt s start dft true c128) = circshift_out filt s start dft.
Proof. unfold circshift_fourier, csf_out_of_place. simpl. auto. Qed.

Lemma circshift_result_l filt s start dft copy c128 :
  csf_ret (circshift_fourier filt s start dft copy c128) = circshift_out filt s start dft.
Proof. unfold circshift_fourier. destruct (csf_out_of_place copy c128); reflexivity. Qed.

Lemma circshift_inplace_l filt s start dft :
  csf_arg_after (circshift_fourier filt s start dft false true) = circshift_out filt s start dft /\
  csf_same_object (circshift_fourier filt s start dft false true) = true /\
  csf_arg_after (circshift_fourier filt s start dft false false) = filt.
Proof. unfold circshift_fourier, csf_out_of_place. simpl. auto. Qed.

(* hypotheses are satisfiable *)
Example shift_example : (0 < 8)%Z.
Proof. lia. Qed.
