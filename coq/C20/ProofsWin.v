(* C20 - the four numpy-shaped windows: length, non-negativity, textbook closed
   forms, exact sums.  No Interval here (small cases are done by hand). *)
From Coq Require Import Reals ZArith List Bool Lia Lra.
Set Warnings "-ambiguous-paths".
From Verif Require Import lib.C20_Numpy gen.WinHelp C20.Model.
Import ListNotations.
Open Scope R_scope.

(** * Sums over lists *)
Lemma Rsum_app l1 l2 : Rsum (l1 ++ l2) = Rsum l1 + Rsum l2.
Proof. induction l1; simpl; [lra | rewrite IHl1; lra]. Qed.

Lemma Rsum_map_ext {A} (f g : A -> R) l :
  (forall x, In x l -> f x = g x) -> Rsum (map f l) = Rsum (map g l).
Proof.
  induction l; simpl; intros H; [reflexivity|].
  rewrite H by auto. rewrite IHl; auto.
Qed.

Lemma Rsum_map_scal {A} (f : A -> R) c l : Rsum (map (fun x => f x * c) l) = Rsum (map f l) * c.
Proof. induction l; simpl; [lra | rewrite IHl; lra]. Qed.

Lemma Rsum_map_plus {A} (f g : A -> R) l :
  Rsum (map (fun x => f x + g x) l) = Rsum (map f l) + Rsum (map g l).
Proof. induction l; simpl; [lra | rewrite IHl; lra]. Qed.

Lemma Rsum_map_const {A} c (l : list A) : Rsum (map (fun _ => c) l) = INR (length l) * c.
Proof.
  induction l; [simpl; lra|].
  change (Rsum (map (fun _ => c) (a :: l))) with (c + Rsum (map (fun _ => c) l)).
  rewrite IHl. change (length (a :: l)) with (S (length l)). rewrite S_INR. lra.
Qed.

Lemma Rsum_seq_S (f : nat -> R) a n :
  Rsum (map f (seq a (S n))) = Rsum (map f (seq a n)) + f (a + n)%nat.
Proof. rewrite seq_S, map_app, Rsum_app. simpl. lra. Qed.

Lemma Rsum_nonneg l : (forall x, In x l -> 0 <= x) -> 0 <= Rsum l.
Proof.
  induction l; simpl; intros H; [lra|].
  assert (0 <= a) by auto. assert (0 <= Rsum l) by auto. lra.
Qed.

(* sum of an affine function of the index *)
Lemma Rsum_affine_seq (al be : R) a n :
  Rsum (map (fun i => al + be * INR i) (seq a n)) =
  INR n * al + be * (INR n * INR a + INR n * (INR n - 1) / 2).
Proof.
  induction n.
  - simpl. lra.
  - rewrite Rsum_seq_S, IHn. rewrite plus_INR, S_INR. field.
Qed.

(** * Unfolding the model for width >= 2: everything indexed by nat *)
Lemma zrange_S K : zrange (Z.of_nat K) = map Z.of_nat (seq 0 K).
Proof. unfold zrange. rewrite Nat2Z.id. reflexivity. Qed.

Lemma np_n_nat K i : np_n (Z.of_nat (S K)) (Z.of_nat i) = 2 * INR i - INR K.
Proof.
  unfold np_n. rewrite !INR_IZR_INZ.
  rewrite <- mult_IZR, <- minus_IZR. f_equal. lia.
Qed.

Lemma IZR_S_minus_1 K : IZR (Z.of_nat (S K)) - 1 = INR K.
Proof. rewrite <- INR_IZR_INZ, S_INR. lra. Qed.

Lemma np_window_nat s K :
  np_window s (Z.of_nat (S (S K))) =
  map (fun i => np_shape_at s (Z.of_nat (S (S K))) (Z.of_nat i)) (seq 0 (S (S K))).
Proof.
  unfold np_window.
  destruct (Z.ltb_spec (Z.of_nat (S (S K))) 1); [lia|].
  destruct (Z.eqb_spec (Z.of_nat (S (S K))) 1); [lia|].
  rewrite zrange_S, map_map. reflexivity.
Qed.

Lemma Rmax_1_K K : Rmax 1 (INR (S K)) = INR (S K).
Proof. apply Rmax_right. rewrite S_INR. pose proof (pos_INR K). lra. Qed.

(* textbook forms of the shapes: index i of a window of S K + 1 samples *)
Definition tb_shape (s : np_shape) (K i : nat) : R :=
  let x := 2 * PI * INR i / INR K in
  match s with
  | NpBartlett => 1 - Rabs (2 * INR i - INR K) / INR K
  | NpBlackman => 42 / 100 - 5 / 10 * cos x + 8 / 100 * cos (2 * x)
  | NpHamming => 54 / 100 - 46 / 100 * cos x
  | NpHanning => 5 / 10 - 5 / 10 * cos x
  end.

Lemma cos_shift_pi x : cos (x - PI) = - cos x.
Proof. rewrite cos_minus, cos_PI, sin_PI. ring. Qed.

Lemma cos_shift_2pi x : cos (x - 2 * PI) = cos x.
Proof. rewrite cos_minus, cos_2PI, sin_2PI. ring. Qed.

Lemma np_shape_textbook s K i :
  np_shape_at s (Z.of_nat (S (S K))) (Z.of_nat i) = tb_shape s (S K) i.
Proof.
  unfold np_shape_at, tb_shape. rewrite np_n_nat, IZR_S_minus_1.
  assert (HK : INR (S K) <> 0) by (apply not_0_INR; lia).
  set (k := INR (S K)) in *. set (x := INR i).
  destruct s.
  - destruct (Rle_dec (2 * x - k) 0).
    + rewrite Rabs_left1 by assumption. field; assumption.
    + rewrite Rabs_right by lra. field; assumption.
  - replace (PI * (2 * x - k) / k) with (2 * PI * x / k - PI) by (field; assumption).
    replace (2 * PI * (2 * x - k) / k) with (2 * (2 * PI * x / k) - 2 * PI) by (field; assumption).
    rewrite cos_shift_pi, cos_shift_2pi. ring.
  - replace (PI * (2 * x - k) / k) with (2 * PI * x / k - PI) by (field; assumption).
    rewrite cos_shift_pi. ring.
  - replace (PI * (2 * x - k) / k) with (2 * PI * x / k - PI) by (field; assumption).
    rewrite cos_shift_pi. ring.
Qed.

(* area constants of the four classes, as generated *)
Definition area_coeff (k : wkind) : R :=
  match k with Bartlett => 1 / 2 | Blackman => 42 / 100 | Hamming => 54 / 100 | Hann => 1 / 2 end.

Lemma norm_of_nat k K : norm_of k (IZR (Z.of_nat (S (S K)))) = area_coeff k * INR (S K).
Proof.
  assert (E : IZR (Z.of_nat (S (S K))) - 1 = INR (S K)) by apply IZR_S_minus_1.
  destruct k; unfold norm_of, bartlett_norm, blackman_norm, hamming_norm, hann_norm, area_coeff;
    rewrite E, Rmax_1_K; field.
Qed.

Definition np_of (k : wkind) : np_shape :=
  match k with Bartlett => NpBartlett | Blackman => NpBlackman | Hamming => NpHamming | Hann => NpHanning end.

Lemma shape_of_np k : shape_of k = np_of k.
Proof. destruct k; reflexivity. Qed.

(* the window of width K+2 is the textbook shape over its continuous-limit area *)
Lemma window_nat k K :
  window k (Z.of_nat (S (S K))) =
  map (fun i => tb_shape (np_of k) (S K) i / (area_coeff k * INR (S K))) (seq 0 (S (S K))).
Proof.
  unfold window. rewrite np_window_nat, map_map, norm_of_nat, shape_of_np.
  apply map_ext. intros i. rewrite np_shape_textbook. reflexivity.
Qed.

Lemma width_nat_cases (w : Z) :
  (w <= 0)%Z \/ w = 1%Z \/ exists K, w = Z.of_nat (S (S K)).
Proof.
  destruct (Z_lt_le_dec w 1); [left; lia|].
  destruct (Z.eq_dec w 1); [right; left; assumption|].
  right; right. exists (Z.to_nat (w - 2)). lia.
Qed.

(** * Length *)
Lemma window_length_l k w : Zlength (window k w) = Z.max 0 w.
Proof.
  destruct (width_nat_cases w) as [H | [H | [K H]]].
  - unfold window, np_window. destruct (Z.ltb_spec w 1); [|lia]. simpl. rewrite Zlength_nil. lia.
  - subst w. reflexivity.
  - subst w. rewrite window_nat, Zlength_correct, map_length, seq_length. lia.
Qed.

Lemma window_width1 k : window k 1 = [1 / area_coeff k].
Proof.
  unfold window, np_window. simpl.
  destruct k; unfold norm_of, bartlett_norm, blackman_norm, hamming_norm, hann_norm, area_coeff;
    replace (1 - 1) with 0 by ring; rewrite Rmax_left by lra; f_equal; field.
Qed.

(** * Non-negativity *)
Lemma area_coeff_pos k : 0 < area_coeff k.
Proof. destruct k; unfold area_coeff; lra. Qed.

Lemma tb_shape_nonneg s K i : (i <= S K)%nat -> 0 <= tb_shape s (S K) i.
Proof.
  intros Hi. unfold tb_shape.
  assert (HK : 0 < INR (S K)) by (apply lt_0_INR; lia).
  set (x := 2 * PI * INR i / INR (S K)).
  pose proof (COS_bound x) as [Hc1 Hc2].
  destruct s.
  - assert (Rabs (2 * INR i - INR (S K)) <= INR (S K)).
    { apply Rabs_le. apply le_INR in Hi. pose proof (pos_INR i). lra. }
    assert (Rabs (2 * INR i - INR (S K)) / INR (S K) <= 1).
    { apply Rmult_le_reg_r with (INR (S K)); [assumption|]. unfold Rdiv.
      rewrite Rmult_assoc, Rinv_l by lra. lra. }
    lra.
  - rewrite cos_2a_cos.
    (* 0.16 (c + 1)(c + 2.125) >= 0 is false in general; here: 0.34 - 0.5 c + 0.16 c^2 = 0.16 (1 - c)(2.125 - c) *)
    set (c := cos x) in *.
    replace (42 / 100 - 5 / 10 * c + 8 / 100 * (2 * c * c - 1)) with (16 / 100 * ((1 - c) * (2125 / 1000 - c))) by field.
    apply Rmult_le_pos; [lra|]. apply Rmult_le_pos; lra.
  - lra.
  - lra.
Qed.

Lemma window_nonneg_l k w x : In x (window k w) -> 0 <= x.
Proof.
  destruct (width_nat_cases w) as [H | [H | [K H]]].
  - unfold window, np_window. destruct (Z.ltb_spec w 1); [|lia]. simpl. tauto.
  - subst w. rewrite window_width1. simpl. intros [<- | []].
    pose proof (area_coeff_pos k). apply Rlt_le, Rdiv_lt_0_compat; lra.
  - subst w. rewrite window_nat. intros Hin. apply in_map_iff in Hin as [i [<- Hi]].
    apply in_seq in Hi.
    apply Rmult_le_pos.
    + apply tb_shape_nonneg. lia.
    + apply Rlt_le, Rinv_0_lt_compat. apply Rmult_lt_0_compat; [apply area_coeff_pos | apply lt_0_INR; lia].
Qed.

(** * Sums of cosines over a full period (Lagrange / Dirichlet telescoping) *)
Lemma sin_diff a b : sin (a + b) - sin (a - b) = 2 * cos a * sin b.
Proof. rewrite sin_plus, sin_minus. ring. Qed.

Lemma cos_sum_telescope th ph n :
  2 * sin (th / 2) * Rsum (map (fun i => cos (INR i * th + ph)) (seq 0 n)) =
  sin ((INR n - 1 / 2) * th + ph) - sin (ph - th / 2).
Proof.
  induction n.
  - simpl. replace ((0 - 1 / 2) * th + ph) with (ph - th / 2) by field. ring.
  - rewrite Rsum_seq_S. rewrite Rmult_plus_distr_l, IHn. simpl plus.
    replace ((INR (S n) - 1 / 2) * th + ph) with ((INR n * th + ph) + th / 2) by (rewrite S_INR; field).
    replace ((INR n - 1 / 2) * th + ph) with ((INR n * th + ph) - th / 2) by field.
    pose proof (sin_diff (INR n * th + ph) (th / 2)). lra.
Qed.

Lemma sin_add_2pi x : sin (x + 2 * PI) = sin x.
Proof. rewrite sin_plus, sin_2PI, cos_2PI. ring. Qed.

Lemma sin_pi_over_pos K : (2 <= K)%nat -> 0 < sin (PI / INR K).
Proof.
  intros HK. assert (2 <= INR K) by (apply (le_INR 2); assumption).
  pose proof PI_RGT_0.
  apply sin_gt_0.
  - apply Rdiv_lt_0_compat; lra.
  - apply Rmult_lt_reg_r with (INR K); [lra|]. unfold Rdiv. rewrite Rmult_assoc, Rinv_l by lra. nra.
Qed.

(* sum_{i=0}^{K} cos(2 pi i / K) = 1  for K >= 2 *)
Lemma cos_sum_period K :
  (2 <= K)%nat -> Rsum (map (fun i => cos (2 * PI * INR i / INR K)) (seq 0 (S K))) = 1.
Proof.
  intros HK. assert (H2 : 2 <= INR K) by (apply (le_INR 2); assumption).
  assert (HK0 : INR K <> 0) by lra.
  pose proof (sin_pi_over_pos K HK) as Hs.
  pose proof (cos_sum_telescope (2 * PI / INR K) 0 (S K)) as T.
  replace (2 * PI / INR K / 2) with (PI / INR K) in T by (field; assumption).
  rewrite S_INR in T.
  replace ((INR K + 1 - 1 / 2) * (2 * PI / INR K) + 0) with (PI / INR K + 2 * PI) in T by (field; assumption).
  rewrite sin_add_2pi in T.
  replace (0 - PI / INR K) with (- (PI / INR K)) in T by ring. rewrite sin_neg in T.
  rewrite (Rsum_map_ext _ (fun i => cos (INR i * (2 * PI / INR K) + 0))).
  2:{ intros i _. f_equal. field; assumption. }
  apply Rmult_eq_reg_l with (2 * sin (PI / INR K)); [lra | lra].
Qed.

(* sum_{i=0}^{K} cos(4 pi i / K) = 1  for K >= 3 *)
Lemma cos_sum_period2 K :
  (3 <= K)%nat -> Rsum (map (fun i => cos (2 * (2 * PI * INR i / INR K))) (seq 0 (S K))) = 1.
Proof.
  intros HK. assert (H3 : 3 <= INR K) by (replace 3 with (INR 3) by (simpl; lra); apply le_INR; assumption).
  assert (HK0 : INR K <> 0) by lra.
  pose proof PI_RGT_0 as Hpi.
  assert (Hs : 0 < sin (2 * PI / INR K)).
  { apply sin_gt_0.
    - apply Rdiv_lt_0_compat; lra.
    - apply Rmult_lt_reg_r with (INR K); [lra|]. unfold Rdiv. rewrite Rmult_assoc, Rinv_l by lra. nra. }
  pose proof (cos_sum_telescope (4 * PI / INR K) 0 (S K)) as T.
  replace (4 * PI / INR K / 2) with (2 * PI / INR K) in T by (field; assumption).
  rewrite S_INR in T.
  replace ((INR K + 1 - 1 / 2) * (4 * PI / INR K) + 0) with (2 * PI / INR K + 2 * PI + 2 * PI) in T by (field; assumption).
  rewrite !sin_add_2pi in T.
  replace (0 - 2 * PI / INR K) with (- (2 * PI / INR K)) in T by ring. rewrite sin_neg in T.
  rewrite (Rsum_map_ext _ (fun i => cos (INR i * (4 * PI / INR K) + 0))).
  2:{ intros i _. f_equal. field; assumption. }
  apply Rmult_eq_reg_l with (2 * sin (2 * PI / INR K)); [lra | lra].
Qed.

(** * Exact sums of the windows *)
Lemma Rsum_lin3 {A} (a b c : R) (f g : A -> R) l :
  Rsum (map (fun i => a + b * f i + c * g i) l) =
  INR (length l) * a + b * Rsum (map f l) + c * Rsum (map g l).
Proof.
  induction l as [|x l IH]; [simpl; lra|].
  change (length (x :: l)) with (S (length l)). rewrite S_INR.
  simpl map. simpl Rsum. rewrite IH. ring.
Qed.

Lemma wsum_nat k K :
  Rsum (window k (Z.of_nat (S (S K)))) =
  Rsum (map (tb_shape (np_of k) (S K)) (seq 0 (S (S K)))) / (area_coeff k * INR (S K)).
Proof. rewrite window_nat. apply (Rsum_map_scal (tb_shape (np_of k) (S K)) (/ (area_coeff k * INR (S K)))). Qed.

Lemma INR_S_pos K : 0 < INR (S K).
Proof. apply lt_0_INR; lia. Qed.

(* Hann, K >= 2 intervals: the samples sum to exactly 1 *)
Lemma hann_sum_nat K : Rsum (window Hann (Z.of_nat (S (S (S K))))) = 1.
Proof.
  rewrite wsum_nat. simpl np_of. unfold tb_shape.
  rewrite (Rsum_map_ext _ (fun i => 5 / 10 + (- (5 / 10)) * cos (2 * PI * INR i / INR (S (S K))) + 0 * 0))
    by (intros; ring).
  rewrite Rsum_lin3, cos_sum_period by lia. rewrite seq_length.
  pose proof (INR_S_pos (S K)). unfold area_coeff. rewrite (S_INR (S (S K))). field. lra.
Qed.

(* Hamming, K >= 2: 1 + 0.08 / (0.54 K) *)
Lemma hamming_sum_nat K :
  Rsum (window Hamming (Z.of_nat (S (S (S K))))) = 1 + 4 / (27 * INR (S (S K))).
Proof.
  rewrite wsum_nat. simpl np_of. unfold tb_shape.
  rewrite (Rsum_map_ext _ (fun i => 54 / 100 + (- (46 / 100)) * cos (2 * PI * INR i / INR (S (S K))) + 0 * 0))
    by (intros; ring).
  rewrite Rsum_lin3, cos_sum_period by lia. rewrite seq_length.
  pose proof (INR_S_pos (S K)). unfold area_coeff. rewrite (S_INR (S (S K))). field. lra.
Qed.

(* Blackman, K >= 3: exactly 1 *)
Lemma blackman_sum_nat K : Rsum (window Blackman (Z.of_nat (S (S (S (S K)))))) = 1.
Proof.
  rewrite wsum_nat. simpl np_of. unfold tb_shape. cbv zeta.
  rewrite (Rsum_map_ext _ (fun i => 42 / 100 + (- (5 / 10)) * cos (2 * PI * INR i / INR (S (S (S K))))
                                    + 8 / 100 * cos (2 * (2 * PI * INR i / INR (S (S (S K)))))))
    by (intros; ring).
  rewrite Rsum_lin3, cos_sum_period, cos_sum_period2 by lia. rewrite seq_length.
  pose proof (INR_S_pos (S (S K))). unfold area_coeff. rewrite (S_INR (S (S (S K)))). field. lra.
Qed.

(* Bartlett *)
Lemma bartlett_first_half K m :
  (2 * m <= K)%nat -> (0 < K)%nat ->
  Rsum (map (tb_shape NpBartlett K) (seq 0 (S m))) = 2 / INR K * (INR (S m) * INR m / 2).
Proof.
  intros Hm HK. assert (0 < INR K) by (apply lt_0_INR; assumption).
  rewrite (Rsum_map_ext _ (fun i => 0 + 2 / INR K * INR i)).
  - rewrite Rsum_affine_seq. rewrite S_INR. simpl INR. field. lra.
  - intros i Hi. apply in_seq in Hi. unfold tb_shape.
    assert (INR i <= INR m) by (apply le_INR; lia).
    assert (2 * INR m <= INR K) by (replace 2 with (INR 2) by (simpl; lra); rewrite <- mult_INR; apply le_INR; lia).
    rewrite Rabs_left1 by lra. field. lra.
Qed.

Lemma bartlett_second_half K m n :
  (K < 2 * S m)%nat -> (0 < K)%nat ->
  Rsum (map (tb_shape NpBartlett K) (seq (S m) n)) =
  INR n * 2 + - (2 / INR K) * (INR n * INR (S m) + INR n * (INR n - 1) / 2).
Proof.
  intros Hm HK. assert (0 < INR K) by (apply lt_0_INR; assumption).
  rewrite (Rsum_map_ext _ (fun i => 2 + - (2 / INR K) * INR i)).
  - apply Rsum_affine_seq.
  - intros i Hi. apply in_seq in Hi. unfold tb_shape.
    assert (INR (S m) <= INR i) by (apply le_INR; lia).
    assert (INR K + 1 <= 2 * INR (S m)).
    { replace 2 with (INR 2) by (simpl; lra). rewrite <- mult_INR, <- S_INR. apply le_INR; lia. }
    rewrite Rabs_right by lra. field. lra.
Qed.

Lemma bartlett_sum_even_nat m :
  Rsum (window Bartlett (Z.of_nat (S (2 * S m)))) = 1.
Proof.
  replace (S (2 * S m)) with (S (S (S (2 * m)))) by lia.
  rewrite wsum_nat. simpl np_of.
  replace (seq 0 (S (S (S (2 * m))))) with (seq 0 (S (S m)) ++ seq (S (S m)) (S m)).
  2:{ rewrite <- seq_app. f_equal. lia. }
  rewrite map_app, Rsum_app.
  rewrite bartlett_first_half, bartlett_second_half by lia.
  replace (S (S (2 * m))) with (2 * S m)%nat by lia.
  rewrite mult_INR. rewrite !S_INR. simpl INR. unfold area_coeff.
  pose proof (pos_INR m). field. lra.
Qed.

Lemma bartlett_sum_odd_nat m :
  Rsum (window Bartlett (Z.of_nat (S (S (2 * m))))) = 1 - 1 / (INR (S (2 * m))) ^ 2.
Proof.
  rewrite wsum_nat. simpl np_of.
  replace (seq 0 (S (S (2 * m)))) with (seq 0 (S m) ++ seq (S m) (S m)).
  2:{ rewrite <- seq_app. f_equal. lia. }
  rewrite map_app, Rsum_app.
  rewrite bartlett_first_half, bartlett_second_half by lia.
  rewrite !S_INR, mult_INR. simpl INR. unfold area_coeff.
  pose proof (pos_INR m). field. lra.
Qed.

(** small widths, by direct evaluation *)
Lemma cos_2PI_1 : cos (2 * PI * 1 / 1) = 1.
Proof. replace (2 * PI * 1 / 1) with (2 * PI) by field. apply cos_2PI. Qed.
Lemma cos_0_1 : cos (2 * PI * 0 / 1) = 1.
Proof. replace (2 * PI * 0 / 1) with 0 by field. apply cos_0. Qed.
Lemma cos_4PI : cos (2 * (2 * PI)) = 1.
Proof. rewrite cos_2a, cos_2PI, sin_2PI. ring. Qed.

Lemma hann_sum_2 : Rsum (window Hann 2) = 0.
Proof.
  change 2%Z with (Z.of_nat 2). rewrite wsum_nat. simpl. unfold tb_shape. simpl INR.
  rewrite cos_0_1, cos_2PI_1. unfold area_coeff. field.
Qed.

Lemma hamming_sum_2 : Rsum (window Hamming 2) = 8 / 27.
Proof.
  change 2%Z with (Z.of_nat 2). rewrite wsum_nat. simpl. unfold tb_shape. simpl INR.
  rewrite cos_0_1, cos_2PI_1. unfold area_coeff. field.
Qed.

Lemma blackman_sum_2 : Rsum (window Blackman 2) = 0.
Proof.
  change 2%Z with (Z.of_nat 2). rewrite wsum_nat. simpl. unfold tb_shape. simpl INR. cbv zeta.
  rewrite cos_0_1, cos_2PI_1.
  replace (2 * 1) with (2 * 1) by ring.
  replace (cos (2 * 1)) with (cos (2 * 1)) by reflexivity.
  assert (E0 : cos (2 * (2 * PI * 0 / 1)) = 1) by (replace (2 * (2 * PI * 0 / 1)) with 0 by field; apply cos_0).
  assert (E1 : cos (2 * (2 * PI * 1 / 1)) = 1) by (replace (2 * (2 * PI * 1 / 1)) with (2 * (2 * PI)) by field; apply cos_4PI).
  rewrite E0, E1. unfold area_coeff. field.
Qed.

Lemma blackman_sum_3 : Rsum (window Blackman 3) = 25 / 21.
Proof.
  change 3%Z with (Z.of_nat 3). rewrite wsum_nat. simpl. unfold tb_shape. simpl INR. cbv zeta.
  assert (A0 : cos (2 * PI * 0 / (1 + 1)) = 1) by (replace (2 * PI * 0 / (1 + 1)) with 0 by field; apply cos_0).
  assert (A1 : cos (2 * PI * 1 / (1 + 1)) = -1) by (replace (2 * PI * 1 / (1 + 1)) with PI by field; apply cos_PI).
  assert (A2 : cos (2 * PI * (1 + 1) / (1 + 1)) = 1) by (replace (2 * PI * (1 + 1) / (1 + 1)) with (2 * PI) by field; apply cos_2PI).
  assert (B0 : cos (2 * (2 * PI * 0 / (1 + 1))) = 1) by (replace (2 * (2 * PI * 0 / (1 + 1))) with 0 by field; apply cos_0).
  assert (B1 : cos (2 * (2 * PI * 1 / (1 + 1))) = 1) by (replace (2 * (2 * PI * 1 / (1 + 1))) with (2 * PI) by field; apply cos_2PI).
  assert (B2 : cos (2 * (2 * PI * (1 + 1) / (1 + 1))) = 1) by (replace (2 * (2 * PI * (1 + 1) / (1 + 1))) with (2 * (2 * PI)) by field; apply cos_4PI).
  rewrite A0, A1, A2, B0, B1, B2. unfold area_coeff. field.
Qed.

(** * The same over Z widths (the form exported by Props.v) *)
Lemma hann_sum_l w : (3 <= w)%Z -> Rsum (window Hann w) = 1.
Proof.
  intros H. replace w with (Z.of_nat (S (S (S (Z.to_nat (w - 3)))))) by lia. apply hann_sum_nat.
Qed.

Lemma IZR_pred_nat K : IZR (Z.of_nat (S K) - 1) = INR K.
Proof. rewrite minus_IZR. apply IZR_S_minus_1. Qed.

Lemma hamming_sum_l w : (3 <= w)%Z -> Rsum (window Hamming w) = 1 + 4 / (27 * IZR (w - 1)).
Proof.
  intros H. replace w with (Z.of_nat (S (S (S (Z.to_nat (w - 3)))))) by lia.
  rewrite hamming_sum_nat, IZR_pred_nat. reflexivity.
Qed.

Lemma blackman_sum_l w : (4 <= w)%Z -> Rsum (window Blackman w) = 1.
Proof.
  intros H. replace w with (Z.of_nat (S (S (S (S (Z.to_nat (w - 4))))))) by lia. apply blackman_sum_nat.
Qed.

Lemma bartlett_sum_l w :
  (2 <= w)%Z ->
  Rsum (window Bartlett w) = if Z.even (w - 1) then 1 else 1 - 1 / IZR (w - 1) ^ 2.
Proof.
  intros H. destruct (Z.even (w - 1)) eqn:E.
  - apply Z.even_spec in E. destruct E as [m Hm].
    replace w with (Z.of_nat (S (2 * S (Z.to_nat (m - 1))))) by lia.
    apply bartlett_sum_even_nat.
  - assert (O : Z.odd (w - 1) = true) by (rewrite <- Z.negb_even, E; reflexivity).
    apply Z.odd_spec in O. destruct O as [m Hm].
    replace w with (Z.of_nat (S (S (2 * Z.to_nat m)))) by lia.
    rewrite bartlett_sum_odd_nat, IZR_pred_nat. reflexivity.
Qed.

Lemma window_sum_empty k w : (w <= 0)%Z -> Rsum (window k w) = 0.
Proof.
  intros H. unfold window, np_window. destruct (Z.ltb_spec w 1); [reflexivity | lia].
Qed.

Lemma window_sum_1 k : Rsum (window k 1) = 1 / area_coeff k.
Proof. rewrite window_width1. simpl. ring. Qed.

(* all four: the samples sum to 1 up to 1/(width-1), for every width >= 2 *)
Lemma window_sum_near_one_l k w :
  (2 <= w)%Z -> Rabs (Rsum (window k w) - 1) <= 1 / IZR (w - 1).
Proof.
  intros H.
  assert (HK : 1 <= IZR (w - 1)) by (apply IZR_le; lia).
  assert (Hinv : 0 < 1 / IZR (w - 1)) by (apply Rdiv_lt_0_compat; lra).
  assert (Zero : Rabs (1 - 1) <= 1 / IZR (w - 1)).
  { replace (1 - 1) with 0 by ring. rewrite Rabs_R0. lra. }
  destruct k.
  - rewrite bartlett_sum_l by assumption. destruct (Z.even (w - 1)); [exact Zero|].
    replace (1 - 1 / IZR (w - 1) ^ 2 - 1) with (- (1 / IZR (w - 1) ^ 2)) by ring.
    rewrite Rabs_Ropp, Rabs_right.
    + unfold Rdiv. rewrite !Rmult_1_l. apply Rinv_le_contravar; nra.
    + apply Rle_ge, Rlt_le, Rdiv_lt_0_compat; nra.
  - destruct (Z.eq_dec w 2) as [-> | N2].
    { rewrite blackman_sum_2. simpl. replace (0 - 1) with (- (1)) by ring.
      rewrite Rabs_Ropp, Rabs_R1. lra. }
    destruct (Z.eq_dec w 3) as [-> | N3].
    { rewrite blackman_sum_3. simpl. rewrite Rabs_right; lra. }
    rewrite blackman_sum_l by lia. exact Zero.
  - destruct (Z.eq_dec w 2) as [-> | N2].
    { rewrite hamming_sum_2. simpl. rewrite Rabs_left; lra. }
    rewrite hamming_sum_l by lia.
    replace (1 + 4 / (27 * IZR (w - 1)) - 1) with (4 / 27 * (1 / IZR (w - 1))) by (field; lra).
    rewrite Rabs_right by nra. nra.
  - destruct (Z.eq_dec w 2) as [-> | N2].
    { rewrite hann_sum_2. simpl. replace (0 - 1) with (- (1)) by ring.
      rewrite Rabs_Ropp, Rabs_R1. lra. }
    rewrite hann_sum_l by lia. exact Zero.
Qed.

(* closed form of every sample: textbook shape / (continuous-limit area), width >= 2 *)
Lemma window_nth_l k w i d :
  (2 <= w)%Z -> (0 <= i < w)%Z ->
  nth (Z.to_nat i) (window k w) d =
  tb_shape (np_of k) (Z.to_nat (w - 1)) (Z.to_nat i) / (area_coeff k * IZR (w - 1)).
Proof.
  intros Hw Hi.
  assert (E : w = Z.of_nat (S (S (Z.to_nat (w - 2))))) by lia.
  rewrite E at 1. rewrite window_nat.
  set (f := fun i0 : nat => _).
  rewrite (nth_indep _ d (f O)) by (rewrite map_length, seq_length; lia).
  rewrite map_nth, seq_nth by lia. unfold f. simpl plus.
  replace (S (Z.to_nat (w - 2))) with (Z.to_nat (w - 1)) by lia.
  rewrite INR_IZR_INZ. rewrite Z2Nat.id by lia. reflexivity.
Qed.
