(* C20 - the property theorems, and nothing else.  Each is closed by [exact] of a
   lemma of the Proofs*.v files; the axioms each depends on are printed beneath it.
   The statements are about C20/Model.v, which assembles gen/WinHelp.v (regenerated
   from filters.py and util.py on every run) and lib/C20_Numpy.v. *)
From Coq Require Import Reals ZArith List.
Set Warnings "-ambiguous-paths".
From Coquelicot Require Import Coquelicot.
From Verif Require Import lib.C20_Numpy gen.WinHelp C20.Model C20.ProofsWin C20.ProofsGamma C20.ProofsShift C20.ProofsGauss C20.ProofsAcc C20.NormalCdf.
Open Scope R_scope.

(** Windows: exactly [width] samples (none for width <= 0) *)
Theorem window_length : forall k w, Zlength (window k w) = Z.max 0 w.
Proof. exact window_length_l. Qed.
Print Assumptions window_length.
Theorem gamma_window_length : forall order peak w, Zlength (gamma_window order peak w) = Z.max 0 w.
Proof. exact gamma_window_length_l. Qed.
Print Assumptions gamma_window_length.

(** non-negative *)
Theorem window_nonneg : forall k w x, In x (window k w) -> 0 <= x.
Proof. exact window_nonneg_l. Qed.
Print Assumptions window_nonneg.
Theorem gamma_window_nonneg : forall order peak w x, (1 <= order)%Z -> In x (gamma_window order peak w) -> 0 <= x.
Proof. exact gamma_window_nonneg_l. Qed.
Print Assumptions gamma_window_nonneg.

(** numpy shape (in its textbook form) divided by the continuous-limit area *)
Theorem window_closed_form : forall k w i d, (2 <= w)%Z -> (0 <= i < w)%Z ->
  nth (Z.to_nat i) (window k w) d =
  tb_shape (np_of k) (Z.to_nat (w - 1)) (Z.to_nat i) / (area_coeff k * IZR (w - 1)).
Proof. exact window_nth_l. Qed.
Print Assumptions window_closed_form.
Theorem window_width_one : forall k, window k 1 = (1 / area_coeff k :: nil)%list.
Proof. exact window_width1. Qed.
Print Assumptions window_width_one.

(** exact sums, hence 1 + O(1/width) *)
Theorem bartlett_sum : forall w, (2 <= w)%Z ->
  Rsum (window Bartlett w) = if Z.even (w - 1) then 1 else 1 - 1 / IZR (w - 1) ^ 2.
Proof. exact bartlett_sum_l. Qed.
Print Assumptions bartlett_sum.
Theorem hann_sum : forall w, (3 <= w)%Z -> Rsum (window Hann w) = 1.
Proof. exact hann_sum_l. Qed.
Print Assumptions hann_sum.
Theorem hamming_sum : forall w, (3 <= w)%Z -> Rsum (window Hamming w) = 1 + 4 / (27 * IZR (w - 1)).
Proof. exact hamming_sum_l. Qed.
Print Assumptions hamming_sum.
Theorem blackman_sum : forall w, (4 <= w)%Z -> Rsum (window Blackman w) = 1.
Proof. exact blackman_sum_l. Qed.
Print Assumptions blackman_sum.
Theorem window_sum_small :
  Rsum (window Hann 2) = 0 /\ Rsum (window Hamming 2) = 8 / 27 /\
  Rsum (window Blackman 2) = 0 /\ Rsum (window Blackman 3) = 25 / 21.
Proof. exact (conj hann_sum_2 (conj hamming_sum_2 (conj blackman_sum_2 blackman_sum_3))). Qed.
Print Assumptions window_sum_small.
Theorem window_sum_near_one : forall k w, (2 <= w)%Z -> Rabs (Rsum (window k w) - 1) <= 1 / IZR (w - 1).
Proof. exact window_sum_near_one_l. Qed.
Print Assumptions window_sum_near_one.

(** GammaWindow: the time-reversed gamma density of the given order ... *)
Theorem gamma_window_closed_form : forall order peak w i d,
  (2 <= w)%Z -> (1 <= order)%Z -> peak < 1 -> (0 <= i < w)%Z ->
  nth (Z.to_nat i) (gamma_window order peak w) d =
  gamma_pdf (Z.to_nat order) (gamma_alpha order peak w) (IZR (w - 1 - i)).
Proof. exact gamma_window_closed_form_l. Qed.
Print Assumptions gamma_window_closed_form.
(** ... whose rate puts the mode (order-1)/alpha at time width - peak*width, i.e. at
    sample position peak*width - 1 ... *)
Theorem gamma_mode : forall order peak w, (2 <= order)%Z -> (1 <= w)%Z -> peak < 1 ->
  (IZR order - 1) / gamma_alpha order peak w = IZR w - peak * IZR w.
Proof. exact gamma_mode_l. Qed.
Print Assumptions gamma_mode.
Theorem gamma_pdf_max : forall n a t, (2 <= n)%nat -> 0 < a -> 0 <= t ->
  gamma_pdf n a t <= gamma_pdf n a (INR (n - 1) / a).
Proof. exact gamma_pdf_max_l. Qed.
Print Assumptions gamma_pdf_max.
(** ... the samples rise strictly up to that position and fall strictly after it, so
    the largest sample is within one sample of peak*width - 1 *)
Theorem gamma_window_rises : forall order peak w, (2 <= order)%Z -> (2 <= w)%Z -> 0 < peak < 1 ->
  forall i j, (0 <= i < j)%Z -> (j < w)%Z -> IZR j <= peak * IZR w - 1 ->
  nth (Z.to_nat i) (gamma_window order peak w) 0 < nth (Z.to_nat j) (gamma_window order peak w) 0.
Proof. exact gamma_window_rises_l. Qed.
Print Assumptions gamma_window_rises.
Theorem gamma_window_falls : forall order peak w, (2 <= order)%Z -> (2 <= w)%Z -> 0 < peak < 1 ->
  forall i j, (0 <= i < j)%Z -> (j < w)%Z -> peak * IZR w - 1 <= IZR i ->
  nth (Z.to_nat j) (gamma_window order peak w) 0 < nth (Z.to_nat i) (gamma_window order peak w) 0.
Proof. exact gamma_window_falls_l. Qed.
Print Assumptions gamma_window_falls.
Theorem gamma_window_argmax : forall order peak w, (2 <= order)%Z -> (2 <= w)%Z -> 0 < peak < 1 ->
  forall m, (0 <= m < w)%Z ->
  (forall j, (0 <= j < w)%Z ->
     nth (Z.to_nat j) (gamma_window order peak w) 0 <= nth (Z.to_nat m) (gamma_window order peak w) 0) ->
  peak * IZR w - 2 < IZR m < peak * IZR w.
Proof. exact gamma_window_argmax_l. Qed.
Print Assumptions gamma_window_argmax.

(** circshift_fourier *)
Theorem circshift_length : forall filt s start dft, Zlength (circshift_out filt s start dft) = Zlength filt.
Proof. exact circshift_out_length_l. Qed.
Print Assumptions circshift_length.
(* the time signal of the output is that of the input delayed by the shift: any real
   shift (negative, beyond the DFT size, fractional), any segment, start index, DFT size *)
Theorem circshift_shift_theorem_real : forall d start filt, (0 < d)%Z -> forall s t,
  seg_idft d start (circshift_out filt s start (Some d)) t = seg_idft d start filt (t - s).
Proof. exact circshift_shift_theorem_real_l. Qed.
Print Assumptions circshift_shift_theorem_real.
(* ifft of the dense spectrum is that time signal at the integers *)
Theorem idft_embed : forall d start filt n, (0 < d)%Z ->
  idft (embed d start filt) n = seg_idft d start filt (IZR n).
Proof. exact idft_embed_l. Qed.
Print Assumptions idft_embed.
(* a segment that fits (0 <= start, start + len <= D) is embedded verbatim: zeros, segment, zeros *)
Theorem embed_fitting : forall d start filt b,
  (0 <= start)%Z -> (start + Zlength filt <= d)%Z -> (0 <= b < d)%Z ->
  nth (Z.to_nat b) (embed d start filt) (RtoC 0) =
  if ((start <=? b)%Z && (b <? start + Zlength filt)%Z)%bool
  then nth (Z.to_nat (b - start)) filt (RtoC 0) else RtoC 0.
Proof. exact embed_fitting_l. Qed.
Print Assumptions embed_fitting.
(* the clause as stated: ifft(output) = ifft(input) circularly shifted by s samples *)
Theorem circshift_shift_theorem : forall filt (s : Z) start d n, (0 < d)%Z ->
  idft (embed d start (circshift_out filt (IZR s) start (Some d))) n =
  idft (embed d start filt) ((n - s) mod d).
Proof. exact circshift_shift_theorem_l. Qed.
Print Assumptions circshift_shift_theorem.
Theorem circshift_shift_periodic : forall d start filt, (0 < d)%Z -> forall s m,
  circshift_out filt (s + IZR d * IZR m) start (Some d) = circshift_out filt s start (Some d).
Proof. exact circshift_shift_periodic_l. Qed.
Print Assumptions circshift_shift_periodic.
Theorem circshift_default_dft_size : forall filt s start,
  circshift_out filt s start None = circshift_out filt s start (Some (Zlength filt + start)%Z).
Proof. exact csf_default_l. Qed.
Print Assumptions circshift_default_dft_size.
Theorem circshift_copy_leaves_input : forall filt s start dft c128,
  csf_arg_after (circshift_fourier filt s start dft true c128) = filt /\
  csf_same_object (circshift_fourier filt s start dft true c128) = false /\
  csf_ret (circshift_fourier filt s start dft true c128) = circshift_out filt s start dft.
Proof. exact circshift_copy_l. Qed.
Print Assumptions circshift_copy_leaves_input.
Theorem circshift_result_independent_of_copy : forall filt s start dft copy c128,
  csf_ret (circshift_fourier filt s start dft copy c128) = circshift_out filt s start dft.
Proof. exact circshift_result_l. Qed.
Print Assumptions circshift_result_independent_of_copy.
Theorem circshift_in_place : forall filt s start dft,
  csf_arg_after (circshift_fourier filt s start dft false true) = circshift_out filt s start dft /\
  csf_same_object (circshift_fourier filt s start dft false true) = true /\
  csf_arg_after (circshift_fourier filt s start dft false false) = filt.
Proof. exact circshift_inplace_l. Qed.
Print Assumptions circshift_in_place.

(** gauss_quant *)
Theorem gauss_quant_affine : forall p mu std, gauss_quant p mu std = gauss_quant p 0 1 * std + mu.
Proof. exact gauss_quant_affine_l. Qed.
Print Assumptions gauss_quant_affine.
Theorem gauss_quant_symmetric : forall p mu std, p <> 1 / 2 ->
  gauss_quant (1 - p) mu std = 2 * mu - gauss_quant p mu std.
Proof. exact gauss_quant_symmetric_l. Qed.
Print Assumptions gauss_quant_symmetric.
(* weakly increasing on all of (0,1) (the far tails saturate at +-10 sigma), strictly
   increasing as long as both tail probabilities are at least 1e-20 *)
Theorem gauss_quant_increasing : forall p q mu std, 0 < std -> p < q ->
  (0 < p -> q < 1 -> gauss_quant p mu std <= gauss_quant q mu std) /\
  (1 / 10 ^ 20 <= p -> q <= 1 - 1 / 10 ^ 20 -> gauss_quant p mu std < gauss_quant q mu std).
Proof. exact gauss_quant_monotone_l. Qed.
Print Assumptions gauss_quant_increasing.
(* the sign tells the side of the median; at the median itself the value is within 2e-8 of 0 *)
Theorem gauss_quant_sign : forall p, 0 < p -> p < 1 ->
  (p < 1 / 2 -> gauss_quant p 0 1 < 0) /\ (1 / 2 <= p -> 0 < gauss_quant p 0 1) /\
  Rabs (gauss_quant (1 / 2) 0 1) <= 2 / 100000000.
Proof. exact gauss_quant_sign_median_l. Qed.
Print Assumptions gauss_quant_sign.

(* accuracy: Phi x = 1/2 + int_0^x exp(-t^2/2)/sqrt(2 pi) dt is the standard normal CDF
   (derivative = density, Phi 0 = 1/2, Phi(-x) = 1 - Phi x, strictly increasing) *)
Theorem normal_cdf_derivative : forall x : R, is_derive Phi x (std_normal_pdf x).
Proof. exact Phi_is_derive. Qed.
Print Assumptions normal_cdf_derivative.
Theorem normal_cdf_symmetric : forall x, Phi (- x) = 1 - Phi x.
Proof. exact Phi_opp. Qed.
Print Assumptions normal_cdf_symmetric.
Theorem normal_cdf_increasing : forall a b, a < b -> Phi a < Phi b.
Proof. exact Phi_increasing. Qed.
Print Assumptions normal_cdf_increasing.
(* ... and it really is a distribution function: limits 0 and 1, the density has total mass 1 and
   Phi x is the mass below x (C20/NormalCdf.v, from the Gaussian integral proved in C05/Gauss.v) *)
Theorem normal_cdf_limits : is_lim Phi m_infty 0 /\ is_lim Phi p_infty 1.
Proof. exact (conj Phi_lim_m Phi_lim_p). Qed.
Print Assumptions normal_cdf_limits.
Theorem normal_pdf_total_mass :
  is_RInt_gen std_normal_pdf (Rbar_locally m_infty) (Rbar_locally p_infty) 1.
Proof. exact std_normal_pdf_total. Qed.
Print Assumptions normal_pdf_total_mass.
Theorem normal_cdf_is_mass_below : forall x,
  is_RInt_gen std_normal_pdf (Rbar_locally m_infty) (at_point x) (Phi x).
Proof. exact Phi_is_mass_below. Qed.
Print Assumptions normal_cdf_is_mass_below.
(* for EVERY p with min(p, 1-p) >= 1e-20 the true quantile is bracketed within 1e-6, so
   any x with CDF value p is within 1e-6 standard deviations of gauss_quant p mu std *)
Theorem gauss_quant_accuracy : forall p, 1 / 10 ^ 20 <= p -> p <= 1 - 1 / 10 ^ 20 ->
  Phi (gauss_quant p 0 1 - 1 / 1000000) < p < Phi (gauss_quant p 0 1 + 1 / 1000000) /\
  forall mu std x, 0 < std -> Phi ((x - mu) / std) = p ->
    Rabs (gauss_quant p mu std - x) < std / 1000000.
Proof. exact gauss_quant_accuracy_full_l. Qed.
Print Assumptions gauss_quant_accuracy.

(** Hz <-> rad/sample *)
Theorem angular_hertz_inverse : forall f sr, sr <> 0 -> angular_to_hertz (hertz_to_angular f sr) sr = f.
Proof. exact angular_hertz_inverse_l. Qed.
Print Assumptions angular_hertz_inverse.
Theorem hertz_angular_inverse : forall a sr, sr <> 0 -> hertz_to_angular (angular_to_hertz a sr) sr = a.
Proof. exact hertz_angular_inverse_l. Qed.
Print Assumptions hertz_angular_inverse.
(* anchors, order, linearity: Nyquist <-> pi rad/sample, the sampling rate <-> one full turn *)
Theorem hertz_to_angular_nyquist : forall sr, sr <> 0 -> hertz_to_angular (sr / 2) sr = PI.
Proof. exact nyquist_l. Qed.
Print Assumptions hertz_to_angular_nyquist.
Theorem angular_to_hertz_pi : forall sr, angular_to_hertz PI sr = sr / 2.
Proof. exact angular_pi_l. Qed.
Print Assumptions angular_to_hertz_pi.
Theorem angular_to_hertz_2pi : forall sr, angular_to_hertz (2 * PI) sr = sr.
Proof. exact angular_2pi_l. Qed.
Print Assumptions angular_to_hertz_2pi.
Theorem hertz_to_angular_increasing : forall a b sr, 0 < sr -> a < b -> hertz_to_angular a sr < hertz_to_angular b sr.
Proof. exact hertz_to_angular_incr_l. Qed.
Print Assumptions hertz_to_angular_increasing.
Theorem angular_to_hertz_increasing : forall a b sr, 0 < sr -> a < b -> angular_to_hertz a sr < angular_to_hertz b sr.
Proof. exact angular_to_hertz_incr_l. Qed.
Print Assumptions angular_to_hertz_increasing.
Theorem hertz_to_angular_linear : forall a b c sr, sr <> 0 -> hertz_to_angular (c * a + b) sr = c * hertz_to_angular a sr + hertz_to_angular b sr.
Proof. exact hertz_to_angular_linear_l. Qed.
Print Assumptions hertz_to_angular_linear.
