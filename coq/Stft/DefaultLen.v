(* C02, last clause: with the default frame length
     L = max(max temporal support, ceil(2 * rate / min bandwidth))   and   D >= L
   every filter's frequency support (lo, hi) with hi - lo >= min bandwidth contains a
   DFT bin frequency k * rate / D strictly inside. *)
From Coq Require Import Reals Lra ZArith.
Open Scope R_scope.

Lemma bin_inside_support_l (rate Dr Lr lo hi bw : R) :
  0 < rate -> 0 < Lr -> Lr <= Dr -> 0 < bw -> 2 * rate / bw <= Lr -> bw <= hi - lo ->
  exists k : Z, lo < IZR k * rate / Dr < hi.
Proof.
  intros Hr HL HD Hbw Hlen Hsup.
  assert (0 < Dr) as HDr by lra.
  set (delta := rate / Dr).
  assert (0 < delta) as Hd by (apply Rdiv_lt_0_compat; assumption).
  assert (2 * delta <= bw) as H2.
  { unfold delta.
    assert (2 * rate <= Lr * bw) as H1.
    { apply Rmult_le_reg_r with (/ bw); [apply Rinv_0_lt_compat; lra|].
      replace (Lr * bw * / bw) with Lr by (field; lra). exact Hlen. }
    apply Rmult_le_reg_r with Dr; [lra|].
    replace (2 * (rate / Dr) * Dr) with (2 * rate) by (field; lra).
    apply Rle_trans with (Lr * bw); [exact H1|]. rewrite (Rmult_comm bw Dr).
    apply Rmult_le_compat_r; lra. }
  exists (up (lo / delta)).
  destruct (archimed (lo / delta)) as [Hup1 Hup2].
  replace (IZR (up (lo / delta)) * rate / Dr) with (IZR (up (lo / delta)) * delta) by (unfold delta; field; lra).
  split.
  - apply Rmult_lt_reg_r with (/ delta); [apply Rinv_0_lt_compat; lra|].
    replace (IZR (up (lo / delta)) * delta * / delta) with (IZR (up (lo / delta))) by (field; lra).
    exact Hup1.
  - assert (IZR (up (lo / delta)) <= lo / delta + 1) as Hle by lra.
    apply Rle_lt_trans with ((lo / delta + 1) * delta).
    + apply Rmult_le_compat_r; lra.
    + replace ((lo / delta + 1) * delta) with (lo + delta) by (field; lra). lra.
Qed.

Example bin_inside_example : exists k : Z, 100 < IZR k * 8000 / 512 < 140.
Proof.
  apply (bin_inside_support_l 8000 512 400 100 140 40); lra.
Qed.
