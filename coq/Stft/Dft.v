(* C02: the Hermitian symmetry that Stft/Spectrum.v assumes of the spectrum is a THEOREM
   about the DFT of a real frame.

   Setting: an abstract commutative ring-like structure C (the complex numbers in the
   implementation) with a conjugation that is additive, multiplicative and fixes the
   samples (they are real), and a twiddle function tw m = w^m of period D whose conjugate
   is tw (-m).  The DFT of the windowed, zero-padded frame x[0..L) is

        dft k = sum_{n < L} x n * tw (k * n)          (numpy: rfft(frame * window, n = D))

   Then dft (D - k) = conj (dft k) for every k: the mirrored segment of _compute_frame,
   which reads conj(half_spect[h]) for the bins above the Nyquist frequency, reads exactly
   the full-spectrum bins D - h.  With it the two spectrum theorems of Stft/Spectrum.v
   hold of the DFT without any symmetry hypothesis. *)
From Coq Require Import ZArith List Bool Lia.
From Verif Require Import lib.ZList Stft.Walk Stft.Spectrum.
Import ListNotations.
Open Scope Z_scope.

Section Dft.
Variable C : Type.
Variables (czero : C) (cadd cmul : C -> C -> C) (cconj : C -> C).
Hypothesis conj_add : forall a b, cconj (cadd a b) = cadd (cconj a) (cconj b).
Hypothesis conj_mul : forall a b, cconj (cmul a b) = cmul (cconj a) (cconj b).
Hypothesis conj_zero : cconj czero = czero.

Variable D : Z.
Hypothesis HD : 0 < D.
Variable tw : Z -> C.                       (* tw m = exp(-2 pi i m / D) *)
Hypothesis tw_period : forall m, tw (m + D) = tw m.
Hypothesis tw_conj : forall m, cconj (tw m) = tw (- m).

Variable L : Z.                             (* frame length, L <= D; bins L..D-1 are zero padding *)
Variable x : Z -> C.                        (* windowed frame *)
Hypothesis x_real : forall n, cconj (x n) = x n.

Definition csum (f : Z -> C) (l : list Z) : C := fold_right (fun n acc => cadd (f n) acc) czero l.

Definition dft (k : Z) : C := csum (fun n => cmul (x n) (tw (k * n))) (range 0 L).

Lemma tw_period_nat m (j : nat) : tw (m + Z.of_nat j * D) = tw m.
Proof.
  induction j as [|j IH].
  - f_equal. lia.
  - replace (m + Z.of_nat (S j) * D) with (m + Z.of_nat j * D + D) by lia.
    rewrite tw_period. exact IH.
Qed.

Lemma tw_period_Z m j : tw (m + j * D) = tw m.
Proof.
  destruct (Z_le_gt_dec 0 j) as [Hj|Hj].
  - rewrite <- (Z2Nat.id j Hj). apply tw_period_nat.
  - (* j < 0: m = (m + j D) + (-j) D *)
    pose proof (tw_period_nat (m + j * D) (Z.to_nat (- j))) as H.
    rewrite Z2Nat.id in H by lia.
    replace (m + j * D + - j * D) with m in H by lia. symmetry. exact H.
Qed.

Lemma conj_csum f l : cconj (csum f l) = csum (fun n => cconj (f n)) l.
Proof.
  induction l as [|a l IH]; cbn [csum fold_right]; [exact conj_zero|].
  fold (csum f l). fold (csum (fun n => cconj (f n)) l). rewrite conj_add, IH. reflexivity.
Qed.

Lemma csum_ext f g l : (forall n, In n l -> f n = g n) -> csum f l = csum g l.
Proof.
  induction l as [|a l IH]; intros H; cbn [csum fold_right]; [reflexivity|].
  fold (csum f l). fold (csum g l). rewrite H by (left; reflexivity).
  rewrite IH by (intros; apply H; right; assumption). reflexivity.
Qed.

(* Hermitian symmetry of the DFT of a real sequence, for EVERY bin k *)
Theorem dft_hermitian_l k : dft (D - k) = cconj (dft k).
Proof.
  unfold dft. rewrite conj_csum. apply csum_ext. intros n _.
  rewrite conj_mul, x_real, tw_conj. f_equal.
  replace ((D - k) * n) with (- (k * n) + n * D) by lia.
  apply tw_period_Z.
Qed.

(* in the form Stft/Spectrum.v asks for *)
Corollary dft_hermitian_half_l h : 1 <= h < D / 2 + 1 -> dft (D - h) = cconj (dft h).
Proof. intros _. apply dft_hermitian_l. Qed.

(* the spectrum is D-periodic as well: bin k + D is bin k *)
Lemma dft_periodic_l k : dft (k + D) = dft k.
Proof.
  unfold dft. apply csum_ext. intros n _. f_equal.
  replace ((k + D) * n) with (k * n + n * D) by lia. apply tw_period_Z.
Qed.

(* a real frame has a real DC bin *)
Lemma dft_dc_real_l : cconj (dft 0) = dft 0.
Proof. rewrite <- dft_hermitian_l. replace (D - 0) with (0 + D) by lia. apply dft_periodic_l. Qed.

(* ---- the spectrum theorems, for the DFT, without a symmetry hypothesis ---- *)
Variable M : Type.
Variable mzero : M.
Variable mplus : M -> M -> M.
Variable phi : C -> C -> M.
Hypothesis mplus_comm : forall a b, mplus a b = mplus b a.
Hypothesis mplus_assoc : forall a b c, mplus a (mplus b c) = mplus (mplus a b) c.
Hypothesis mplus_0_l : forall a, mplus mzero a = a.
Hypothesis phi_zero : forall v, phi v czero = mzero.

Theorem dft_coeff_full_spectrum_l start len t :
  0 <= start < D -> 0 <= len <= D ->
  code_coeff C M cconj mzero mplus phi D dft start len t =
  Some (msum M mzero mplus (fun k => phi (dft k) (rebuild C czero D start len t k)) (range 0 D)).
Proof.
  apply (coeff_full_spectrum_l C M czero cconj mzero mplus phi mplus_comm mplus_assoc mplus_0_l phi_zero
           D dft HD dft_hermitian_half_l).
Qed.

Hypothesis phi_conj : forall v t, phi (cconj v) (cconj t) = phi v t.

Theorem dft_real_coeff_is_twice_half_l start len t :
  0 <= start -> 0 <= len -> start + len <= D / 2 + 1 ->
  (start = 0 -> 0 < len -> forall v, phi v (t 0) = mzero) ->
  (D mod 2 = 0 -> start <= D / 2 < start + len -> forall v, phi v (t (D / 2 - start)) = mzero) ->
  let S := msum M mzero mplus (fun j => phi (dft (start + j)) (t j)) (range 0 len) in
  mplus S S = msum M mzero mplus (fun k => phi (dft k) (rebuild_real C czero cconj D start len t k)) (range 0 D).
Proof.
  apply (real_coeff_is_twice_half_l C M czero cconj mzero mplus phi mplus_comm mplus_assoc mplus_0_l phi_zero
           D dft HD dft_hermitian_half_l phi_conj).
Qed.

End Dft.

(* the hypotheses are satisfiable: Gaussian integers, D = 4, w = -i *)
Definition gi := (Z * Z)%type.
Definition gi_add (a b : gi) : gi := (fst a + fst b, snd a + snd b).
Definition gi_mul (a b : gi) : gi := (fst a * fst b - snd a * snd b, fst a * snd b + snd a * fst b).
Definition gi_conj (a : gi) : gi := (fst a, - snd a).
Definition tw4 (m : Z) : gi :=
  let r := m mod 4 in if r =? 0 then (1, 0) else if r =? 1 then (0, -1) else if r =? 2 then (-1, 0) else (0, 1).

Example dft4_example :
  let x := fun n : Z => ((if n =? 0 then 3 else if n =? 1 then -1 else if n =? 2 then 4 else 0, 0) : gi) in
  dft gi (0, 0) gi_add gi_mul tw4 3 x 1 = (-1, 1) /\
  dft gi (0, 0) gi_add gi_mul tw4 3 x 3 = gi_conj (dft gi (0, 0) gi_add gi_mul tw4 3 x 1).
Proof. cbv zeta. split; vm_compute; reflexivity. Qed.

Lemma tw4_period m : tw4 (m + 4) = tw4 m.
Proof. unfold tw4. replace ((m + 4) mod 4) with (m mod 4); [reflexivity|]. rewrite <- (Z.mod_add m 1 4) by lia. f_equal. Qed.

Lemma tw4_conj m : gi_conj (tw4 m) = tw4 (- m).
Proof.
  unfold tw4. pose proof (Z.mod_pos_bound m 4 ltac:(lia)) as Hb.
  assert (Hneg : (- m) mod 4 = (4 - m mod 4) mod 4).
  { rewrite <- (Z.mod_add (- m) 1 4) by lia.
    rewrite (Z.div_mod m 4) at 1 by lia.
    replace (- (4 * (m / 4) + m mod 4) + 1 * 4) with ((4 - m mod 4) + (- (m / 4)) * 4) by lia.
    apply Z.mod_add. lia. }
  rewrite Hneg.
  assert (Hc : m mod 4 = 0 \/ m mod 4 = 1 \/ m mod 4 = 2 \/ m mod 4 = 3) by lia.
  destruct Hc as [E|[E|[E|E]]]; rewrite E; reflexivity.
Qed.
