(* C02 / C14: the optional energy coefficient and the log floor, over R.
   numpy (_compute_frame):  e = <frame, frame> / L;  e = e ** 0.5 unless use_power;
                            e = log(max(e, LOG_FLOOR_VALUE)) if use_log
   torch (pytorch_stft_frame_computer): e = ||frame||_2 / sqrt(L); e = e^2 if use_power;
                            all coefficients: clamp_min(eps).log() if use_log          *)
From Coq Require Import Reals List Lra.
From Verif Require Import Stft.TorchEnergy.
Import ListNotations.
Open Scope R_scope.

Definition sumsq (xs : list R) : R := fold_right (fun x acc => x * x + acc) 0 xs.

Definition np_energy (xs : list R) (Lr floor : R) (use_power use_log : bool) : R :=
  let e := sumsq xs / Lr in
  let e := if use_power then e else sqrt e in
  if use_log then ln (Rmax e floor) else e.

Definition torch_energy (xs : list R) (Lr floor : R) (use_power use_log : bool) : R :=
  let e := sqrt (sumsq xs) / sqrt Lr in
  let e := if use_power then e ^ 2 else e in
  if use_log then ln (Rmax e floor) else e.

Lemma sumsq_nonneg xs : 0 <= sumsq xs.
Proof. induction xs as [|x xs IH]; simpl; [lra | nra]. Qed.

(* the energy coefficient is the mean square of the (unwindowed) frame, its square
   root when not use_power, log-floored when use_log *)
Lemma np_energy_spec_l xs Lr floor :
  np_energy xs Lr floor true false = sumsq xs / Lr /\
  np_energy xs Lr floor false false = sqrt (sumsq xs / Lr) /\
  np_energy xs Lr floor true true = ln (Rmax (sumsq xs / Lr) floor) /\
  np_energy xs Lr floor false true = ln (Rmax (sqrt (sumsq xs / Lr)) floor).
Proof. repeat split; reflexivity. Qed.

(* the floor is effective: the logged value is never below log(floor) *)
Lemma log_floor_lower_bound_l e floor : 0 < floor -> ln floor <= ln (Rmax e floor).
Proof.
  intros Hf. destruct (Rle_lt_dec e floor) as [H|H].
  - rewrite Rmax_right by exact H. lra.
  - rewrite Rmax_left by lra. left. apply ln_increasing; lra.
Qed.

Lemma torch_energy_eq_np_l xs Lr floor p lg : 0 < Lr -> torch_energy xs Lr floor p lg = np_energy xs Lr floor p lg.
Proof.
  intros HL. unfold torch_energy, np_energy. cbv zeta.
  pose proof (sumsq_nonneg xs) as Hs.
  destruct p.
  - rewrite torch_energy_power_l by assumption. reflexivity.
  - rewrite <- torch_energy_mag_l by assumption. reflexivity.
Qed.

Example energy_example : np_energy [3; 4] 2 (1 / 100000) true false = 25 / 2.
Proof. unfold np_energy, sumsq. simpl. lra. Qed.
