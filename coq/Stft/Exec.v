(* Executable glue for the correspondence check: run the model on a history and
   compare with the outputs observed on the implementation (all inside Coq). *)
From Coq Require Import ZArith List Bool.
From Verif Require Import lib.ZList Stft.Model.
Import ListNotations.
Open Scope Z_scope.

Fixpoint list_eqb {X} (e : X -> X -> bool) (a b : list X) : bool :=
  match a, b with
  | [], [] => true
  | x :: a', y :: b' => e x y && list_eqb e a' b'
  | _, _ => false
  end.
Definition opt_eqb {X} (e : X -> X -> bool) (a b : option X) : bool :=
  match a, b with Some x, Some y => e x y | None, None => true | _, _ => false end.
Definition frames_eqb := list_eqb (list_eqb Z.eqb).
Definition outs_eqb := list_eqb (opt_eqb frames_eqb).

Definition mkcfg (l s : Z) (cen kal : bool) : cfg := {| L := l; S := s; centered := cen; kaldi := kal |}.

(* a case: configuration, history, observed outputs and observed `started` flags *)
Definition case := (cfg * list (op Z) * list (option (list (list Z))) * list bool)%type.

Fixpoint run_started (c : cfg) (s : st Z) (ops : list (op Z)) : list bool :=
  match ops with
  | [] => []
  | o :: rest => let '(s1, _) := step c s o in started s1 :: run_started c s1 rest
  end.

Definition stale (c : cfg) : list Z := map (fun _ => -7) (range 0 (L c)).

Definition case_ok (k : case) : bool :=
  let '(c, ops, outs, sts) := k in
  outs_eqb (snd (run c (init c (stale c)) ops)) outs
  && list_eqb Bool.eqb (run_started c (init c (stale c)) ops) sts.

Fixpoint bad_indices (i : Z) (ks : list case) : list Z :=
  match ks with
  | [] => []
  | k :: rest => if case_ok k then bad_indices (i + 1) rest else i :: bad_indices (i + 1) rest
  end.

Definition model_out (k : case) := let '(c, ops, _, _) := k in snd (run c (init c (stale c)) ops).

(* ---- segment walk probes (C02, C14) ---- *)
From Verif Require Import Stft.Walk.
Definition walk_case := (Z * Z * Z * list Z)%type.   (* D, start, len, observed half indices *)
Definition walk_ok (k : walk_case) : bool :=
  let '(D, start, ln, obs) := k in
  match walk D start ln with
  | Some l => list_eqb Z.eqb (map fst l) obs
  | None => false
  end.
Fixpoint walk_bad (i : Z) (ks : list walk_case) : list Z :=
  match ks with
  | [] => []
  | k :: rest => if walk_ok k then walk_bad (i + 1) rest else i :: walk_bad (i + 1) rest
  end.
Definition walk_model (k : walk_case) := let '(D, start, ln, _) := k in walk D start ln.

(* ---- torch framing (C14) ---- *)
From Verif Require Import Stft.Torch.
Definition torch_case := (cfg * Z * list (list Z))%type.   (* cfg, N (signal 0..N-1), observed frames *)
Definition torch_ok (k : torch_case) : bool :=
  let '(c, n, obs) := k in frames_eqb (torch_frames c (range 0 n)) obs.
Fixpoint torch_bad (i : Z) (ks : list torch_case) : list Z :=
  match ks with
  | [] => []
  | k :: rest => if torch_ok k then torch_bad (i + 1) rest else i :: torch_bad (i + 1) rest
  end.
