(* C02, framing part: how many frames compute_full yields, their length, and which
   samples each one covers (documented ranges, symmetric reflection at the ends). *)
From Coq Require Import ZArith List Bool Lia.
From Verif Require Import lib.ZList Stft.Model Stft.Lemmas Stft.Stream.
Import ListNotations.
Open Scope Z_scope.

Ltac Zify.zify_post_hook ::= Z.to_euclidean_division_equations.

Section Frames.
Context {A : Type}.
Implicit Types x y : list A.

Lemma len_map {B} (f : Z -> B) (l : list Z) : len (map f l) = len l.
Proof. unfold len. rewrite map_length. reflexivity. Qed.

Lemma len_range a b : len (range a b) = Z.max 0 (b - a).
Proof. unfold len, range. rewrite range_nat_length. lia. Qed.

Lemma len_cyc (k : nat) y : len (@cyc A k y) = Z.of_nat k * len y.
Proof.
  revert y; induction k as [|k IH]; intros y.
  - reflexivity.
  - cbn [cyc]. rewrite len_app, IH, len_rev. lia.
Qed.

Lemma len_sympad x pl pr :
  0 <= pl -> 0 <= pr -> 1 <= len x -> len (sympad x pl pr) = pl + len x + pr.
Proof.
  intros Hl Hr Hx. unfold sympad.
  rewrite !len_app, len_rev, !len_take, !len_cyc, len_rev. nia.
Qed.

Variable c : cfg.
Hypothesis HS : 0 < S c.
Hypothesis HL : S c <= L c.

Definition nframes (N : Z) : Z := if N <? L c / 2 + 1 then 0 else (N + S c / 2) / S c.
Definition pad_right (N : Z) : Z :=
  Z.max 0 ((nframes N - 1) * S c - pad_left c + L c - N).

(* compute_full, with the special case "no padding at all" folded in *)
Lemma full_frames_unfold x :
  L c / 2 + 1 <= len x ->
  full_frames c x =
  map (fun k => slice (sympad x (pad_left c) (pad_right (len x))) (k * S c) (k * S c + L c))
      (range 0 (nframes (len x))).
Proof.
  intros HN. unfold full_frames, pad_right, nframes. cbv zeta.
  destruct (len x <? L c / 2 + 1) eqn:E; [apply Z.ltb_lt in E; lia|].
  pose proof (len_nonneg x).
  assert (0 <= (len x + S c / 2) / S c) by (apply Z.div_pos; lia).
  replace (Z.max 0 ((len x + S c / 2) / S c)) with ((len x + S c / 2) / S c) by lia.
  set (pr := Z.max 0 (((len x + S c / 2) / S c - 1) * S c - pad_left c + L c - len x)).
  destruct (pad_left c =? 0) eqn:E1; cbn [andb]; [|reflexivity].
  destruct (pr =? 0) eqn:E2; [|reflexivity].
  apply Z.eqb_eq in E1, E2. rewrite E1, E2. rewrite sympad_nopad. reflexivity.
Qed.

Theorem full_frames_short_l x : len x < L c / 2 + 1 -> full_frames c x = [].
Proof.
  intros H. unfold full_frames. destruct (len x <? L c / 2 + 1) eqn:E; [reflexivity | lia].
Qed.

Theorem full_frames_count_l x :
  L c / 2 + 1 <= len x -> len (full_frames c x) = (len x + S c / 2) / S c.
Proof.
  intros HN. rewrite full_frames_unfold by exact HN. rewrite len_map, len_range.
  unfold nframes. destruct (len x <? L c / 2 + 1) eqn:E; [apply Z.ltb_lt in E; lia|].
  pose proof (len_nonneg x). assert (0 <= (len x + S c / 2) / S c) by (apply Z.div_pos; lia). lia.
Qed.

Lemma pad_left_nonneg : 0 <= pad_left c.
Proof. exact (pl_nonneg c HS HL). Qed.

Theorem full_frames_length_l x :
  Forall (fun f => len f = L c) (full_frames c x).
Proof.
  destruct (Z_lt_ge_dec (len x) (L c / 2 + 1)) as [Hs|Hge].
  - rewrite full_frames_short_l by exact Hs. constructor.
  - rewrite full_frames_unfold by lia. apply Forall_forall. intros f Hf.
    apply in_map_iff in Hf. destruct Hf as (k & <- & Hk). apply in_range in Hk.
    pose proof pad_left_nonneg as Hpl.
    assert (0 <= pad_right (len x)) as Hpr by (unfold pad_right; lia).
    rewrite len_slice_nonneg; [lia | nia |].
    rewrite len_sympad by lia.
    unfold pad_right in *. nia.
Qed.

(* frames that need no padding are plain slices of the signal *)
Theorem full_frame_interior_l x k :
  L c / 2 + 1 <= len x -> 0 <= k < nframes (len x) ->
  pad_left c <= k * S c -> k * S c - pad_left c + L c <= len x ->
  slice (sympad x (pad_left c) (pad_right (len x))) (k * S c) (k * S c + L c) =
  slice x (k * S c - pad_left c) (k * S c - pad_left c + L c).
Proof.
  intros HN Hk Hlo Hhi. pose proof pad_left_nonneg as Hpl.
  unfold sympad.
  set (lft := rev (take (pad_left c) (cyc _ x))).
  assert (len lft = pad_left c) as Hl.
  { unfold lft. rewrite len_rev, len_take, len_cyc. nia. }
  rewrite !slice_nonneg by nia.
  rewrite drop_app_ge by lia. rewrite Hl.
  rewrite drop_app_le by lia.
  rewrite take_app_le by (rewrite len_drop; lia).
  f_equal; lia.
Qed.

(* the documented sample ranges of frame k, per style *)
Theorem documented_ranges_l k :
  (centered c = false ->
     k * S c - pad_left c = k * S c /\ k * S c - pad_left c + L c = k * S c + L c) /\
  (centered c = true -> kaldi c = false ->
     k * S c - pad_left c = k * S c - (L c + 1) / 2 + 1 /\
     k * S c - pad_left c + L c = k * S c + L c / 2 + 1) /\
  (centered c = true -> kaldi c = true ->
     k * S c - pad_left c = k * S c - L c / 2 + S c / 2 /\
     k * S c - pad_left c + L c = k * S c + (L c + 1) / 2 + S c / 2).
Proof.
  unfold pad_left. repeat split; intros; repeat match goal with H : _ = _ |- _ => rewrite H end; lia.
Qed.

(* ---- reflection semantics of the padded signal, element by element ---- *)
(* index into x of position j (possibly outside [0, N)) under symmetric extension *)
Definition sym (N j : Z) : Z :=
  let m := j mod (2 * N) in if m <? N then m else 2 * N - 1 - m.

Lemma sym_range N j : 0 < N -> 0 <= sym N j < N.
Proof.
  intros HN. unfold sym. pose proof (Z.mod_pos_bound j (2 * N)).
  destruct (j mod (2 * N) <? N) eqn:E; lia.
Qed.

Lemma sym_inside N j : 0 <= j < N -> sym N j = j.
Proof.
  intros H. unfold sym. rewrite Z.mod_small by lia.
  destruct (j <? N) eqn:E; lia.
Qed.

Lemma sym_shift N j : 0 < N -> N <= j -> sym N j = N - 1 - sym N (j - N).
Proof.
  intros HN Hj. unfold sym.
  pose proof (Z.mod_pos_bound j (2 * N)) as Hb1. pose proof (Z.mod_pos_bound (j - N) (2 * N)) as Hb2.
  pose proof (Z.div_mod j (2 * N)) as Hd1. pose proof (Z.div_mod (j - N) (2 * N)) as Hd2.
  set (m := j mod (2 * N)) in *. set (m' := (j - N) mod (2 * N)) in *.
  destruct (m <? N) eqn:E1.
  - apply Z.ltb_lt in E1.
    assert (m' = m + N) as Hm'.
    { unfold m'. symmetry. apply (Z.mod_unique _ _ (j / (2 * N) - 1)); [left; lia|]. lia. }
    destruct (m' <? N) eqn:E2; lia.
  - apply Z.ltb_ge in E1.
    assert (m' = m - N) as Hm'.
    { unfold m'. symmetry. apply (Z.mod_unique _ _ (j / (2 * N))); [left; lia|]. lia. }
    destruct (m' <? N) eqn:E2; lia.
Qed.

Lemma sym_neg N j : 0 < N -> 0 <= j -> sym N (- (j + 1)) = sym N j.
Proof.
  intros HN Hj. unfold sym.
  pose proof (Z.mod_pos_bound j (2 * N)) as Hb1.
  pose proof (Z.div_mod j (2 * N)) as Hd1.
  set (m := j mod (2 * N)) in *.
  assert ((- (j + 1)) mod (2 * N) = 2 * N - 1 - m) as Hm'.
  { symmetry. apply (Z.mod_unique _ _ (- (j / (2 * N)) - 1)); [left; lia|]. lia. }
  rewrite Hm'.
  destruct (m <? N) eqn:E1; destruct (2 * N - 1 - m <? N) eqn:E2; lia.
Qed.

Definition znth (d : A) (l : list A) (i : Z) : A := nth (Z.to_nat i) l d.

Lemma znth_app_l d l m i : 0 <= i < len l -> znth d (l ++ m) i = znth d l i.
Proof. unfold znth, len. intros H. apply app_nth1. lia. Qed.

Lemma znth_app_r d l m i : len l <= i -> znth d (l ++ m) i = znth d m (i - len l).
Proof.
  unfold znth, len. intros H. rewrite app_nth2 by lia. f_equal. lia.
Qed.

Lemma znth_rev d l i : 0 <= i < len l -> znth d (rev l) i = znth d l (len l - 1 - i).
Proof.
  unfold znth, len. intros H. rewrite rev_nth by lia. f_equal. lia.
Qed.

Lemma znth_take d n l i : 0 <= i < n -> znth d (take n l) i = znth d l i.
Proof.
  unfold znth, take. intros H.
  rewrite <- (firstn_skipn (Z.to_nat n) l) at 2.
  destruct (Z_lt_ge_dec i (len l)) as [Hi|Hi].
  - rewrite app_nth1; [reflexivity|]. rewrite firstn_length. unfold len in Hi. lia.
  - rewrite !nth_overflow; [reflexivity| |].
    + rewrite app_length, firstn_length, skipn_length. unfold len in Hi. lia.
    + rewrite firstn_length. unfold len in Hi. lia.
Qed.

(* reading k copies of y, rev y, y, ... *)
Lemma znth_cyc d (k : nat) : forall y i,
  0 < len y -> 0 <= i < Z.of_nat k * len y -> znth d (cyc k y) i = znth d y (sym (len y) i).
Proof.
  induction k as [|k IH]; intros y i Hy Hi; [lia|].
  cbn [cyc]. destruct (Z_lt_ge_dec i (len y)) as [Hlt|Hge].
  - rewrite znth_app_l by lia. rewrite sym_inside by lia. reflexivity.
  - rewrite znth_app_r by lia.
    rewrite IH by (rewrite ?len_rev; nia). rewrite len_rev.
    pose proof (sym_range (len y) (i - len y) Hy).
    rewrite znth_rev by lia. f_equal. rewrite (sym_shift (len y) i) by lia. lia.
Qed.

(* every element of the padded signal is the symmetric extension of x *)
Theorem znth_sympad_l d x pl pr i :
  0 < len x -> 0 <= pl -> 0 <= pr -> 0 <= i < pl + len x + pr ->
  znth d (sympad x pl pr) i = znth d x (sym (len x) (i - pl)).
Proof.
  intros Hx Hpl Hpr Hi. unfold sympad.
  set (lft := take pl (cyc _ x)). set (rgt := take pr (cyc _ (rev x))).
  assert (len lft = pl) as Hl by (unfold lft; rewrite len_take, len_cyc; nia).
  assert (len rgt = pr) as Hr by (unfold rgt; rewrite len_take, len_cyc, len_rev; nia).
  destruct (Z_lt_ge_dec i pl) as [H1|H1].
  - rewrite znth_app_l by (rewrite len_rev; lia).
    rewrite znth_rev by lia. rewrite Hl. unfold lft.
    rewrite znth_take by lia. rewrite znth_cyc by nia.
    f_equal. replace (i - pl) with (- ((pl - 1 - i) + 1)) by lia. rewrite sym_neg by lia. reflexivity.
  - rewrite znth_app_r by (rewrite len_rev; lia). rewrite len_rev, Hl.
    destruct (Z_lt_ge_dec (i - pl) (len x)) as [H2|H2].
    + rewrite znth_app_l by lia. rewrite sym_inside by lia. reflexivity.
    + rewrite znth_app_r by lia. unfold rgt.
      rewrite znth_take by lia. rewrite znth_cyc by (rewrite ?len_rev; nia). rewrite len_rev.
      pose proof (sym_range (len x) (i - pl - len x) Hx).
      rewrite znth_rev by lia. f_equal. rewrite (sym_shift (len x) (i - pl)) by lia. lia.
Qed.

End Frames.
