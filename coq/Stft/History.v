(* Histories on one instance (C04), frame_by_frame_calculation (C01), and the
   top-level statements about the STFT framing model. *)
From Coq Require Import ZArith List Bool Lia.
From Verif Require Import lib.ZList Stft.Model Stft.Lemmas Stft.Stream.
Import ListNotations.
Open Scope Z_scope.

Section History.
Context {A : Type}.
Variable c : cfg.
Hypothesis HS : 0 < S c.
Hypothesis HL : S c <= L c.

Notation InvC := (@Inv A c).

(* ---- chunked = full ---- *)
Theorem stream_eq_full_l (stale : list A) chunks :
  len stale = L c ->
  snd (stream c (init c stale) chunks) = full_frames c (concat chunks).
Proof.
  intros H. apply (stream_spec c HS HL). apply init_inv; assumption.
Qed.

(* ---- frame_by_frame_calculation ---- *)
Lemma concat_chop k : 0 < k -> forall fuel (x : list A),
  (length x <= fuel)%nat -> concat (chop fuel k x) = x.
Proof.
  intros Hk fuel. induction fuel as [|f IH]; intros x Hx.
  - destruct x; [reflexivity | simpl in Hx; lia].
  - destruct x as [|a x']; [reflexivity|].
    cbn [chop concat]. rewrite slice_to_nonneg, slice_from_nonneg by lia.
    rewrite IH.
    + apply take_drop_id.
    + unfold drop. rewrite skipn_length. simpl length in *. lia.
Qed.

Lemma fbf_spec (s : st A) (x : list A) k :
  0 < k -> InvC s [] -> started s = false ->
  snd (fbf c s x k) = Some (full_frames c x) /\ InvC (fst (fbf c s x k)) [] /\
  started (fst (fbf c s x k)) = false.
Proof.
  intros Hk HI Hst. unfold fbf. rewrite Hst.
  destruct (stream_spec c HS HL s (chop (length x) k x) HI) as [Hout HI'].
  rewrite concat_chop in Hout by (try exact Hk; lia).
  assert (started (fst (stream c s (chop (length x) k x))) = false) as Hst'.
  { unfold stream. destruct (feed c s _) as [s1 f1]. unfold finalize. reflexivity. }
  destruct (stream c s (chop (length x) k x)) as [s' frs]. cbn [fst snd] in *.
  rewrite Hout. split; [reflexivity | split; assumption].
Qed.

(* ---- histories ---- *)
(* two instances are related when they have seen the same samples of the current
   utterance; the (stale) rest of their buffers may differ arbitrarily *)
Definition Rel (s1 s2 : st A) : Prop :=
  exists x, InvC s1 x /\ InvC s2 x /\ started s1 = started s2 /\ (started s1 = false -> x = []).

Ltac rel_intro y := exists y; split; [|split; [|split]].

Definition valid_op (o : op A) : Prop :=
  match o with OFbf _ k => 0 < k | _ => True end.

Lemma chunk_started (s : st A) (ch : list A) : started (fst (compute_chunk c s ch)) = true.
Proof.
  unfold compute_chunk. cbv zeta.
  repeat match goal with |- context [if ?b then _ else _] => destruct b end; reflexivity.
Qed.

Lemma finalize_started (s : st A) : started (fst (finalize c s)) = false.
Proof. reflexivity. Qed.

Lemma step_rel (s1 s2 : st A) (o : op A) :
  valid_op o -> Rel s1 s2 ->
  snd (step c s1 o) = snd (step c s2 o) /\ Rel (fst (step c s1 o)) (fst (step c s2 o)).
Proof.
  intros Hv (x & H1 & H2 & Hst & Hx).
  destruct o as [ch| |y|y k]; cbn [step].
  - (* chunk *)
    pose proof (chunk_output_determined c HS HL s1 s2 x ch H1 H2) as Hout.
    destruct (chunk_step c HS HL s1 x ch H1) as [HI1 _].
    destruct (chunk_step c HS HL s2 x ch H2) as [HI2 _].
    pose proof (chunk_started s1 ch) as Hs1. pose proof (chunk_started s2 ch) as Hs2.
    destruct (compute_chunk c s1 ch) as [s1' f1]. destruct (compute_chunk c s2 ch) as [s2' f2].
    cbn [fst snd] in *. split; [rewrite Hout; reflexivity|].
    rel_intro (x ++ ch); [exact HI1 | exact HI2 | congruence | intros; congruence].
  - (* finalize *)
    pose proof (finalize_output_determined c HS HL s1 s2 x H1 H2) as Hout.
    pose proof (reset_inv c HS HL s1 x H1) as HI1. pose proof (reset_inv c HS HL s2 x H2) as HI2.
    destruct (finalize c s1) as [s1' f1] eqn:E1. destruct (finalize c s2) as [s2' f2] eqn:E2.
    assert (started s1' = false) as Hs1 by (pose proof (finalize_started s1) as Hq; rewrite E1 in Hq; exact Hq).
    assert (started s2' = false) as Hs2 by (pose proof (finalize_started s2) as Hq; rewrite E2 in Hq; exact Hq).
    cbn [fst snd] in *. split; [rewrite Hout; reflexivity|].
    rel_intro (@nil A); [exact HI1 | exact HI2 | congruence | reflexivity].
  - (* compute_full *)
    unfold compute_full. rewrite <- Hst. destruct (started s1) eqn:Es; cbn [fst snd].
    + split; [reflexivity|]. rel_intro x; [exact H1 | exact H2 | congruence | intros; congruence].
    + split; [reflexivity|]. rel_intro x; [exact H1 | exact H2 | congruence | intros; apply Hx; congruence].
  - (* frame_by_frame_calculation *)
    cbn [valid_op] in Hv.
    destruct (started s1) eqn:Es.
    + unfold fbf. rewrite Es, <- Hst. cbn [fst snd]. split; [reflexivity|].
      rel_intro x; [exact H1 | exact H2 | congruence | intros; congruence].
    + specialize (Hx eq_refl). subst x.
      destruct (fbf_spec s1 y k Hv H1 Es) as (Ho1 & Hi1 & Hs1).
      destruct (fbf_spec s2 y k Hv H2 (eq_sym Hst)) as (Ho2 & Hi2 & Hs2).
      split; [congruence|]. rel_intro (@nil A); [exact Hi1 | exact Hi2 | congruence | reflexivity].
Qed.

Lemma run_rel ops : Forall valid_op ops -> forall s1 s2, Rel s1 s2 ->
  snd (run c s1 ops) = snd (run c s2 ops) /\ Rel (fst (run c s1 ops)) (fst (run c s2 ops)).
Proof.
  induction ops as [|o rest IH]; intros Hv s1 s2 HR; cbn [run].
  - cbn [fst snd]. split; [reflexivity | exact HR].
  - inversion Hv as [|? ? Hvo Hvr]; subst.
    destruct (step_rel s1 s2 o Hvo HR) as [Ho HR1].
    destruct (step c s1 o) as [s1' r1]. destruct (step c s2 o) as [s2' r2]. cbn [fst snd] in *.
    destruct (IH Hvr s1' s2' HR1) as [Hos HR2].
    destruct (run c s1' rest) as [s1'' rs1]. destruct (run c s2' rest) as [s2'' rs2]. cbn [fst snd] in *.
    split; [congruence | exact HR2].
Qed.

Lemma rel_refl_init (stale : list A) : len stale = L c -> Rel (init c stale) (init c stale).
Proof.
  intros H. pose proof (init_inv c HS HL stale H). rel_intro (@nil A); try assumption; reflexivity.
Qed.

Lemma rel_init (st1 st2 : list A) : len st1 = L c -> len st2 = L c -> Rel (init c st1) (init c st2).
Proof.
  intros H1 H2. pose proof (init_inv c HS HL st1 H1). pose proof (init_inv c HS HL st2 H2).
  rel_intro (@nil A); try assumption; reflexivity.
Qed.

(* any reachable, not-started state behaves like a fresh instance *)
Theorem history_independent_l (st1 st2 : list A) h ops :
  len st1 = L c -> len st2 = L c -> Forall valid_op h -> Forall valid_op ops ->
  started (fst (run c (init c st1) h)) = false ->
  snd (run c (fst (run c (init c st1) h)) ops) = snd (run c (init c st2) ops).
Proof.
  intros H1 H2 Hvh Hvo Hst.
  destruct (run_rel h Hvh _ _ (rel_refl_init st1 H1)) as [_ (x & HI & _ & _ & Hx)].
  specialize (Hx Hst). subst x.
  apply run_rel; [exact Hvo|].
  pose proof (init_inv c HS HL st2 H2).
  rel_intro (@nil A); try assumption; intros; reflexivity.
Qed.

(* the stale contents of the buffer are never observable *)
Theorem stale_irrelevant_l (st1 st2 : list A) ops :
  len st1 = L c -> len st2 = L c -> Forall valid_op ops ->
  snd (run c (init c st1) ops) = snd (run c (init c st2) ops).
Proof.
  intros H1 H2 Hv. apply run_rel; [exact Hv | apply rel_init; assumption].
Qed.

(* `started` is true exactly from the first compute_chunk until the next finalize *)
Definition started_after (b : bool) (o : op A) : bool :=
  match o with OChunk _ => true | OFinalize => false | OFull _ => b | OFbf _ _ => b end.

Lemma step_started (s : st A) (o : op A) : started (fst (step c s o)) = started_after (started s) o.
Proof.
  destruct o as [ch| |y|y k]; cbn [step started_after].
  - pose proof (chunk_started s ch). destruct (compute_chunk c s ch). assumption.
  - reflexivity.
  - unfold compute_full. destruct (started s) eqn:E; cbn [fst]; assumption.
  - unfold fbf. destruct (started s) eqn:E; cbn [fst]; [assumption|].
    unfold stream. destruct (feed c s _) as [s1 f1]. reflexivity.
Qed.

Theorem started_fold_l (ops : list (op A)) : forall s : st A,
  started (fst (run c s ops)) = fold_left started_after ops (started s).
Proof.
  induction ops as [|o rest IH]; intros s; cbn [run fold_left]; [reflexivity|].
  pose proof (step_started s o) as Hs.
  destruct (step c s o) as [s1 r]. cbn [fst] in Hs.
  specialize (IH s1). destruct (run c s1 rest) as [s2 rs]. cbn [fst] in *.
  rewrite IH, Hs. reflexivity.
Qed.

(* compute_full / frame_by_frame_calculation refuse mid-utterance and disturb nothing *)
Theorem refuse_mid_utterance_l (s : st A) (x : list A) k :
  started s = true ->
  step c s (OFull x) = (s, None) /\ step c s (OFbf x k) = (s, None).
Proof.
  intros H. cbn [step]. unfold compute_full, fbf. rewrite H. split; reflexivity.
Qed.

Theorem full_when_idle_l (s : st A) (x : list A) :
  started s = false -> step c s (OFull x) = (s, Some (full_frames c x)).
Proof. intros H. cbn [step]. unfold compute_full. rewrite H. reflexivity. Qed.

Theorem fbf_eq_full_l (stale : list A) x k :
  len stale = L c -> 0 < k -> snd (fbf c (init c stale) x k) = Some (full_frames c x).
Proof.
  intros H Hk. apply fbf_spec; [exact Hk | apply init_inv; assumption | reflexivity].
Qed.

Theorem features_bit_identical_l {B} (f : list A -> B) (stale : list A) chunks :
  len stale = L c ->
  map f (snd (stream c (init c stale) chunks)) = map f (full_frames c (concat chunks)).
Proof. intros; f_equal; apply stream_eq_full_l; assumption. Qed.

Theorem chunk_invariance_l (stale : list A) c1 c2 :
  len stale = L c -> concat c1 = concat c2 ->
  snd (stream c (init c stale) c1) = snd (stream c (init c stale) c2).
Proof. intros H E. rewrite !stream_eq_full_l by assumption. rewrite E. reflexivity. Qed.

End History.

(* the hypotheses are satisfiable and the statement is not vacuous: a concrete run *)
Example stream_example :
  let c := {| L := 5; S := 2; centered := true; kaldi := false |} in
  snd (stream c (init c [9; 9; 9; 9; 9]) [[0; 1]; []; [2; 3; 4; 5]; [6]]) =
  full_frames c [0; 1; 2; 3; 4; 5; 6]
  /\ full_frames c [0; 1; 2; 3; 4; 5; 6] =
     [[1; 0; 0; 1; 2]; [0; 1; 2; 3; 4]; [2; 3; 4; 5; 6]; [4; 5; 6; 6; 5]].
Proof. vm_compute. split; reflexivity. Qed.
