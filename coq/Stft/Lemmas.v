(* List-level facts about the pieces of the STFT framing model. *)
From Coq Require Import ZArith List Bool Lia.
From Verif Require Import lib.ZList Stft.Model.
Import ListNotations.
Open Scope Z_scope.

Section Lemmas.
Context {A : Type}.
Implicit Types x y bf ch : list A.

(* ---- symmetric padding: single reflections ---- *)
Lemma cyc_take_single (k : nat) (n : Z) y :
  n <= len y -> take n (cyc (Datatypes.S k) y) = take n y.
Proof. intros H; simpl. apply take_app_le; exact H. Qed.

Lemma sympad_single x pl pr :
  0 <= pl <= len x -> 0 <= pr <= len x ->
  sympad x pl pr = rev (take pl x) ++ x ++ rev (lastn pr x).
Proof.
  intros Hl Hr. unfold sympad.
  rewrite cyc_take_single by lia.
  rewrite cyc_take_single by (rewrite len_rev; lia).
  rewrite <- (rev_take_drop pr x) by lia. rewrite rev_involutive. reflexivity.
Qed.

Lemma sympad_left_only x pl :
  0 <= pl <= len x -> sympad x pl 0 = rev (take pl x) ++ x.
Proof.
  intros Hl. unfold sympad. rewrite cyc_take_single by lia.
  rewrite (take_nonpos 0) by lia. rewrite app_nil_r. reflexivity.
Qed.

Lemma sympad_nopad x : sympad x 0 0 = x.
Proof.
  unfold sympad. rewrite !(take_nonpos 0) by lia. simpl. apply app_nil_r.
Qed.

(* ---- frames assembled from remainder and chunk ---- *)
Lemma get_frame_spec bf bl ch fl fsi :
  0 <= fsi -> 0 <= bl <= len bf -> bl - fsi <= fl -> 0 <= fl ->
  get_frame bf bl ch fl fsi = slice (lastn bl bf ++ ch) fsi (fsi + fl).
Proof.
  intros Hf Hb Hfl Hfl0. unfold get_frame.
  destruct (fsi <? bl) eqn:E.
  - apply Z.ltb_lt in E.
    rewrite slice_from_neg by lia.
    rewrite slice_to_nonneg by lia.
    rewrite slice_nonneg by lia.
    replace (fsi + fl - fsi) with fl by lia.
    rewrite drop_app_le by (rewrite len_lastn; lia).
    rewrite drop_lastn by lia.
    rewrite take_app_ge by (rewrite len_lastn; lia).
    rewrite len_lastn by lia. f_equal. f_equal. lia.
  - apply Z.ltb_ge in E.
    rewrite !slice_nonneg by lia.
    rewrite drop_app_ge by (rewrite len_lastn; lia).
    rewrite len_lastn by lia.
    replace (fsi - bl + fl - (fsi - bl)) with (fsi + fl - fsi) by lia. reflexivity.
Qed.

(* ---- the buffer keeps the last L samples ---- *)
Lemma shift_in_spec c bf ch :
  len bf = L c -> shift_in c bf ch = lastn (L c) (bf ++ ch).
Proof.
  intros Hb. unfold shift_in. pose proof (len_nonneg ch) as Hc. pose proof (len_nonneg bf) as Hbf.
  destruct (L c <=? len ch) eqn:E1.
  - apply Z.leb_le in E1. rewrite slice_from_nonneg by lia.
    rewrite lastn_app_le by lia. reflexivity.
  - apply Z.leb_gt in E1. destruct (0 <? len ch) eqn:E2.
    + apply Z.ltb_lt in E2. rewrite slice_from_nonneg by lia.
      rewrite lastn_app_ge by lia. unfold lastn. f_equal. f_equal. lia.
    + apply Z.ltb_ge in E2. assert (len ch = 0) as H0 by lia.
      assert (ch = []) as -> by (destruct ch; [reflexivity | unfold len in H0; simpl in H0; lia]).
      rewrite app_nil_r. rewrite lastn_all by lia. reflexivity.
Qed.

Lemma len_shift_in c bf ch : len bf = L c -> 0 <= L c -> len (shift_in c bf ch) = L c.
Proof.
  intros Hb HL. rewrite shift_in_spec by exact Hb. apply len_lastn. rewrite len_app.
  pose proof (len_nonneg ch). lia.
Qed.

(* stale prefix of the buffer does not matter once enough samples arrived *)
Lemma lastn_stale n bf x ch :
  0 <= n <= len bf -> lastn n bf = x -> forall m, 0 <= m <= n + len ch ->
  lastn m (bf ++ ch) = lastn m (x ++ ch).
Proof.
  intros Hn Hx m Hm.
  assert (bf = take (len bf - n) bf ++ x) as Hsplit.
  { rewrite <- Hx. unfold lastn. symmetry. apply take_drop_id. }
  assert (len x = n) as Hlx by (rewrite <- Hx; apply len_lastn; lia).
  rewrite Hsplit at 1. rewrite <- app_assoc.
  apply lastn_app_le. rewrite len_app. lia.
Qed.

(* slices of a dropped list *)
Lemma slice_drop (l : list A) k a b :
  0 <= k -> 0 <= a <= b -> slice (drop k l) a b = slice l (k + a) (k + b).
Proof.
  intros Hk H. rewrite !slice_nonneg by lia. rewrite drop_drop by lia.
  f_equal; [lia | f_equal; lia].
Qed.

Lemma lastn_as_drop (l : list A) n : lastn n l = drop (len l - n) l.
Proof. reflexivity. Qed.

End Lemmas.
