(* Model of ShortTimeFourierTransformFrameComputer's framing logic
   (compute.py: compute_chunk, finalize, compute_full, frame_by_frame_calculation),
   written statement for statement after the code, polymorphic in the sample type.
   What is modelled: which samples make up every frame handed to the per-frame
   routine (_compute_frame), in which order, and the buffer / flag state.
   The per-frame routine is a pure function of the frame, so equal frame lists
   mean bit-identical features.  Definitions only - proofs are in Stft/Proofs*.v. *)
From Coq Require Import ZArith List Bool.
From Verif Require Import lib.ZList.
Import ListNotations.
Open Scope Z_scope.

Record cfg := { L : Z; S : Z; centered : bool; kaldi : bool }.

Definition pad_left (c : cfg) : Z :=
  if centered c then (if kaldi c then L c / 2 - S c / 2 else (L c + 1) / 2 - 1) else 0.

(* number of real samples the first centred frame needs *)
Definition first_len (c : cfg) : Z :=
  if kaldi c then (L c + 1) / 2 + S c / 2 else L c / 2 + 1.

Section Stft.
Context {A : Type}.

(* np.pad(x, (pl, pr), "symmetric"), including multiple reflections:
   leftwards from x[0] one reads x, rev x, x, ...; rightwards from the end rev x, x, ... *)
Fixpoint cyc (k : nat) (y : list A) : list A :=
  match k with O => [] | Datatypes.S k' => y ++ cyc k' (rev y) end.
Definition sympad (x : list A) (pl pr : Z) : list A :=
  rev (take pl (cyc (Datatypes.S (Z.to_nat pl)) x)) ++ x ++ take pr (cyc (Datatypes.S (Z.to_nat pr)) (rev x)).

Record st := { buf : list A; buf_len : Z; hist_len : Z; first : bool; started : bool }.

Definition reset (s : st) : st :=
  {| buf := buf s; buf_len := 0; hist_len := 0; first := true; started := false |}.

(* the frame starting fsi samples into (remainder ++ chunk) *)
Definition get_frame (bf : list A) (bl : Z) (chunk : list A) (fl fsi : Z) : list A :=
  if fsi <? bl then slice_from bf (- (bl - fsi)) ++ slice_to chunk (fl - bl + fsi)
  else slice chunk (fsi - bl) (fsi - bl + fl).

(* self._buf shifted left by the chunk (the last L samples seen are kept) *)
Definition shift_in (c : cfg) (bf chunk : list A) : list A :=
  let cl := len chunk in
  if L c <=? cl then slice_from chunk (cl - L c)
  else if 0 <? cl then slice_from bf cl ++ chunk
  else bf.

Definition compute_chunk (c : cfg) (s : st) (chunk : list A) : st * list (list A) :=
  let bl := buf_len s in
  let cl := len chunk in
  let tl := cl + bl in
  let ncf := centered c && first s in
  let fl := if ncf then first_len c else L c in
  let nf0 := Z.max 0 ((tl - fl) / S c + 1) in
  let nf := if ncf && (tl <? L c / 2 + 1) then 0 else nf0 in
  if 0 <? nf then
    if ncf then
      let fr0 := get_frame (buf s) bl chunk fl 0 in
      let chunk1 := slice_from chunk (fl - bl) in
      let cl1 := cl - (fl - bl) in
      let bf1 := sympad fr0 (pad_left c) 0 in
      let tl1 := cl1 + L c in
      let frames := bf1 :: map (fun i => get_frame bf1 (L c) chunk1 (L c) (i * S c)) (range 1 nf) in
      ({| buf := shift_in c bf1 chunk1; buf_len := tl1 - nf * S c;
          hist_len := Z.min (L c) (L c + cl1); first := false; started := true |}, frames)
    else
      let frames := map (fun i => get_frame (buf s) bl chunk fl (i * S c)) (range 0 nf) in
      ({| buf := shift_in c (buf s) chunk; buf_len := tl - nf * S c;
          hist_len := Z.min (L c) (hist_len s + cl); first := false; started := true |}, frames)
  else
    ({| buf := shift_in c (buf s) chunk; buf_len := tl;
        hist_len := Z.min (L c) (hist_len s + cl); first := first s; started := true |}, []).

Definition finalize (c : cfg) (s : st) : st * list (list A) :=
  let bl := buf_len s in
  let pl0 := pad_left c in
  let nfa := bl + S c / 2 in
  let nfb := if first s then nfa else nfa - pl0 in
  let pl := if first s then pl0 else 0 in
  let nfc := nfb / S c in
  let nf := if first s && (bl <? L c / 2 + 1) then 0 else nfc in
  let frames :=
    if 1 <=? nf then
      let pr := (nf - 1) * S c + L c - bl - pl in
      let h := hist_len s in
      let padded := slice_from (sympad (slice_from (buf s) (L c - h)) pl pr) (h - bl) in
      map (fun i => slice padded (i * S c) (i * S c + L c)) (range 0 nf)
    else [] in
  (reset s, frames).

Definition full_frames (c : cfg) (x : list A) : list (list A) :=
  let N := len x in
  if N <? L c / 2 + 1 then []
  else
    let pl := pad_left c in
    let nf := Z.max 0 ((N + S c / 2) / S c) in
    let total := (nf - 1) * S c - pl + L c in
    let pr := Z.max 0 (total - N) in
    let sig := if (pl =? 0) && (pr =? 0) then x else sympad x pl pr in
    map (fun i => slice sig (i * S c) (i * S c + L c)) (range 0 nf).

(* compute_full refuses to run mid-utterance and leaves the state untouched *)
Definition compute_full (c : cfg) (s : st) (x : list A) : st * option (list (list A)) :=
  if started s then (s, None) else (s, Some (full_frames c x)).

(* feeding a list of chunks, then finalize *)
Fixpoint feed (c : cfg) (s : st) (chunks : list (list A)) : st * list (list A) :=
  match chunks with
  | [] => (s, [])
  | ch :: rest =>
    let '(s1, f1) := compute_chunk c s ch in
    let '(s2, f2) := feed c s1 rest in (s2, f1 ++ f2)
  end.

Definition stream (c : cfg) (s : st) (chunks : list (list A)) : st * list (list A) :=
  let '(s1, f1) := feed c s chunks in
  let '(s2, f2) := finalize c s1 in (s2, f1 ++ f2).

(* frame_by_frame_calculation: cut into pieces of chunk_size, then finalize *)
Fixpoint chop (fuel : nat) (k : Z) (x : list A) : list (list A) :=
  match fuel with
  | O => []
  | Datatypes.S f => match x with [] => [] | _ => slice_to x k :: chop f k (slice_from x k) end
  end.
Definition fbf (c : cfg) (s : st) (x : list A) (k : Z) : st * option (list (list A)) :=
  if started s then (s, None)
  else let '(s', fr) := stream c s (chop (length x) k x) in (s', Some fr).

End Stft.

Arguments st : clear implicits.

(* operations of a history on one instance (C04) *)
Inductive op (A : Type) :=
| OChunk (x : list A) | OFinalize | OFull (x : list A) | OFbf (x : list A) (k : Z).
Arguments OChunk {A}. Arguments OFinalize {A}. Arguments OFull {A}. Arguments OFbf {A}.

(* observable outcome of an operation: Some frames, or None for ValueError *)
Definition step {A} (c : cfg) (s : st A) (o : op A) : st A * option (list (list A)) :=
  match o with
  | OChunk x => let '(s', f) := compute_chunk c s x in (s', Some f)
  | OFinalize => let '(s', f) := finalize c s in (s', Some f)
  | OFull x => compute_full c s x
  | OFbf x k => fbf c s x k
  end.

Fixpoint run {A} (c : cfg) (s : st A) (ops : list (op A)) : st A * list (option (list (list A))) :=
  match ops with
  | [] => (s, [])
  | o :: rest => let '(s1, r) := step c s o in let '(s2, rs) := run c s1 rest in (s2, r :: rs)
  end.

Definition init {A} (c : cfg) (stale : list A) : st A :=
  {| buf := stale; buf_len := 0; hist_len := 0; first := true; started := false |}.
