(* C02 / C14: the scalar post-processing of a frame (energy coefficient, factor 2 of real
   banks, log floor) and the DFT size, as symbolically executed from compute.py / torch.py
   by gen/stft_scalar.py on every run (coq/gen/StftR.v), proved equal to the documented
   definitions:
     energy  = mean square of the unwindowed frame, its square root unless use_power,
               log-floored at LOG_FLOOR_VALUE when use_log         (Stft/Energy.v np_energy)
     coeff   = (2 x for real banks) the walk's sum, log-floored when use_log
     dft     = the first power of two at or beyond frame_length when padding, else frame_length
   A change of the order of these operations (floor before the root, log before the factor 2,
   a different power-of-two rule ...) makes one of these lemmas fail. *)
From Coq Require Import Reals ZArith Bool List Lra Lia.
From Verif Require Import Stft.TorchEnergy Stft.Energy gen.StftR.
Import ListNotations.

(* ---------------- DFT size ---------------- *)
Open Scope Z_scope.

Definition dft_size (L : Z) (pad : bool) : Z := if pad then 2 ^ Z.log2_up L else L.

Lemma dft_size_tie_l L pad : g_init_dft L pad = dft_size L pad /\ g_torch_dft L = dft_size L true.
Proof. split; reflexivity. Qed.

Lemma torch_dft_eq_numpy_l L : g_torch_dft L = g_init_dft L true.
Proof. reflexivity. Qed.

(* the documented meaning: the smallest power of two that is >= L *)
Lemma dft_size_pad_spec_l L : 0 < L ->
  let D := dft_size L true in
  (exists k, 0 <= k /\ D = 2 ^ k) /\ L <= D /\ (forall k, 0 <= k -> L <= 2 ^ k -> D <= 2 ^ k) /\ D < 2 * L.
Proof.
  intros HL. cbv zeta. unfold dft_size.
  destruct (Z.eq_dec L 1) as [->|H1].
  { change (Z.log2_up 1) with 0. change (2 ^ 0) with 1. split; [exists 0; split; [lia|reflexivity]|].
    split; [lia|]. split; [|lia]. intros k Hk _. assert (0 < 2 ^ k) by (apply Z.pow_pos_nonneg; lia). lia. }
  assert (1 < L) by lia.
  pose proof (Z.log2_up_spec L ltac:(lia)) as [Hlo Hhi].
  pose proof (Z.log2_up_nonneg L) as Hnn.
  split; [exists (Z.log2_up L); split; [assumption|reflexivity]|].
  split; [exact Hhi|]. split.
  - intros k Hk HLk. apply Z.pow_le_mono_r; [lia|].
    apply Z.log2_up_le_pow2; lia.
  - assert (0 < Z.log2_up L) by (apply Z.log2_up_pos; lia).
    replace (Z.log2_up L) with (Z.succ (Z.pred (Z.log2_up L))) by lia.
    rewrite Z.pow_succ_r by lia. lia.
Qed.

Lemma dft_size_nopad_l L : dft_size L false = L.
Proof. reflexivity. Qed.

(* a frame length that already is a power of two is not padded *)
Lemma dft_size_pow2_fixed_l k : 0 <= k -> dft_size (2 ^ k) true = 2 ^ k.
Proof.
  intros Hk. unfold dft_size. destruct (Z.eq_dec k 0) as [->|Hk0]; [reflexivity|].
  rewrite Z.log2_up_pow2 by lia. reflexivity.
Qed.

Example dft_size_examples : dft_size 400 true = 512 /\ dft_size 512 true = 512 /\ dft_size 513 true = 1024 /\ dft_size 400 false = 400.
Proof. repeat split. Qed.

Close Scope Z_scope.

(* ---------------- energy coefficient and log floor ---------------- *)
Open Scope R_scope.

(* what is stored for a filter after the segment walk accumulated [val] *)
Definition coeff_post (val floor : R) (real lg : bool) : R :=
  let v := if real then 2 * val else val in
  if lg then ln (Rmax v floor) else v.

Lemma frame_energy_tie_l xs Lr floor power lg :
  g_frame_energy (sumsq xs) Lr floor power lg = np_energy xs Lr floor power lg.
Proof. unfold g_frame_energy, np_energy. destruct power, lg; reflexivity. Qed.

Lemma frame_post_tie_l val floor real lg : g_frame_post val floor real lg = coeff_post val floor real lg.
Proof. unfold g_frame_post, coeff_post. destruct real, lg; cbn; try reflexivity; rewrite (Rmult_comm val 2); reflexivity. Qed.

(* torch: energy block, then the common `if use_log:` transformation *)
Lemma torch_energy_tie_l xs Lr floor power lg :
  g_torch_log (g_torch_energy (sumsq xs) Lr power) floor lg = torch_energy xs Lr floor power lg.
Proof. unfold g_torch_log, g_torch_energy, torch_energy. destruct power, lg; reflexivity. Qed.

(* torch doubles every segment of a real bank's walk and floors/logs the stacked result:
   for a walk whose segment values are [vs] this is coeff_post of their sum *)
Definition rsum (vs : list R) : R := fold_right Rplus 0 vs.

Lemma rsum_double vs : rsum (map (fun v => v * 2) vs) = 2 * rsum vs.
Proof. unfold rsum. induction vs as [|v vs IH]; cbn [map fold_right]; [lra | rewrite IH; lra]. Qed.

Lemma torch_post_tie_l vs floor real lg :
  g_torch_log (rsum (map (fun v => g_torch_seg v real) vs)) floor lg = coeff_post (rsum vs) floor real lg.
Proof.
  unfold g_torch_log, g_torch_seg, coeff_post. destruct real; cbv beta iota.
  - rewrite rsum_double. reflexivity.
  - rewrite map_id. reflexivity.
Qed.

(* hence numpy and torch post-process the same accumulated sums identically *)
Lemma torch_post_eq_numpy_l vs floor real lg :
  g_torch_log (rsum (map (fun v => g_torch_seg v real) vs)) floor lg = g_frame_post (rsum vs) floor real lg.
Proof. rewrite torch_post_tie_l, frame_post_tie_l. reflexivity. Qed.

(* the logged value of any coefficient is never below log(floor) *)
Lemma coeff_post_floor_l val floor real : 0 < floor -> ln floor <= coeff_post val floor real true.
Proof. intros H. unfold coeff_post. apply log_floor_lower_bound_l; exact H. Qed.

(* quiet frames: once the (root) mean square is at or below the floor the logged energy is
   exactly log(floor) - in particular NOT half of it for use_power = false *)
Lemma energy_floor_quiet_l (xs : list R) (Lr floor : R) (power : bool) :
  (if power then sumsq xs / Lr else sqrt (sumsq xs / Lr)) <= floor ->
  np_energy xs Lr floor power true = ln floor.
Proof. intros H. unfold np_energy. cbv zeta. rewrite Rmax_right; [reflexivity|]. destruct power; exact H. Qed.

Example coeff_post_example : coeff_post 3 (1 / 100000) true false = 6.
Proof. unfold coeff_post. lra. Qed.
