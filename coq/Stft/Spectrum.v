(* C02, spectral part: what the segment walk adds up equals the documented
   definition - the sum over the FULL DFT spectrum of phi(X[k] * H[k]) with H rebuilt
   from the truncated response by the documented recipe.
   Abstract setting: spectrum values in a type C with a conjugation, contributions
   phi x t in a commutative monoid (M, +, 0) (e.g. |x t| or |x t|^2 in R), phi x 0 = 0.
   The DFT itself is not modelled: X is any function on bins 0..D-1 that is
   Hermitian-symmetric (X (D - h) = conj (X h)), which is what rfft of a real frame
   relies on; the half spectrum is X restricted to 0..D/2. *)
From Coq Require Import ZArith List Bool Lia.
From Verif Require Import lib.ZList Stft.Walk.
Import ListNotations.
Open Scope Z_scope.

Section Spectrum.
Variables (C M : Type).
Variable czero : C.
Variable cconj : C -> C.
Variable mzero : M.
Variable mplus : M -> M -> M.
Variable phi : C -> C -> M.   (* contribution of spectrum value x and filter tap t *)
Hypothesis mplus_comm : forall a b, mplus a b = mplus b a.
Hypothesis mplus_assoc : forall a b c, mplus a (mplus b c) = mplus (mplus a b) c.
Hypothesis mplus_0_l : forall a, mplus mzero a = a.
Hypothesis phi_zero : forall x, phi x czero = mzero.

Definition msum (f : Z -> M) (l : list Z) : M := fold_right (fun k acc => mplus (f k) acc) mzero l.

Lemma mplus_0_r a : mplus a mzero = a.
Proof. rewrite mplus_comm. apply mplus_0_l. Qed.

Lemma msum_app f l m : msum f (l ++ m) = mplus (msum f l) (msum f m).
Proof.
  induction l as [|a l IH]; cbn [msum fold_right app].
  - rewrite mplus_0_l. reflexivity.
  - fold (msum f (l ++ m)). fold (msum f l). rewrite IH. apply mplus_assoc.
Qed.

Lemma msum_ext f g l : (forall k, In k l -> f k = g k) -> msum f l = msum g l.
Proof.
  induction l as [|a l IH]; intros H; cbn [msum fold_right]; [reflexivity|].
  fold (msum f l). fold (msum g l). rewrite H by (left; reflexivity).
  rewrite IH by (intros; apply H; right; assumption). reflexivity.
Qed.

Lemma msum_map f (g : Z -> Z) l : msum f (map g l) = msum (fun k => f (g k)) l.
Proof.
  induction l as [|a l IH]; cbn [msum fold_right map]; [reflexivity|].
  fold (msum f (map g l)). rewrite IH. reflexivity.
Qed.

Lemma msum_zero f l : (forall k, In k l -> f k = mzero) -> msum f l = mzero.
Proof.
  induction l as [|a l IH]; intros H; cbn [msum fold_right]; [reflexivity|].
  fold (msum f l). rewrite H by (left; reflexivity). rewrite mplus_0_l.
  apply IH. intros; apply H; right; assumption.
Qed.

Lemma msum_shift f a b k : msum (fun j => f (j + k)) (range a b) = msum f (range (a + k) (b + k)).
Proof.
  rewrite <- (msum_map f (fun j => j + k)). f_equal.
  unfold range. replace (b + k - (a + k)) with (b - a) by lia.
  generalize (Z.to_nat (b - a)). intros n. revert a.
  induction n as [|n IH]; intros a; cbn [range_nat map]; [reflexivity|].
  f_equal. replace (a + k + 1) with (a + 1 + k) by lia. apply IH.
Qed.

(* a sum over all residues is invariant under a cyclic shift *)
Lemma msum_cyclic D s G :
  0 < D -> 0 <= s < D ->
  msum G (range 0 D) = msum (fun j => G ((s + j) mod D)) (range 0 D).
Proof.
  intros HD Hs.
  assert (msum (fun j => G ((s + j) mod D)) (range 0 D) =
          mplus (msum G (range s D)) (msum G (range 0 s))) as Hr.
  { rewrite (range_split 0 (D - s) D) by lia. rewrite msum_app.
    rewrite (msum_ext (fun j => G ((s + j) mod D)) (fun j => G (j + s)) (range 0 (D - s))).
    2:{ intros k Hk. apply in_range in Hk. f_equal. rewrite Z.mod_small by lia. lia. }
    rewrite (msum_ext (fun j => G ((s + j) mod D)) (fun j => G (j + (s - D))) (range (D - s) D)).
    2:{ intros k Hk. apply in_range in Hk. f_equal. apply (mod_from_quot D _ 1); lia. }
    rewrite !msum_shift.
    replace (0 + s) with s by lia. replace (D - s + s) with D by lia.
    replace (D - s + (s - D)) with 0 by lia. replace (D + (s - D)) with s by lia. reflexivity. }
  rewrite Hr. rewrite (range_split 0 s D) by lia. rewrite msum_app. apply mplus_comm.
Qed.

(* the documented recipe (filters.py get_truncated_response, complex case):
     wrap = min(start + len, D) - start
     full[start : start + wrap] = trnc[:wrap];  full[: len - wrap] = trnc[wrap:]        *)
Definition rebuild (D start len : Z) (t : Z -> C) (k : Z) : C :=
  let wrap := Z.min (start + len) D - start in
  if (k <? len - wrap) then t (wrap + k)
  else if (start <=? k) && (k <? start + wrap) then t (k - start)
  else czero.

(* the same thing said with modular arithmetic *)
Lemma rebuild_mod D start len t j :
  0 < D -> 0 <= start < D -> 0 <= len <= D -> 0 <= j < D ->
  rebuild D start len t ((start + j) mod D) = if j <? len then t j else czero.
Proof.
  intros HD Hs Hl Hj. unfold rebuild. cbv zeta.
  destruct (Z_lt_ge_dec (start + j) D) as [Hlt|Hge].
  - rewrite Z.mod_small by lia.
    destruct (start + j <? len - (Z.min (start + len) D - start)) eqn:E1.
    + apply Z.ltb_lt in E1. lia.
    + destruct ((start <=? start + j) && (start + j <? start + (Z.min (start + len) D - start))) eqn:E2.
      * apply andb_true_iff in E2. destruct E2 as [_ E2]. apply Z.ltb_lt in E2.
        destruct (j <? len) eqn:E3; [f_equal; lia | apply Z.ltb_ge in E3; lia].
      * apply andb_false_iff in E2. destruct (j <? len) eqn:E3; [|reflexivity].
        apply Z.ltb_lt in E3. destruct E2 as [E2|E2]; [apply Z.leb_gt in E2 | apply Z.ltb_ge in E2]; lia.
  - rewrite (mod_from_quot D (start + j) 1 (start + j - D)) by lia.
    destruct (start + j - D <? len - (Z.min (start + len) D - start)) eqn:E1.
    + apply Z.ltb_lt in E1. destruct (j <? len) eqn:E3; [f_equal; lia | apply Z.ltb_ge in E3; lia].
    + apply Z.ltb_ge in E1.
      destruct ((start <=? start + j - D) && _) eqn:E2.
      * apply andb_true_iff in E2. destruct E2 as [E2 _]. apply Z.leb_le in E2. lia.
      * destruct (j <? len) eqn:E3; [apply Z.ltb_lt in E3; lia | reflexivity].
Qed.

Variable D : Z.
Variable X : Z -> C.         (* full spectrum *)
Hypothesis HD : 0 < D.
Hypothesis Hermitian : forall h, 1 <= h < D / 2 + 1 -> X (D - h) = cconj (X h).

(* value the code reads: half-spectrum entry, conjugated on mirrored segments *)
Definition Xeval (e : Z * bool) : C := if snd e then cconj (X (fst e)) else X (fst e).

Lemma Xeval_fullbin e : in_half D e -> Xeval e = X (fullbin D e).
Proof.
  intros [Hh Hc]. unfold Xeval, fullbin. destruct (snd e) eqn:E; [|reflexivity].
  symmetry. apply Hermitian. specialize (Hc eq_refl). lia.
Qed.

(* what _compute_frame accumulates for one filter (before the optional log) *)
Definition code_coeff (start len : Z) (t : Z -> C) : option M :=
  match walk D start len with
  | Some l => Some (fold_right (fun ej acc => mplus (phi (Xeval (fst ej)) (t (snd ej))) acc) mzero
                               (combine l (range 0 len)))
  | None => None
  end.

Lemma combine_sum (l : list (Z * bool)) (js : list Z) (g : Z -> Z) (t : Z -> C) :
  map (fullbin D) l = map g js -> Forall (in_half D) l ->
  fold_right (fun ej acc => mplus (phi (Xeval (fst ej)) (t (snd ej))) acc) mzero (combine l js) =
  msum (fun j => phi (X (g j)) (t j)) js.
Proof.
  revert js. induction l as [|e l IH]; intros js Hmap Hall; destruct js as [|j js]; try discriminate.
  - reflexivity.
  - cbn [map] in Hmap. inversion Hmap as [[He Hrest]]. inversion Hall as [|? ? Hin Hall']; subst.
    cbn [combine fold_right msum fst snd]. fold (msum (fun j0 => phi (X (g j0)) (t j0)) js).
    rewrite (IH js Hrest Hall'). rewrite Xeval_fullbin by exact Hin. rewrite He. reflexivity.
Qed.

Theorem coeff_full_spectrum_l start len t :
  0 <= start < D -> 0 <= len <= D ->
  code_coeff start len t =
  Some (msum (fun k => phi (X k) (rebuild D start len t k)) (range 0 D)).
Proof.
  intros Hs Hl. unfold code_coeff.
  destruct (walk_correct_l D start len HD ltac:(lia) ltac:(lia)) as (l & Hw & Hmap & Hall).
  rewrite Hw. f_equal.
  rewrite (combine_sum l (range 0 len) (fun j => (start + j) mod D) t Hmap Hall).
  rewrite (msum_cyclic D start (fun k => phi (X k) (rebuild D start len t k)) HD Hs).
  rewrite (range_split 0 len D) by lia. rewrite msum_app.
  rewrite (msum_zero _ (range len D)).
  2:{ intros k Hk. apply in_range in Hk. rewrite rebuild_mod by lia.
      destruct (k <? len) eqn:E; [apply Z.ltb_lt in E; lia | apply phi_zero]. }
  rewrite mplus_0_r. apply msum_ext. intros k Hk. apply in_range in Hk.
  rewrite rebuild_mod by lia. destruct (k <? len) eqn:E; [reflexivity | apply Z.ltb_ge in E; lia].
Qed.

(* the accumulated value as a sum over the taps *)
Theorem code_coeff_tap_sum_l start len t :
  0 <= start -> 0 <= len ->
  code_coeff start len t = Some (msum (fun j => phi (X ((start + j) mod D)) (t j)) (range 0 len)).
Proof.
  intros Hs Hl. unfold code_coeff.
  destruct (walk_correct_l D start len HD Hs Hl) as (l & Hw & Hmap & Hall).
  rewrite Hw. f_equal. apply (combine_sum l (range 0 len) (fun j => (start + j) mod D) t Hmap Hall).
Qed.

(* real banks never leave the first direct segment *)
Theorem real_code_coeff_l start len t :
  0 <= start -> 0 <= len -> start + len <= D / 2 + 1 ->
  code_coeff start len t = Some (msum (fun j => phi (X (start + j)) (t j)) (range 0 len)).
Proof.
  intros Hs Hl Hfit. rewrite code_coeff_tap_sum_l by assumption. f_equal.
  apply msum_ext. intros j Hj. apply in_range in Hj. f_equal. f_equal.
  apply Z.mod_small. assert (D / 2 + 1 <= D \/ D = 1) as [H|H] by (pose proof (Z.div_mod D 2 ltac:(lia)); pose proof (Z.mod_pos_bound D 2 ltac:(lia)); lia).
  - lia.
  - subst D. change (1 / 2) with 0 in Hfit. lia.
Qed.

(* ---- real banks: twice the half-spectrum sum ---- *)
Hypothesis phi_conj : forall x t, phi (cconj x) (cconj t) = phi x t.

Lemma msum_snoc f l k : msum f (l ++ [k]) = mplus (msum f l) (f k).
Proof. rewrite msum_app. cbn [msum fold_right]. rewrite mplus_0_r. reflexivity. Qed.

Lemma msum_rev_list f l : msum f (rev l) = msum f l.
Proof.
  induction l as [|x l IH]; [reflexivity|].
  cbn [rev]. rewrite msum_snoc, IH. cbn [msum fold_right]. apply mplus_comm.
Qed.

Lemma range_nat_succ_shift (m : nat) : forall b, range_nat (b + 1) m = map (fun j => j + 1) (range_nat b m).
Proof. induction m as [|m IHm]; intros b; cbn [range_nat map]; [reflexivity|]. f_equal. apply IHm. Qed.

Lemma rev_range_nat (n : nat) : forall a,
  rev (range_nat a n) = map (fun i => 2 * a + Z.of_nat n - 1 - i) (range_nat a n).
Proof.
  induction n as [|n IH]; intros a; [reflexivity|].
  replace (Datatypes.S n) with (n + 1)%nat at 1 by lia.
  rewrite range_nat_app. cbn [range_nat]. rewrite rev_app_distr. cbn [rev app].
  rewrite IH. cbn [map]. f_equal; [lia|].
  rewrite range_nat_succ_shift, map_map. apply map_ext. intros j. lia.
Qed.

Lemma msum_rev_nat f (n : nat) : forall a,
  msum f (range_nat a n) = msum (fun i => f (2 * a + Z.of_nat n - 1 - i)) (range_nat a n).
Proof.
  intros a. rewrite <- (msum_rev_list f (range_nat a n)). rewrite rev_range_nat, msum_map. reflexivity.
Qed.

Lemma msum_rev f a b : a <= b ->
  msum f (range a b) = msum (fun i => f (a + b - 1 - i)) (range a b).
Proof.
  intros H. unfold range. rewrite msum_rev_nat. apply msum_ext. intros k _. f_equal. lia.
Qed.

(* the documented recipe for real banks (get_truncated_response docstring):
     full[start : start+len] = trnc
     full[D - start - len + 1 : D - start + 1] = trnc[:None if start else 0:-1].conj()   (assigned last) *)
Definition rebuild_real (start len : Z) (t : Z -> C) (k : Z) : C :=
  let m0 := if start =? 0 then 1 else 0 in
  let m := D - start - k in
  if (m0 <=? m) && (m <? len) then cconj (t m)
  else if (start <=? k) && (k <? start + len) then t (k - start)
  else czero.

Lemma taps_to_bins start len t :
  msum (fun j => phi (X (start + j)) (t j)) (range 0 len) =
  msum (fun k => phi (X k) (t (k - start))) (range start (len + start)).
Proof.
  replace (range start (len + start)) with (range (0 + start) (len + start)) by (f_equal; lia).
  rewrite <- (msum_shift (fun k => phi (X k) (t (k - start))) 0 len start).
  apply msum_ext. intros j _. f_equal; f_equal; lia.
Qed.

Theorem real_coeff_is_twice_half_l start len t :
  0 <= start -> 0 <= len -> start + len <= D / 2 + 1 ->
  (* the DC and Nyquist taps contribute nothing (true of triangular / Fbank filters,
     whose response vanishes at 0 Hz and at the Nyquist frequency) *)
  (start = 0 -> 0 < len -> forall x, phi x (t 0) = mzero) ->
  (D mod 2 = 0 -> start <= D / 2 < start + len -> forall x, phi x (t (D / 2 - start)) = mzero) ->
  let S := msum (fun j => phi (X (start + j)) (t j)) (range 0 len) in
  mplus S S = msum (fun k => phi (X k) (rebuild_real start len t k)) (range 0 D).
Proof.
  intros Hs Hl Hfit Hdc Hny S.
  destruct (Z.eq_dec len 0) as [Hlen0|Hlen0].
  { subst len. unfold S. rewrite range_empty by lia. cbn [msum fold_right]. rewrite mplus_0_l.
    symmetry. apply msum_zero. intros k Hk. unfold rebuild_real. cbv zeta.
    destruct (((if start =? 0 then 1 else 0) <=? D - start - k) && (D - start - k <? 0)) eqn:E1.
    { apply andb_true_iff in E1. destruct E1 as [A B]. apply Z.leb_le in A. apply Z.ltb_lt in B.
      destruct (start =? 0); lia. }
    destruct ((start <=? k) && (k <? start + 0)) eqn:E2.
    { apply andb_true_iff in E2. destruct E2 as [A B]. apply Z.leb_le in A. apply Z.ltb_lt in B. lia. }
    apply phi_zero. }
  assert (0 < len) as Hlpos by lia.
  set (c := D - D / 2).
  assert (D / 2 <= c <= D / 2 + 1) as Hc by (unfold c; lia).
  assert (0 <= D / 2) as Hh by (apply Z.div_pos; lia).
  rewrite (range_split 0 c D) by (unfold c; lia). rewrite msum_app. f_equal.
  - (* lower part: bins 0 .. c-1 carry the taps themselves *)
    transitivity (msum (fun k => if (start <=? k) && (k <? start + len) then phi (X k) (t (k - start)) else mzero) (range 0 c)).
    + (* S, shifted to bin coordinates *)
      unfold S. rewrite taps_to_bins.
      destruct (Z_le_gt_dec (start + len) c) as [Hin|Hout].
      * (* all taps below c *)
        destruct (Z_le_gt_dec start c) as [Hsc|Hsc].
        -- rewrite (range_split 0 start c) by lia. rewrite msum_app.
           rewrite (msum_zero _ (range 0 start)).
           2:{ intros k Hk. apply in_range in Hk. destruct (start <=? k) eqn:E; [apply Z.leb_le in E; lia | reflexivity]. }
           rewrite mplus_0_l.
           rewrite (range_split start (len + start) c) by lia. rewrite msum_app.
           rewrite (msum_zero _ (range (len + start) c)).
           2:{ intros k Hk. apply in_range in Hk. destruct (k <? start + len) eqn:E; [apply Z.ltb_lt in E; lia | rewrite andb_false_r; reflexivity]. }
           rewrite mplus_0_r. apply msum_ext. intros k Hk. apply in_range in Hk.
           destruct (start <=? k) eqn:E1; [|apply Z.leb_gt in E1; lia].
           destruct (k <? start + len) eqn:E2; [reflexivity | apply Z.ltb_ge in E2; lia].
        -- assert (len = 0) by lia. subst len. rewrite range_empty by lia. cbn [msum fold_right].
           symmetry. apply msum_zero. intros k Hk. apply in_range in Hk.
           destruct (start <=? k) eqn:E; [apply Z.leb_le in E; lia | reflexivity].
      * (* the last tap sits on the Nyquist bin D/2 = c (D even) and contributes nothing *)
        assert (D mod 2 = 0 /\ start + len = D / 2 + 1 /\ c = D / 2) as (Hev & Hlen & Hcc).
        { unfold c in *. pose proof (Z.div_mod D 2 ltac:(lia)). pose proof (Z.mod_pos_bound D 2 ltac:(lia)). lia. }
        rewrite (range_split start c (len + start)) by lia. rewrite msum_app.
        replace (len + start) with (c + 1) by lia. rewrite (range_cons c) by lia. rewrite (range_empty (c + 1)) by lia.
        cbn [msum fold_right]. rewrite mplus_0_r.
        replace (c - start) with (D / 2 - start) by lia. rewrite Hny by lia. rewrite mplus_0_r.
        rewrite (range_split 0 start c) by lia. rewrite msum_app.
        rewrite (msum_zero _ (range 0 start)).
        2:{ intros k Hk. apply in_range in Hk. destruct (start <=? k) eqn:E; [apply Z.leb_le in E; lia | reflexivity]. }
        rewrite mplus_0_l. apply msum_ext. intros k Hk. apply in_range in Hk.
        destruct (start <=? k) eqn:E1; [|apply Z.leb_gt in E1; lia].
        destruct (k <? start + len) eqn:E2; [reflexivity | apply Z.ltb_ge in E2; lia].
    + apply msum_ext. intros k Hk. apply in_range in Hk. unfold rebuild_real. cbv zeta.
      destruct ((if start =? 0 then 1 else 0) <=? D - start - k) eqn:E1;
        destruct (D - start - k <? len) eqn:E2; cbn [andb].
      * apply Z.ltb_lt in E2. unfold c in *. lia.
      * destruct ((start <=? k) && (k <? start + len)); [reflexivity | symmetry; apply phi_zero].
      * destruct ((start <=? k) && (k <? start + len)); [reflexivity | symmetry; apply phi_zero].
      * destruct ((start <=? k) && (k <? start + len)); [reflexivity | symmetry; apply phi_zero].
  - (* upper part: bins c .. D-1 carry the conjugated taps, mirrored *)
    rewrite (msum_rev _ c D) by (unfold c; lia).
    (* bin c + D - 1 - i =: D - h with h = i - c + 1 in [1, D - c] *)
    transitivity (msum (fun h => if (start <=? h) && (h <? start + len) then phi (X h) (t (h - start)) else mzero) (range 1 (D - c + 1))).
    + unfold S. rewrite taps_to_bins.
      assert (D - c = D / 2) as Hdc2 by (unfold c; lia). rewrite Hdc2.
      destruct (Z.eq_dec start 0) as [->|Hs0].
      * (* the DC tap contributes nothing *)
        rewrite (range_cons 0) by lia. cbn [msum fold_right].
        replace (0 - 0) with 0 by lia. rewrite (Hdc eq_refl ltac:(lia)). rewrite mplus_0_l.
        fold (msum (fun k => phi (X k) (t (k - 0))) (range (0 + 1) (len + 0))).
        replace (0 + 1) with 1 by lia. replace (len + 0) with len by lia.
        rewrite (range_split 1 len (D / 2 + 1)) by lia. rewrite msum_app.
        rewrite (msum_zero _ (range len (D / 2 + 1))).
        2:{ intros k Hk. apply in_range in Hk. destruct (k <? 0 + len) eqn:E; [apply Z.ltb_lt in E; lia | rewrite andb_false_r; reflexivity]. }
        rewrite mplus_0_r. apply msum_ext. intros k Hk. apply in_range in Hk.
        destruct (0 <=? k) eqn:E1; [|apply Z.leb_gt in E1; lia].
        destruct (k <? 0 + len) eqn:E2; [reflexivity | apply Z.ltb_ge in E2; lia].
      * rewrite (range_split 1 start (D / 2 + 1)) by lia. rewrite msum_app.
        rewrite (msum_zero _ (range 1 start)).
        2:{ intros k Hk. apply in_range in Hk. destruct (start <=? k) eqn:E; [apply Z.leb_le in E; lia | reflexivity]. }
        rewrite mplus_0_l.
        rewrite (range_split start (len + start) (D / 2 + 1)) by lia. rewrite msum_app.
        rewrite (msum_zero _ (range (len + start) (D / 2 + 1))).
        2:{ intros k Hk. apply in_range in Hk. destruct (k <? start + len) eqn:E; [apply Z.ltb_lt in E; lia | rewrite andb_false_r; reflexivity]. }
        rewrite mplus_0_r. apply msum_ext. intros k Hk. apply in_range in Hk.
        destruct (start <=? k) eqn:E1; [|apply Z.leb_gt in E1; lia].
        destruct (k <? start + len) eqn:E2; [reflexivity | apply Z.ltb_ge in E2; lia].
    + (* re-index h = i - c + 1 *)
      replace (range 1 (D - c + 1)) with (range (c + (1 - c)) (D + (1 - c))) by (f_equal; lia).
      rewrite <- (msum_shift (fun h => if (start <=? h) && (h <? start + len) then phi (X h) (t (h - start)) else mzero) c D (1 - c)).
      apply msum_ext. intros i Hi. apply in_range in Hi. cbv beta.
      set (h := i + (1 - c)).
      replace (c + D - 1 - i) with (D - h) by (unfold h; lia).
      assert (1 <= h <= D - c) as Hhr by (unfold h; lia).
      unfold rebuild_real. cbv zeta. replace (D - start - (D - h)) with (h - start) by lia.
      destruct (start =? 0) eqn:Es0.
      * apply Z.eqb_eq in Es0. subst start.
        replace (h - 0) with h by lia.
        destruct (1 <=? h) eqn:E1; [|apply Z.leb_gt in E1; lia].
        destruct (0 <=? h) eqn:E0; [|apply Z.leb_gt in E0; lia].
        replace (0 + len) with len by lia.
        destruct (h <? len) eqn:E2; cbn [andb].
        -- rewrite Hermitian by (unfold c in *; lia). rewrite phi_conj. reflexivity.
        -- destruct ((0 <=? D - h) && (D - h <? len)) eqn:E3; [|symmetry; apply phi_zero].
           apply andb_true_iff in E3. destruct E3 as [_ E3]. apply Z.ltb_lt in E3. apply Z.ltb_ge in E2.
           unfold c in *. lia.
      * apply Z.eqb_neq in Es0.
        destruct (0 <=? h - start) eqn:E1; destruct (h - start <? len) eqn:E2; cbn [andb].
        -- apply Z.leb_le in E1. apply Z.ltb_lt in E2.
           destruct (start <=? h) eqn:E3; [|apply Z.leb_gt in E3; lia].
           destruct (h <? start + len) eqn:E4; [|apply Z.ltb_ge in E4; lia]. cbn [andb].
           rewrite Hermitian by (unfold c in *; lia). rewrite phi_conj. reflexivity.
        -- apply Z.ltb_ge in E2.
           destruct (h <? start + len) eqn:E4; [apply Z.ltb_lt in E4; lia|]. rewrite andb_false_r.
           destruct ((start <=? D - h) && (D - h <? start + len)) eqn:E3; [|symmetry; apply phi_zero].
           apply andb_true_iff in E3. destruct E3 as [_ E3]. apply Z.ltb_lt in E3. unfold c in *. lia.
        -- apply Z.leb_gt in E1.
           destruct (start <=? h) eqn:E3; [apply Z.leb_le in E3; lia|]. cbn [andb].
           destruct ((start <=? D - h) && (D - h <? start + len)) eqn:E4; [|symmetry; apply phi_zero].
           apply andb_true_iff in E4. destruct E4 as [E4 E5]. apply Z.leb_le in E4. apply Z.ltb_lt in E5.
           unfold c in *. lia.
        -- apply Z.leb_gt in E1.
           destruct (start <=? h) eqn:E3; [apply Z.leb_le in E3; lia|]. cbn [andb].
           destruct ((start <=? D - h) && (D - h <? start + len)) eqn:E4; [|symmetry; apply phi_zero].
           apply andb_true_iff in E4. destruct E4 as [E4 E5]. apply Z.leb_le in E4. apply Z.ltb_lt in E5.
           unfold c in *. lia.
Qed.

End Spectrum.
