(* C02, spectral part: what the segment walk adds up equals the documented
   definition - the sum over the FULL DFT spectrum of phi(X[k] * H[k]) with H rebuilt
   from the truncated response by the documented recipe.
   Abstract setting: spectrum values in a type C with a conjugation, contributions
   phi x t in a commutative monoid (M, +, 0) (e.g. |x t| or |x t|^2 in R), phi x 0 = 0.
   The DFT itself is not modelled: X is any function on bins 0..D-1 that is
   Hermitian-symmetric (X (D - h) = conj (X h)), which is what rfft of a real frame
   relies on; the half spectrum is X restricted to 0..D/2. *)
From Coq Require Import ZArith List Bool Lia.
From Verif Require Import lib.ZList Stft.Walk.
Import ListNotations.
Open Scope Z_scope.

Section Spectrum.
Variables (C M : Type).
Variable czero : C.
Variable cconj : C -> C.
Variable mzero : M.
Variable mplus : M -> M -> M.
Variable phi : C -> C -> M.   (* contribution of spectrum value x and filter tap t *)
Hypothesis mplus_comm : forall a b, mplus a b = mplus b a.
Hypothesis mplus_assoc : forall a b c, mplus a (mplus b c) = mplus (mplus a b) c.
Hypothesis mplus_0_l : forall a, mplus mzero a = a.
Hypothesis phi_zero : forall x, phi x czero = mzero.

Definition msum (f : Z -> M) (l : list Z) : M := fold_right (fun k acc => mplus (f k) acc) mzero l.

Lemma mplus_0_r a : mplus a mzero = a.
Proof. rewrite mplus_comm. apply mplus_0_l. Qed.

Lemma msum_app f l m : msum f (l ++ m) = mplus (msum f l) (msum f m).
Proof.
  induction l as [|a l IH]; cbn [msum fold_right app].
  - rewrite mplus_0_l. reflexivity.
  - fold (msum f (l ++ m)). fold (msum f l). rewrite IH. apply mplus_assoc.
Qed.

Lemma msum_ext f g l : (forall k, In k l -> f k = g k) -> msum f l = msum g l.
Proof.
  induction l as [|a l IH]; intros H; cbn [msum fold_right]; [reflexivity|].
  fold (msum f l). fold (msum g l). rewrite H by (left; reflexivity).
  rewrite IH by (intros; apply H; right; assumption). reflexivity.
Qed.

Lemma msum_map f (g : Z -> Z) l : msum f (map g l) = msum (fun k => f (g k)) l.
Proof.
  induction l as [|a l IH]; cbn [msum fold_right map]; [reflexivity|].
  fold (msum f (map g l)). rewrite IH. reflexivity.
Qed.

Lemma msum_zero f l : (forall k, In k l -> f k = mzero) -> msum f l = mzero.
Proof.
  induction l as [|a l IH]; intros H; cbn [msum fold_right]; [reflexivity|].
  fold (msum f l). rewrite H by (left; reflexivity). rewrite mplus_0_l.
  apply IH. intros; apply H; right; assumption.
Qed.

Lemma msum_shift f a b k : msum (fun j => f (j + k)) (range a b) = msum f (range (a + k) (b + k)).
Proof.
  rewrite <- (msum_map f (fun j => j + k)). f_equal.
  unfold range. replace (b + k - (a + k)) with (b - a) by lia.
  generalize (Z.to_nat (b - a)). intros n. revert a.
  induction n as [|n IH]; intros a; cbn [range_nat map]; [reflexivity|].
  f_equal. replace (a + k + 1) with (a + 1 + k) by lia. apply IH.
Qed.

(* a sum over all residues is invariant under a cyclic shift *)
Lemma msum_cyclic D s G :
  0 < D -> 0 <= s < D ->
  msum G (range 0 D) = msum (fun j => G ((s + j) mod D)) (range 0 D).
Proof.
  intros HD Hs.
  assert (msum (fun j => G ((s + j) mod D)) (range 0 D) =
          mplus (msum G (range s D)) (msum G (range 0 s))) as Hr.
  { rewrite (range_split 0 (D - s) D) by lia. rewrite msum_app.
    rewrite (msum_ext (fun j => G ((s + j) mod D)) (fun j => G (j + s)) (range 0 (D - s))).
    2:{ intros k Hk. apply in_range in Hk. f_equal. rewrite Z.mod_small by lia. lia. }
    rewrite (msum_ext (fun j => G ((s + j) mod D)) (fun j => G (j + (s - D))) (range (D - s) D)).
    2:{ intros k Hk. apply in_range in Hk. f_equal. apply (mod_from_quot D _ 1); lia. }
    rewrite !msum_shift.
    replace (0 + s) with s by lia. replace (D - s + s) with D by lia.
    replace (D - s + (s - D)) with 0 by lia. replace (D + (s - D)) with s by lia. reflexivity. }
  rewrite Hr. rewrite (range_split 0 s D) by lia. rewrite msum_app. apply mplus_comm.
Qed.

(* the documented recipe (filters.py get_truncated_response, complex case):
     wrap = min(start + len, D) - start
     full[start : start + wrap] = trnc[:wrap];  full[: len - wrap] = trnc[wrap:]        *)
Definition rebuild (D start len : Z) (t : Z -> C) (k : Z) : C :=
  let wrap := Z.min (start + len) D - start in
  if (k <? len - wrap) then t (wrap + k)
  else if (start <=? k) && (k <? start + wrap) then t (k - start)
  else czero.

(* the same thing said with modular arithmetic *)
Lemma rebuild_mod D start len t j :
  0 < D -> 0 <= start < D -> 0 <= len <= D -> 0 <= j < D ->
  rebuild D start len t ((start + j) mod D) = if j <? len then t j else czero.
Proof.
  intros HD Hs Hl Hj. unfold rebuild. cbv zeta.
  destruct (Z_lt_ge_dec (start + j) D) as [Hlt|Hge].
  - rewrite Z.mod_small by lia.
    destruct (start + j <? len - (Z.min (start + len) D - start)) eqn:E1.
    + apply Z.ltb_lt in E1. lia.
    + destruct ((start <=? start + j) && (start + j <? start + (Z.min (start + len) D - start))) eqn:E2.
      * apply andb_true_iff in E2. destruct E2 as [_ E2]. apply Z.ltb_lt in E2.
        destruct (j <? len) eqn:E3; [f_equal; lia | apply Z.ltb_ge in E3; lia].
      * apply andb_false_iff in E2. destruct (j <? len) eqn:E3; [|reflexivity].
        apply Z.ltb_lt in E3. destruct E2 as [E2|E2]; [apply Z.leb_gt in E2 | apply Z.ltb_ge in E2]; lia.
  - rewrite (mod_from_quot D (start + j) 1 (start + j - D)) by lia.
    destruct (start + j - D <? len - (Z.min (start + len) D - start)) eqn:E1.
    + apply Z.ltb_lt in E1. destruct (j <? len) eqn:E3; [f_equal; lia | apply Z.ltb_ge in E3; lia].
    + apply Z.ltb_ge in E1.
      destruct ((start <=? start + j - D) && _) eqn:E2.
      * apply andb_true_iff in E2. destruct E2 as [E2 _]. apply Z.leb_le in E2. lia.
      * destruct (j <? len) eqn:E3; [apply Z.ltb_lt in E3; lia | reflexivity].
Qed.

Variable D : Z.
Variable X : Z -> C.         (* full spectrum *)
Hypothesis HD : 0 < D.
Hypothesis Hermitian : forall h, 1 <= h < D / 2 + 1 -> X (D - h) = cconj (X h).

(* value the code reads: half-spectrum entry, conjugated on mirrored segments *)
Definition Xeval (e : Z * bool) : C := if snd e then cconj (X (fst e)) else X (fst e).

Lemma Xeval_fullbin e : in_half D e -> Xeval e = X (fullbin D e).
Proof.
  intros [Hh Hc]. unfold Xeval, fullbin. destruct (snd e) eqn:E; [|reflexivity].
  symmetry. apply Hermitian. specialize (Hc eq_refl). lia.
Qed.

(* what _compute_frame accumulates for one filter (before the optional log) *)
Definition code_coeff (start len : Z) (t : Z -> C) : option M :=
  match walk D start len with
  | Some l => Some (fold_right (fun ej acc => mplus (phi (Xeval (fst ej)) (t (snd ej))) acc) mzero
                               (combine l (range 0 len)))
  | None => None
  end.

Lemma combine_sum (l : list (Z * bool)) (js : list Z) (g : Z -> Z) (t : Z -> C) :
  map (fullbin D) l = map g js -> Forall (in_half D) l ->
  fold_right (fun ej acc => mplus (phi (Xeval (fst ej)) (t (snd ej))) acc) mzero (combine l js) =
  msum (fun j => phi (X (g j)) (t j)) js.
Proof.
  revert js. induction l as [|e l IH]; intros js Hmap Hall; destruct js as [|j js]; try discriminate.
  - reflexivity.
  - cbn [map] in Hmap. inversion Hmap as [[He Hrest]]. inversion Hall as [|? ? Hin Hall']; subst.
    cbn [combine fold_right msum fst snd]. fold (msum (fun j0 => phi (X (g j0)) (t j0)) js).
    rewrite (IH js Hrest Hall'). rewrite Xeval_fullbin by exact Hin. rewrite He. reflexivity.
Qed.

Theorem coeff_full_spectrum_l start len t :
  0 <= start < D -> 0 <= len <= D ->
  code_coeff start len t =
  Some (msum (fun k => phi (X k) (rebuild D start len t k)) (range 0 D)).
Proof.
  intros Hs Hl. unfold code_coeff.
  destruct (walk_correct_l D start len HD ltac:(lia) ltac:(lia)) as (l & Hw & Hmap & Hall).
  rewrite Hw. f_equal.
  rewrite (combine_sum l (range 0 len) (fun j => (start + j) mod D) t Hmap Hall).
  rewrite (msum_cyclic D start (fun k => phi (X k) (rebuild D start len t k)) HD Hs).
  rewrite (range_split 0 len D) by lia. rewrite msum_app.
  rewrite (msum_zero _ (range len D)).
  2:{ intros k Hk. apply in_range in Hk. rewrite rebuild_mod by lia.
      destruct (k <? len) eqn:E; [apply Z.ltb_lt in E; lia | apply phi_zero]. }
  rewrite mplus_0_r. apply msum_ext. intros k Hk. apply in_range in Hk.
  rewrite rebuild_mod by lia. destruct (k <? len) eqn:E; [reflexivity | apply Z.ltb_ge in E; lia].
Qed.

End Spectrum.
