(* Main refinement: streaming (compute_chunk* ; finalize) = compute_full, for every
   chunking, every signal length, every 0 < S <= L, all three framing styles. *)
From Coq Require Import ZArith List Bool Lia.
From Verif Require Import lib.ZList Stft.Model Stft.Lemmas.
Import ListNotations.
Open Scope Z_scope.

Ltac Zify.zify_post_hook ::= Z.to_euclidean_division_equations.

Section Stream.
Context {A : Type}.
Variable c : cfg.
Hypothesis HS : 0 < S c.
Hypothesis HL : S c <= L c.

Definition pl : Z := pad_left c.
Definition FL0 : Z := if centered c then first_len c else L c.
Definition half : Z := L c / 2 + 1.
(* number of samples that must have arrived before the first frame is emitted *)
Definition T : Z := if centered c then Z.max FL0 half else L c.

Lemma pl_nonneg : 0 <= pl.
Proof. unfold pl, pad_left. destruct (centered c), (kaldi c); lia. Qed.

Lemma FL0_eq : FL0 = L c - pl.
Proof. unfold FL0, pl, pad_left, first_len. destruct (centered c), (kaldi c); lia. Qed.

Lemma pl_le_FL0 : pl <= FL0.
Proof. unfold FL0, pl, pad_left, first_len. destruct (centered c), (kaldi c); lia. Qed.

Lemma T_bounds : FL0 <= T /\ T <= FL0 + 1 /\ T <= L c /\ half <= T /\ 1 <= T.
Proof.
  unfold T, FL0, half, first_len. destruct (centered c), (kaldi c); lia.
Qed.

Lemma div_bounds a : S c * (a / S c) <= a < S c * (a / S c) + S c.
Proof.
  pose proof (Z.div_mod a (S c)) as H1. pose proof (Z.mod_pos_bound a (S c) HS) as H2.
  assert (S c <> 0) as H0 by lia. specialize (H1 H0). lia.
Qed.

Lemma div_add_mul a k : (a + k * S c) / S c = a / S c + k.
Proof. apply Z.div_add; lia. Qed.

Definition V (x : list A) : list A := rev (take pl x) ++ x.
Definition K (n : Z) : Z := (pl + n - L c) / S c + 1.
Definition fr (W : list A) (k : Z) : list A := slice W (k * S c) (k * S c + L c).
Definition E (x : list A) : list (list A) :=
  if len x <? T then [] else map (fr (V x)) (range 0 (K (len x))).

Lemma len_V x : pl <= len x -> len (V x) = pl + len x.
Proof.
  intros H. unfold V. rewrite len_app, len_rev, len_take.
  pose proof pl_nonneg. lia.
Qed.

Lemma V_app x ch : pl <= len x -> V (x ++ ch) = V x ++ ch.
Proof.
  intros H. unfold V. rewrite take_app_le by lia. rewrite app_assoc. reflexivity.
Qed.

Lemma K_bounds n : T <= n ->
  1 <= K n /\ L c - S c <= pl + n - K n * S c < L c /\ (K n - 1) * S c + L c <= pl + n.
Proof.
  intros Hn. unfold K. pose proof (div_bounds (pl + n - L c)) as Hd.
  pose proof T_bounds as HT. pose proof FL0_eq as HF.
  assert (0 <= (pl + n - L c) / S c) by (apply Z.div_pos; lia).
  lia.
Qed.

Definition Inv (s : st A) (x : list A) : Prop :=
  len (buf s) = L c /\
  ((first s = true /\ buf_len s = len x /\ hist_len s = len x /\ len x < T /\
    lastn (len x) (buf s) = x)
   \/
   (first s = false /\ T <= len x /\ buf_len s = pl + len x - K (len x) * S c /\
    hist_len s = L c /\ buf s = lastn (L c) (V x))).

(* frames read off a suffix of the virtual signal *)
Lemma frames_suffix (W : list A) k n :
  0 <= k -> 0 <= n ->
  map (fun i => slice (drop (k * S c) W) (i * S c) (i * S c + L c)) (range 0 n) =
  map (fr W) (range k (k + n)).
Proof.
  intros Hk Hn.
  replace (range k (k + n)) with (range (0 + k) (n + k)) by (f_equal; lia).
  rewrite map_range_shift. apply map_ext_range. intros i Hi. unfold fr.
  rewrite slice_drop by nia. f_equal; nia.
Qed.

Lemma fr_app_l (W : list A) ch k :
  0 <= k -> k * S c + L c <= len W -> fr (W ++ ch) k = fr W k.
Proof. intros Hk H. unfold fr. apply slice_app_l; nia. Qed.

Lemma first_frame_is_take (W : list A) : L c <= len W -> fr W 0 = take (L c) W.
Proof.
  intros H. unfold fr. rewrite slice_nonneg by lia. simpl.
  rewrite drop_nonpos by lia. f_equal. lia.
Qed.


(* ---- frames and buffer when the state holds a suffix of a virtual signal W ---- *)
Lemma suffix_frames (bf W ch : list A) bl h k0 :
  len bf = L c -> 0 <= bl <= h -> h <= L c -> h <= len W ->
  lastn h bf = lastn h W -> len W = k0 * S c + bl -> 0 <= k0 ->
  forall i, 0 <= i -> get_frame bf bl ch (L c) (i * S c) = fr (W ++ ch) (k0 + i).
Proof.
  intros Hbf Hbl Hh HhW Hlast HlenW Hk0 i Hi.
  rewrite get_frame_spec by nia.
  assert (lastn bl bf = drop (k0 * S c) W) as Hrem.
  { rewrite <- (lastn_lastn bl h bf) by lia. rewrite Hlast.
    rewrite lastn_lastn by lia. unfold lastn. f_equal. lia. }
  rewrite Hrem.
  rewrite <- drop_app_le by nia.
  unfold fr. rewrite slice_drop by nia. f_equal; nia.
Qed.

Lemma new_buf (bf W ch : list A) h :
  len bf = L c -> 0 <= h <= L c -> h <= len W -> lastn h bf = lastn h W ->
  L c <= h + len ch -> shift_in c bf ch = lastn (L c) (W ++ ch).
Proof.
  intros Hbf Hh HhW Hlast Hcl.
  rewrite shift_in_spec by exact Hbf.
  rewrite (lastn_stale h bf (lastn h W) ch) by (try exact Hlast; lia).
  rewrite (lastn_stale h W (lastn h W) ch) by (try reflexivity; lia).
  reflexivity.
Qed.

Lemma E_small x : len x < T -> E x = [].
Proof. intros H. unfold E. destruct (len x <? T) eqn:E1; [reflexivity | lia]. Qed.

Lemma E_big x : T <= len x -> E x = map (fr (V x)) (range 0 (K (len x))).
Proof. intros H. unfold E. destruct (len x <? T) eqn:E1; [lia | reflexivity]. Qed.

(* the state after a chunk that completes no frame while none was emitted yet *)
Lemma noframe_buf (bf x ch : list A) :
  len bf = L c -> lastn (len x) bf = x -> len x + len ch < T ->
  lastn (len x + len ch) (shift_in c bf ch) = x ++ ch.
Proof.
  intros Hbf Hx HT. pose proof T_bounds as HTb. pose proof (len_nonneg x). pose proof (len_nonneg ch).
  rewrite shift_in_spec by exact Hbf.
  rewrite lastn_lastn by (rewrite ?len_app; lia).
  rewrite (lastn_stale (len x) bf x ch) by (try exact Hx; lia).
  apply lastn_all. rewrite len_app. lia.
Qed.


Lemma noframe_state (bf x ch : list A) b :
  len bf = L c -> lastn (len x) bf = x -> len x + len ch < T ->
  Inv {| buf := shift_in c bf ch; buf_len := len ch + len x;
         hist_len := Z.min (L c) (len x + len ch); first := true; started := b |} (x ++ ch).
Proof.
  intros Hbf Hx HT. pose proof T_bounds as HTb.
  pose proof (len_nonneg x). pose proof (len_nonneg ch).
  unfold Inv; cbn [buf buf_len hist_len first]. rewrite len_app.
  split; [apply len_shift_in; lia|]. left.
  repeat split; try lia. apply noframe_buf; assumption.
Qed.

(* the first centred frame: the buffer becomes the first L samples of the virtual signal *)
Lemma first_centered (bf x ch : list A) :
  len bf = L c -> lastn (len x) bf = x -> len x < T -> FL0 <= len x + len ch ->
  let x' := x ++ ch in
  let bf1 := sympad (get_frame bf (len x) ch FL0 0) pl 0 in
  let chunk1 := slice_from ch (FL0 - len x) in
  bf1 = take (L c) (V x') /\ V x' = bf1 ++ chunk1 /\ len bf1 = L c /\
  len chunk1 = len ch - (FL0 - len x).
Proof.
  intros Hbf Hx HN Hfl x' bf1 chunk1.
  pose proof T_bounds as HTb. pose proof FL0_eq as HF. pose proof pl_nonneg as Hpl.
  pose proof pl_le_FL0 as HplF.
  pose proof (len_nonneg x) as Hx0. pose proof (len_nonneg ch) as Hc0.
  assert (len x' = len x + len ch) as Hx' by apply len_app.
  assert (get_frame bf (len x) ch FL0 0 = take FL0 x') as Hfr0.
  { rewrite get_frame_spec by lia. rewrite Hx. rewrite slice_nonneg by lia.
    rewrite drop_nonpos by lia. f_equal. lia. }
  assert (bf1 = rev (take pl x') ++ take FL0 x') as Hbf1.
  { unfold bf1. rewrite Hfr0. rewrite sympad_left_only by (rewrite len_take; lia).
    rewrite take_take. replace (Z.min pl FL0) with pl by lia. reflexivity. }
  assert (chunk1 = drop FL0 x') as Hch1.
  { unfold chunk1, x'. rewrite slice_from_nonneg by lia. rewrite drop_app_ge by lia. reflexivity. }
  assert (len (rev (take pl x')) = pl) as Hlr by (rewrite len_rev, len_take; lia).
  repeat split.
  - rewrite Hbf1. unfold V. rewrite take_app_ge by lia. rewrite Hlr. f_equal. f_equal. lia.
  - rewrite Hbf1, Hch1. unfold V. rewrite <- app_assoc. rewrite take_drop_id. reflexivity.
  - rewrite Hbf1, len_app, Hlr, len_take. lia.
  - rewrite Hch1, len_drop. lia.
Qed.

Lemma suffix_step (bf W ch : list A) bl h k0 :
  len bf = L c -> 0 <= bl <= h -> h <= L c -> h <= len W ->
  lastn h bf = lastn h W -> len W = k0 * S c + bl -> 0 <= k0 ->
  forall nf,
  map (fun i => get_frame bf bl ch (L c) (i * S c)) (range 0 nf) =
  map (fr (W ++ ch)) (range k0 (k0 + nf)).
Proof.
  intros Hbf Hbl Hh HhW Hlast HlenW Hk0 nf.
  replace (range k0 (k0 + nf)) with (range (0 + k0) (nf + k0)) by (f_equal; lia).
  rewrite map_range_shift. apply map_ext_range. intros i Hi.
  replace (i + k0) with (k0 + i) by lia.
  apply (suffix_frames bf W ch bl h k0); try assumption; lia.
Qed.

Lemma E_extend x ch nf :
  T <= len x -> 0 <= nf -> K (len x + len ch) = K (len x) + nf ->
  E (x ++ ch) = E x ++ map (fr (V x ++ ch)) (range (K (len x)) (K (len x) + nf)).
Proof.
  intros HT Hnf HK. pose proof T_bounds as HTb. pose proof pl_le_FL0 as HplF.
  pose proof (len_nonneg ch) as Hc0. pose proof (K_bounds (len x) HT) as HKb.
  rewrite E_big by (rewrite len_app; lia). rewrite E_big by exact HT.
  rewrite len_app, HK. rewrite V_app by lia.
  rewrite (range_split 0 (K (len x)) (K (len x) + nf)) by lia. rewrite map_app. f_equal.
  apply map_ext_range. intros k Hk. apply fr_app_l; [lia|].
  rewrite len_V by lia. nia.
Qed.

Lemma chunk_step s x ch :
  Inv s x ->
  Inv (fst (compute_chunk c s ch)) (x ++ ch) /\
  E (x ++ ch) = E x ++ snd (compute_chunk c s ch).
Proof.
  intros [Hlen HI].
  pose proof T_bounds as HTb. pose proof FL0_eq as HF. pose proof pl_nonneg as Hpl.
  pose proof pl_le_FL0 as HplF.
  pose proof (len_nonneg x) as Hx0. pose proof (len_nonneg ch) as Hc0.
  assert (len (x ++ ch) = len x + len ch) as Hxc by apply len_app.
  destruct HI as [(Hf & Hbl & Hh & HN & Hx) | (Hf & HT & Hbl & Hh & Hbuf)].
  - (* no frame emitted so far *)
    unfold compute_chunk. rewrite Hf, Hbl, Hh. rewrite andb_true_r.
    destruct (centered c) eqn:Hc.
    + assert (FL0 = first_len c) as HFL by (unfold FL0; rewrite Hc; reflexivity).
      assert (T = Z.max FL0 half) as HTd by (unfold T; rewrite Hc; reflexivity).
      cbv zeta. cbn [andb]. rewrite <- HFL. fold pl.
      destruct (len ch + len x <? L c / 2 + 1) eqn:Eh.
      * apply Z.ltb_lt in Eh. change (0 <? 0) with false. cbv iota. cbn [fst snd].
        split; [apply noframe_state; try assumption; unfold half in *; lia|].
        rewrite !E_small by (unfold half in *; lia). reflexivity.
      * apply Z.ltb_ge in Eh.
        pose proof (div_bounds (len ch + len x - FL0)) as Hd.
        destruct (0 <? Z.max 0 ((len ch + len x - FL0) / S c + 1)) eqn:Enf.
        -- apply Z.ltb_lt in Enf.
           assert (FL0 <= len x + len ch) as Hge by nia.
           destruct (first_centered (buf s) x ch Hlen Hx HN Hge) as (Hb1 & HV & Hlb1 & Hlc1).
           set (bf1 := sympad (get_frame (buf s) (len x) ch FL0 0) pl 0) in *.
           set (chunk1 := slice_from ch (FL0 - len x)) in *.
           assert (Z.max 0 ((len ch + len x - FL0) / S c + 1) = K (len (x ++ ch))) as HK.
           { unfold K. rewrite Hxc.
             replace (pl + (len x + len ch) - L c) with (len ch + len x - FL0) by lia. lia. }
           rewrite HK.
           assert (T <= len (x ++ ch)) as HT' by (unfold half in *; lia).
           pose proof (K_bounds _ HT') as HKb.
           assert (bf1 :: map (fun i => get_frame bf1 (L c) chunk1 (L c) (i * S c))
                              (range 1 (K (len (x ++ ch))))
                   = map (fr (V (x ++ ch))) (range 0 (K (len (x ++ ch))))) as Hfr.
           { rewrite (range_cons 0) by lia. cbn [map]. f_equal.
             - rewrite first_frame_is_take by (rewrite len_V; lia). exact Hb1.
             - apply map_ext_range. intros i Hi. rewrite HV.
               replace i with (0 + i) at 2 by lia.
               apply (suffix_frames bf1 bf1 chunk1 (L c) (L c) 0); try lia; reflexivity. }
           cbn [fst snd]. split.
           ++ unfold Inv; cbn [buf buf_len hist_len first].
              split; [apply len_shift_in; lia|]. right.
              repeat split; try lia.
              rewrite HV. apply (new_buf bf1 bf1 chunk1 (L c)); try lia; reflexivity.
           ++ rewrite (E_small x) by lia. rewrite E_big by lia. cbn [app]. symmetry. exact Hfr.
        -- apply Z.ltb_ge in Enf. cbn [fst snd].
           assert (len x + len ch < FL0) as Hlt by nia.
           split; [apply noframe_state; try assumption; lia|].
           rewrite !E_small by lia. reflexivity.
    + (* causal, nothing emitted yet: T = L, pl = 0 *)
      assert (T = L c) as HTd by (unfold T; rewrite Hc; reflexivity).
      assert (pl = 0) as Hpl0 by (unfold pl, pad_left; rewrite Hc; reflexivity).
      cbv zeta. cbn [andb].
      pose proof (div_bounds (len ch + len x - L c)) as Hd.
      destruct (0 <? Z.max 0 ((len ch + len x - L c) / S c + 1)) eqn:Enf.
      * apply Z.ltb_lt in Enf. cbn [fst snd].
        assert (L c <= len x + len ch) as Hge by nia.
        assert (V (x ++ ch) = x ++ ch) as HV.
        { unfold V. rewrite Hpl0. rewrite take_nonpos by lia. reflexivity. }
        assert (Z.max 0 ((len ch + len x - L c) / S c + 1) = K (len (x ++ ch))) as HK.
        { unfold K. rewrite Hxc, Hpl0.
          replace (0 + (len x + len ch) - L c) with (len ch + len x - L c) by lia. lia. }
        rewrite HK.
        assert (T <= len (x ++ ch)) as HT' by lia.
        pose proof (K_bounds _ HT') as HKb.
        assert (lastn (len x) (buf s) = lastn (len x) x) as Hlast
            by (rewrite Hx; symmetry; apply lastn_all; lia).
        split.
        -- unfold Inv; cbn [buf buf_len hist_len first].
           split; [apply len_shift_in; lia|]. right.
           repeat split; try lia.
           rewrite HV. apply (new_buf (buf s) x ch (len x)); try lia; assumption.
        -- rewrite (E_small x) by lia. rewrite E_big by lia. cbn [app]. rewrite HV.
           symmetry.
           rewrite (suffix_step (buf s) x ch (len x) (len x) 0) by (try assumption; lia).
           reflexivity.
      * apply Z.ltb_ge in Enf. cbn [fst snd].
        assert (len x + len ch < L c) as Hlt by nia.
        split; [apply noframe_state; try assumption; lia|].
        rewrite !E_small by lia. reflexivity.
  - (* frames were emitted before: the buffer holds the last L samples of V x *)
    unfold compute_chunk. rewrite Hf, Hbl, Hh. rewrite andb_false_r.
    cbv zeta. cbn [andb].
    pose proof (K_bounds _ HT) as HKb.
    set (r := pl + len x - K (len x) * S c) in *.
    pose proof (div_bounds (len ch + r - L c)) as Hd.
    set (nf := Z.max 0 ((len ch + r - L c) / S c + 1)).
    assert (nf = (len ch + r - L c) / S c + 1) as Hnf by (unfold nf; nia).
    assert (K (len x + len ch) = K (len x) + nf) as HK.
    { rewrite Hnf. unfold K at 1.
      replace (pl + (len x + len ch) - L c) with (len ch + r - L c + K (len x) * S c) by (unfold r; lia).
      rewrite div_add_mul. lia. }
    assert (len (V x) = K (len x) * S c + r) as HlenV by (rewrite len_V by lia; unfold r; lia).
    assert (lastn (L c) (buf s) = lastn (L c) (V x)) as Hlast.
    { rewrite Hbuf. apply lastn_lastn; [lia|]. rewrite len_V by lia. lia. }
    assert (map (fun i => get_frame (buf s) r ch (L c) (i * S c)) (range 0 nf) =
            map (fr (V x ++ ch)) (range (K (len x)) (K (len x) + nf))) as Hfr.
    { apply (suffix_step (buf s) (V x) ch r (L c) (K (len x))); try assumption; try lia. }
    assert (Inv {| buf := shift_in c (buf s) ch; buf_len := len ch + r - nf * S c;
                   hist_len := Z.min (L c) (L c + len ch); first := false; started := true |}
                (x ++ ch)) as HInv.
    { unfold Inv; cbn [buf buf_len hist_len first].
      split; [apply len_shift_in; lia|]. right.
      repeat split; try lia.
      - rewrite Hxc, HK. unfold r. lia.
      - rewrite V_app by lia. apply (new_buf (buf s) (V x) ch (L c)); try assumption; try lia. }
    fold nf.
    destruct (0 <? nf) eqn:Enf; cbn [fst snd].
    + split; [exact HInv|]. rewrite Hfr. apply E_extend; lia.
    + apply Z.ltb_ge in Enf. assert (nf = 0) as Hnf0 by (unfold nf in *; lia).
      split.
      * rewrite Hnf0 in HInv. replace (len ch + r) with (len ch + r - 0 * S c) by lia. exact HInv.
      * rewrite (E_extend x ch 0) by lia. rewrite range_empty by lia. reflexivity.
Qed.

Lemma FL0_ge : S c - S c / 2 <= FL0.
Proof. unfold FL0, first_len. destruct (centered c), (kaldi c); lia. Qed.

Lemma reset_inv s x : Inv s x -> Inv (fst (finalize c s)) [].
Proof.
  intros [Hlen _]. pose proof T_bounds as HTb.
  unfold finalize, reset, Inv; cbn [fst buf buf_len hist_len first].
  split; [exact Hlen|]. left. change (len (@nil A)) with 0. repeat split; try lia.
  unfold lastn. apply drop_all. lia.
Qed.

Lemma finalize_spec s x : Inv s x -> E x ++ snd (finalize c s) = full_frames c x.
Proof.
  intros [Hlen HI].
  pose proof T_bounds as HTb. pose proof FL0_eq as HF. pose proof pl_nonneg as Hpl.
  pose proof pl_le_FL0 as HplF. pose proof FL0_ge as HFg.
  pose proof (len_nonneg x) as Hx0.
  destruct HI as [(Hf & Hbl & Hh & HN & Hx) | (Hf & HT & Hbl & Hh & Hbuf)].
  - (* nothing emitted so far: finalize and compute_full evaluate the same expression *)
    rewrite E_small by lia. cbn [app].
    unfold finalize, full_frames. rewrite Hf, Hbl, Hh. cbv zeta. cbn [andb snd]. fold pl.
    destruct (len x <? L c / 2 + 1) eqn:Eh; [reflexivity|].
    apply Z.ltb_ge in Eh.
    pose proof (div_bounds (len x + S c / 2)) as Hd.
    set (q := (len x + S c / 2) / S c) in *.
    assert (0 <= q) by nia.
    replace (Z.max 0 q) with q by lia.
    destruct (1 <=? q) eqn:Eq.
    + apply Z.leb_le in Eq.
      assert (len x < L c - pl) as Hlt.
      { clear - HN Eh HF HTb Hpl. unfold T, half, FL0, pl, pad_left in *. destruct (centered c); lia. }
      assert (0 < (q - 1) * S c + L c - len x - pl) as Hpr by nia.
      replace (Z.max 0 ((q - 1) * S c - pl + L c - len x)) with ((q - 1) * S c + L c - len x - pl) by lia.
      destruct (pl =? 0) eqn:Ep; destruct ((q - 1) * S c + L c - len x - pl =? 0) eqn:Epr;
        try (apply Z.eqb_eq in Epr; lia); cbn [andb].
      all: replace (len x - len x) with 0 by lia.
      all: rewrite (slice_from_nonneg _ 0) by lia; rewrite drop_nonpos by lia.
      all: rewrite slice_from_nonneg by lia.
      all: replace (drop (L c - len x) (buf s)) with x
             by (rewrite <- Hx at 1; unfold lastn; rewrite Hlen; reflexivity).
      all: reflexivity.
    + apply Z.leb_gt in Eq. assert (q = 0) as -> by lia. reflexivity.
  - (* frames were emitted: the tail frames reflect the last samples kept in the buffer *)
    pose proof (K_bounds _ HT) as HKb.
    set (Kx := K (len x)) in *.
    set (r := pl + len x - Kx * S c) in *.
    rewrite E_big by exact HT. fold Kx.
    unfold finalize, full_frames. rewrite Hf, Hbl, Hh. cbv zeta. cbn [andb snd]. fold pl.
    assert (half <= len x) as Hhalf by lia.
    destruct (len x <? L c / 2 + 1) eqn:Eh; [apply Z.ltb_lt in Eh; unfold half in *; lia|].
    pose proof (div_bounds (len x + S c / 2)) as Hd.
    set (q := (len x + S c / 2) / S c) in *.
    assert ((r + S c / 2 - pl) / S c = q - Kx) as Hnf.
    { replace (r + S c / 2 - pl) with (len x + S c / 2 + (- Kx) * S c) by (unfold r; lia).
      rewrite div_add_mul. unfold q. lia. }
    rewrite Hnf.
    assert (Kx <= q) as HKq.
    { pose proof (div_bounds (r + S c / 2 - pl)) as Hd2. rewrite Hnf in Hd2. nia. }
    replace (Z.max 0 q) with q by lia.
    assert (len (V x) = pl + len x) as HlenV by (apply len_V; lia).
    destruct (1 <=? q - Kx) eqn:Enf.
    + apply Z.leb_le in Enf.
      set (pr := (q - Kx - 1) * S c + L c - r - 0).
      assert (0 < pr) as Hpr0 by (unfold pr, r in *; nia).
      assert (pr <= L c) as HprL.
      { pose proof (div_bounds (r + S c / 2 - pl)) as Hd2. rewrite Hnf in Hd2. unfold pr. nia. }
      assert (pr <= len x) as HprN.
      { pose proof (div_bounds (r + S c / 2 - pl)) as Hd2. rewrite Hnf in Hd2. unfold pr. nia. }
      assert (pr = Z.max 0 ((q - 1) * S c - pl + L c - len x)) as Hpreq by (unfold pr, r in *; lia).
      rewrite <- Hpreq.
      replace ((pl =? 0) && (pr =? 0)) with false
        by (destruct (pr =? 0) eqn:Epr; [apply Z.eqb_eq in Epr; lia | rewrite andb_false_r; reflexivity]).
      set (R := rev (lastn pr x)).
      assert (sympad x pl pr = V x ++ R) as Hsig.
      { rewrite sympad_single by lia. unfold V, R. rewrite <- app_assoc. reflexivity. }
      rewrite Hsig.
      replace (L c - L c) with 0 by lia.
      rewrite (slice_from_nonneg _ 0) by lia. rewrite drop_nonpos by lia.
      assert (sympad (buf s) 0 pr = buf s ++ R) as Hpad.
      { rewrite sympad_single by lia. rewrite take_nonpos by lia. cbn [rev app].
        f_equal. unfold R. f_equal. rewrite Hbuf.
        rewrite lastn_lastn by lia. unfold V. apply lastn_app_le. lia. }
      rewrite Hpad.
      rewrite slice_from_nonneg by lia.
      assert (drop (L c - r) (buf s ++ R) = drop (Kx * S c) (V x ++ R)) as Hdrop.
      { rewrite drop_app_le by lia. rewrite drop_app_le by (unfold r in *; nia).
        f_equal. rewrite Hbuf. rewrite drop_lastn by lia.
        unfold lastn. f_equal. unfold r. lia. }
      rewrite Hdrop.
      rewrite frames_suffix by lia.
      replace (Kx + (q - Kx)) with q by lia.
      rewrite (range_split 0 Kx q) by lia. rewrite map_app. f_equal.
      apply map_ext_range. intros k Hk. symmetry. apply fr_app_l; [lia|]. nia.
    + apply Z.leb_gt in Enf. assert (q = Kx) as Hq by lia. rewrite app_nil_r.
      replace (Z.max 0 ((q - 1) * S c - pl + L c - len x)) with 0 by (unfold r in *; nia).
      assert ((if (pl =? 0) && (0 =? 0) then x else sympad x pl 0) = V x) as Hsig.
      { destruct (pl =? 0) eqn:Ep; cbn [andb Z.eqb].
        - apply Z.eqb_eq in Ep. unfold V. rewrite Ep. rewrite take_nonpos by lia. reflexivity.
        - rewrite sympad_left_only by lia. reflexivity. }
      rewrite Hsig, Hq. reflexivity.
Qed.

Lemma feed_spec chunks : forall s x,
  Inv s x ->
  Inv (fst (feed c s chunks)) (x ++ concat chunks) /\
  E (x ++ concat chunks) = E x ++ snd (feed c s chunks).
Proof.
  induction chunks as [|ch rest IH]; intros s x HI; cbn [feed concat].
  - rewrite !app_nil_r. cbn [fst snd]. split; [exact HI | reflexivity].
  - destruct (chunk_step s x ch HI) as [HI1 HE1].
    destruct (compute_chunk c s ch) as [s1 f1] eqn:Ecc. cbn [fst snd] in *.
    destruct (IH s1 (x ++ ch) HI1) as [HI2 HE2].
    destruct (feed c s1 rest) as [s2 f2] eqn:Efd. cbn [fst snd] in *.
    rewrite app_assoc. split; [exact HI2|].
    rewrite HE2, HE1. rewrite app_assoc. reflexivity.
Qed.

Lemma stream_spec s chunks :
  Inv s [] ->
  snd (stream c s chunks) = full_frames c (concat chunks) /\ Inv (fst (stream c s chunks)) [].
Proof.
  intros HI. unfold stream.
  destruct (feed_spec chunks s [] HI) as [HI1 HE1]. cbn [app] in *.
  destruct (feed c s chunks) as [s1 f1] eqn:Efd. cbn [fst snd] in *.
  pose proof (finalize_spec s1 _ HI1) as Hfin. pose proof (reset_inv s1 _ HI1) as Hres.
  destruct (finalize c s1) as [s2 f2] eqn:Efin. cbn [fst snd] in *.
  split; [|exact Hres].
  rewrite <- Hfin, HE1. rewrite (E_small []) by (pose proof T_bounds; change (len (@nil A)) with 0; lia).
  reflexivity.
Qed.

Lemma init_inv stale : len stale = L c -> Inv (init c stale) [].
Proof.
  intros H. pose proof T_bounds. unfold Inv, init; cbn [buf buf_len hist_len first].
  split; [exact H|]. left. change (len (@nil A)) with 0. repeat split; try lia.
  unfold lastn. apply drop_all. lia.
Qed.

(* what a chunk / finalize returns is determined by the samples seen so far *)
Lemma chunk_output_determined s1 s2 x ch :
  Inv s1 x -> Inv s2 x -> snd (compute_chunk c s1 ch) = snd (compute_chunk c s2 ch).
Proof.
  intros H1 H2. destruct (chunk_step s1 x ch H1) as [_ E1]. destruct (chunk_step s2 x ch H2) as [_ E2].
  rewrite E1 in E2. apply app_inv_head in E2. exact E2.
Qed.

Lemma finalize_output_determined s1 s2 x :
  Inv s1 x -> Inv s2 x -> snd (finalize c s1) = snd (finalize c s2).
Proof.
  intros H1 H2. pose proof (finalize_spec s1 x H1) as E1. pose proof (finalize_spec s2 x H2) as E2.
  rewrite <- E2 in E1. apply app_inv_head in E1. exact E1.
Qed.

End Stream.
