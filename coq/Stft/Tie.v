(* The integer bookkeeping of the hand-written STFT model, re-assembled from the
   expressions that gen/stft.py extracts from compute.py / torch.py on every run
   (coq/gen/StftK.v), and proved equal to the model the theorems are about.
   A change of meaning in the source (a different pad width, frame count, guard,
   remainder, history update, segment capacity ...) makes one of these lemmas fail. *)
From Coq Require Import ZArith List Bool Lia.
From Verif Require Import lib.ZList Stft.Model Stft.Walk Stft.Torch gen.StftK.
Import ListNotations.
Open Scope Z_scope.

Ltac Zify.zify_post_hook ::= Z.to_euclidean_division_equations.

(* ---- pad widths and first-frame length ---- *)
Definition pad_left_src (c : cfg) : Z :=
  if centered c then (if kaldi c then g_cc_padw_0_0 (L c) (S c) else g_cc_padw_1_0 (g_cc_frame_length_4 (L c))) else 0.
Definition first_len_src (c : cfg) : Z :=
  if kaldi c then g_cc_frame_length_1 (g_cc_frame_length_0 (L c)) (S c) else g_cc_frame_length_2 (L c).

Lemma pad_left_tie c : pad_left_src c = pad_left c.
Proof. unfold pad_left_src, pad_left, g_cc_padw_0_0, g_cc_padw_1_0, g_cc_frame_length_4. destruct (centered c), (kaldi c); lia. Qed.

Lemma first_len_tie c : first_len_src c = first_len c.
Proof. unfold first_len_src, first_len, g_cc_frame_length_0, g_cc_frame_length_1, g_cc_frame_length_2. destruct (kaldi c); lia. Qed.

(* finalize, compute_full and the torch port use the same two pad widths *)
Lemma pad_left_fin_tie c :
  (if centered c then (if kaldi c then g_fin_pad_left_1 (g_fin_frame_length_0 (L c)) (g_fin_frame_shift_0 (S c))
                       else g_fin_pad_left_2 (g_fin_frame_length_0 (L c))) else g_fin_pad_left_0) = pad_left c.
Proof.
  unfold pad_left, g_fin_pad_left_0, g_fin_pad_left_1, g_fin_pad_left_2, g_fin_frame_length_0, g_fin_frame_shift_0.
  destruct (centered c), (kaldi c); lia.
Qed.

Lemma pad_left_full_tie c :
  (if centered c then (if kaldi c then g_full_pad_left_1 (g_full_frame_length_0 (L c)) (g_full_frame_shift_0 (S c))
                       else g_full_pad_left_2 (L c)) else g_full_pad_left_0) = pad_left c.
Proof.
  unfold pad_left, g_full_pad_left_0, g_full_pad_left_1, g_full_pad_left_2, g_full_frame_length_0, g_full_frame_shift_0.
  destruct (centered c), (kaldi c); lia.
Qed.

Lemma pad_left_torch_tie c :
  (if centered c then (if kaldi c then g_torch_pad_left_1 (L c) (S c) else g_torch_pad_left_2 (L c)) else g_torch_pad_left_0)
  = pad_left c.
Proof.
  unfold pad_left, g_torch_pad_left_0, g_torch_pad_left_1, g_torch_pad_left_2. destruct (centered c), (kaldi c); lia.
Qed.

(* the model stores samples into the frame buffer unchanged and its buffer has no dtype of its own: the
   source allocates the buffer once, at construction, as float64 (every floating input dtype embeds exactly) *)
Lemma buffer_storage_tie : g_stft_buf_is_f64_alloc_once = true.
Proof. reflexivity. Qed.

Section Tie.
Context {A : Type}.

(* ---- compute_chunk, assembled from the generated expressions ---- *)
Definition shift_in_src (c : cfg) (bf chunk : list A) : list A :=
  let cl := g_cc_chunk_len_0 (len chunk) in
  if g_cc_test_2 cl (L c) then slice_from chunk (cl - L c)
  else if g_cc_test_3 cl then slice_from bf cl ++ chunk
  else bf.

Lemma shift_in_tie c bf ch : shift_in_src c bf ch = shift_in c bf ch.
Proof. reflexivity. Qed.

Definition compute_chunk_src (c : cfg) (s : st A) (chunk : list A) : st A * list (list A) :=
  let bl := g_cc_buf_len_0 (buf_len s) in
  let cl := g_cc_chunk_len_0 (len chunk) in
  let tl := g_cc_total_len_0 cl bl in
  let ncf := centered c && first s in
  let fl := if ncf then first_len_src c else g_cc_frame_length_3 (L c) in
  let nf0 := g_cc_num_frames_0 tl fl (g_cc_frame_shift_0 (S c)) in
  let nf := if ncf && g_cc_test_0 tl (L c) then g_cc_num_frames_1 else nf0 in
  if 0 <? nf then
    if ncf then
      let fr0 := get_frame (buf s) bl chunk fl (g_cc_frame_start_idx_0 0 (S c)) in
      let chunk1 := slice_from chunk (fl - bl) in
      let cl1 := g_cc_chunk_len_1 cl fl bl in
      let bf1 := sympad fr0 (pad_left_src c) 0 in
      let tl1 := g_cc_total_len_1 cl1 (g_cc_frame_length_4 (L c)) in
      let frames := bf1 :: map (fun i => get_frame bf1 (g_cc_buf_len_1 (L c)) chunk1 (L c) (g_cc_frame_start_idx_0 i (S c))) (range 1 nf) in
      ({| buf := shift_in_src c bf1 chunk1; buf_len := g_cc_setbufl__0 (g_cc_rem_len_0 tl1 nf (S c));
          hist_len := g_cc_sethistl__1 (L c) (g_cc_sethistl__0 (L c)) cl1; first := false; started := true |}, frames)
    else
      let frames := map (fun i => get_frame (buf s) bl chunk fl (g_cc_frame_start_idx_0 i (S c))) (range 0 nf) in
      ({| buf := shift_in_src c (buf s) chunk; buf_len := g_cc_setbufl__0 (g_cc_rem_len_0 tl nf (S c));
          hist_len := g_cc_sethistl__1 (L c) (hist_len s) cl; first := false; started := true |}, frames)
  else
    ({| buf := shift_in_src c (buf s) chunk; buf_len := g_cc_setbufl__0 (g_cc_rem_len_0 tl nf (S c));
        hist_len := g_cc_sethistl__1 (L c) (hist_len s) cl; first := first s; started := true |}, []).

Lemma rem_no_frames tl s : g_cc_rem_len_0 tl 0 s = tl.
Proof. unfold g_cc_rem_len_0. lia. Qed.

Theorem compute_chunk_tie c s chunk : compute_chunk_src c s chunk = compute_chunk c s chunk.
Proof.
  unfold compute_chunk_src, compute_chunk. cbv zeta.
  rewrite first_len_tie, pad_left_tie.
  unfold g_cc_buf_len_0, g_cc_chunk_len_0, g_cc_total_len_0, g_cc_frame_length_3, g_cc_num_frames_0, g_cc_frame_shift_0,
         g_cc_test_0, g_cc_num_frames_1, g_cc_frame_start_idx_0, g_cc_chunk_len_1, g_cc_total_len_1, g_cc_frame_length_4,
         g_cc_buf_len_1, g_cc_setbufl__0, g_cc_sethistl__1, g_cc_sethistl__0.
  change (0 * S c) with 0.
  set (ncf := centered c && first s).
  set (fl := if ncf then first_len c else L c).
  set (nf := if ncf && (len chunk + buf_len s <? L c / 2 + 1) then 0 else Z.max 0 ((len chunk + buf_len s - fl) / S c + 1)).
  destruct (0 <? nf) eqn:E.
  - destruct ncf; unfold g_cc_rem_len_0; rewrite ?shift_in_tie; reflexivity.
  - apply Z.ltb_ge in E.
    assert (nf = 0) as -> by (unfold nf in *; destruct (ncf && _); lia).
    rewrite rem_no_frames. rewrite shift_in_tie. reflexivity.
Qed.

(* ---- finalize ---- *)
Definition finalize_src (c : cfg) (s : st A) : st A * list (list A) :=
  let bl := g_fin_buf_len_0 (buf_len s) in
  let fl := g_fin_frame_length_0 (L c) in
  let fs := g_fin_frame_shift_0 (S c) in
  let pl0 := if centered c then (if kaldi c then g_fin_pad_left_1 fl fs else g_fin_pad_left_2 fl) else g_fin_pad_left_0 in
  let nfa := g_fin_num_frames_0 bl fs in
  let nfb := if first s then nfa else g_fin_num_frames_1 nfa pl0 in
  let pl := if first s then pl0 else g_fin_pad_left_3 in
  let nfc := g_fin_num_frames_2 nfb fs in
  let nf := if first s && g_fin_test_0 bl fl then g_fin_num_frames_3 else nfc in
  let frames :=
    if g_fin_test_1 nf then
      let pr := g_fin_pad_right_1 (g_fin_pad_right_0 nf fs fl bl) pl in
      let h := g_fin_hist_len_0 (hist_len s) in
      let padded := slice_from (sympad (slice_from (buf s) (fl - h)) (g_fin_padw_0_0 pl) (g_fin_padw_0_1 pr)) (h - bl) in
      map (fun i => slice padded (i * fs) (i * fs + fl)) (range 0 nf)
    else [] in
  ({| buf := buf s; buf_len := g_fin_setbufl__0; hist_len := g_fin_sethistl__0; first := true; started := false |}, frames).

Theorem finalize_tie c s : finalize_src c s = finalize c s.
Proof.
  unfold finalize_src, finalize, reset. cbv zeta.
  rewrite pad_left_fin_tie.
  unfold g_fin_buf_len_0, g_fin_frame_length_0, g_fin_frame_shift_0, g_fin_num_frames_0, g_fin_num_frames_1,
         g_fin_pad_left_3, g_fin_num_frames_2, g_fin_test_0, g_fin_num_frames_3, g_fin_test_1, g_fin_pad_right_0,
         g_fin_pad_right_1, g_fin_hist_len_0, g_fin_padw_0_0, g_fin_padw_0_1, g_fin_setbufl__0, g_fin_sethistl__0.
  reflexivity.
Qed.

(* ---- compute_full ---- *)
Definition full_frames_src (c : cfg) (x : list A) : list (list A) :=
  let fl := g_full_frame_length_0 (L c) in
  let fs := g_full_frame_shift_0 (S c) in
  let N := len x in
  if g_full_test_0 N fl then []
  else
    let pl := if centered c then (if kaldi c then g_full_pad_left_1 fl fs else g_full_pad_left_2 (L c)) else g_full_pad_left_0 in
    let nf := g_full_num_frames_0 N fs in
    let total := g_full_total_len_0 nf fs pl fl in
    let pr := g_full_pad_right_0 total N in
    let sig := if (pl =? 0) && (pr =? 0) then x else sympad x (g_full_padw_0_0 pl) (g_full_padw_0_1 pr) in
    map (fun i => slice sig (g_full_frame_left_0 i fs) (g_full_frame_left_0 i fs + fl)) (range 0 nf).

Theorem full_frames_tie c x : full_frames_src c x = full_frames c x.
Proof.
  unfold full_frames_src, full_frames. cbv zeta. rewrite pad_left_full_tie.
  unfold g_full_frame_length_0, g_full_frame_shift_0, g_full_test_0, g_full_num_frames_0, g_full_total_len_0,
         g_full_pad_right_0, g_full_padw_0_0, g_full_padw_0_1, g_full_frame_left_0.
  reflexivity.
Qed.

(* ---- the torch port's framing ---- *)
Definition torch_frames_src (c : cfg) (x : list A) : list (list A) :=
  let N := g_torch_sig_len_0 (len x) in
  if g_torch_test_1 N (L c) then []
  else
    let pl := if centered c then (if kaldi c then g_torch_pad_left_1 (L c) (S c) else g_torch_pad_left_2 (L c)) else g_torch_pad_left_0 in
    let nf := g_torch_num_frames_0 N (S c) in
    if g_torch_test_2 nf then [] else
    let total := g_torch_total_len_0 nf (S c) pl (L c) in
    let pr := g_torch_pad_right_0 total N in
    let sig := if negb ((pl =? 0) && (pr =? 0)) then torch_pad x pl pr else x in
    map (fun i => slice sig (i * S c) (i * S c + L c)) (range 0 nf).

Theorem torch_frames_tie c x : torch_frames_src c x = torch_frames c x.
Proof.
  unfold torch_frames_src, torch_frames. cbv zeta. rewrite pad_left_torch_tie.
  unfold g_torch_sig_len_0, g_torch_test_1, g_torch_test_2, g_torch_num_frames_0, g_torch_total_len_0, g_torch_pad_right_0.
  reflexivity.
Qed.

End Tie.

(* ---- one step of the segment walk (numpy and torch) ---- *)
(* mirrored segment: number of taps consumed and next start *)
Lemma walk_conj_step_tie D ln start consumed :
  let half := D / 2 + 1 in
  g_frame_seg_len_1 (g_frame_seg_len_0 start ln consumed half D)
    = Z.max 0 (Z.min (start + ln - consumed) (half - 2 + D mod 2) - start) /\
  g_frame_start_idx_2 (g_frame_start_idx_0 start half D) = Z.max 0 (start - (half - 2 + D mod 2)) /\
  g_torch_seg_len_0 start ln consumed half (g_torch_mod_0 D)
    = Z.max 0 (Z.min (start + ln - consumed) (half - 2 + D mod 2) - start) /\
  g_torch_si_2 (g_torch_si_0 start half (g_torch_mod_0 D)) = Z.max 0 (start - (half - 2 + D mod 2)) /\
  (* first half-spectrum index read by the torch slice [hi - seg_len, hi) flipped *)
  g_torch_hi_0 half (g_torch_mod_0 D) start - 1 = half - 2 + D mod 2 - start.
Proof.
  cbv zeta. unfold g_frame_seg_len_1, g_frame_seg_len_0, g_frame_start_idx_2, g_frame_start_idx_0,
    g_torch_seg_len_0, g_torch_mod_0, g_torch_si_2, g_torch_si_0, g_torch_hi_0.
  repeat split; lia.
Qed.

(* direct segment *)
Lemma walk_direct_step_tie D ln start consumed :
  let half := D / 2 + 1 in
  g_frame_seg_len_4 (g_frame_seg_len_3 (g_frame_seg_len_2 start ln consumed half) start)
    = Z.max 0 (Z.min (start + ln - consumed) half - start) /\
  g_frame_start_idx_2 (g_frame_start_idx_1 start half) = Z.max 0 (start - half) /\
  g_torch_seg_len_1 start ln consumed half = Z.max 0 (Z.min (start + ln - consumed) half - start) /\
  g_torch_si_2 (g_torch_si_1 start half) = Z.max 0 (start - half) /\
  g_frame_consumed_1 consumed 3 = consumed + 3 /\ g_torch_consumed_0 consumed 3 = consumed + 3 /\
  g_frame_test_0 consumed ln = (consumed <? ln) /\ g_torch_test_4 consumed ln = (consumed <? ln).
Proof.
  cbv zeta. unfold g_frame_seg_len_4, g_frame_seg_len_3, g_frame_seg_len_2, g_frame_start_idx_2, g_frame_start_idx_1,
    g_torch_seg_len_1, g_torch_si_2, g_torch_si_1, g_frame_consumed_1, g_torch_consumed_0, g_frame_test_0, g_torch_test_4.
  repeat split; lia.
Qed.
