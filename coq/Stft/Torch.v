(* C14: the functional PyTorch port (torch.py pytorch_stft_frame_computer,
   pytorch_preemphasize) against the NumPy computer.
   Framing: flip-based padding (left: one flipped slice; right: flipped / plain copies
   appended until the pad is filled) followed by as_strided framing.
   Filtering: the same segment walk as compute.py (model Stft/Walk.v, probed on both). *)
From Coq Require Import ZArith List Bool Lia.
From Verif Require Import lib.ZList Stft.Model Stft.Lemmas Stft.Stream Stft.Frames.
Import ListNotations.
Open Scope Z_scope.

Ltac Zify.zify_post_hook ::= Z.to_euclidean_division_equations.

Section Torch.
Context {A : Type}.
Implicit Types x y : list A.

(* while rem > 0: pieces.append((rev if flipped else sig)[:rem]); rem -= N; flipped = not flipped *)
Fixpoint tpieces (fuel : nat) (x rx : list A) (rem : Z) (flipped : bool) : list A :=
  match fuel with
  | O => []
  | Datatypes.S f =>
    if 0 <? rem then slice_to (if flipped then rx else x) rem ++ tpieces f x rx (rem - len x) (negb flipped)
    else []
  end.

Definition torch_pad (x : list A) (pl pr : Z) : list A :=
  let rx := rev x in
  slice_from rx (len x - pl) ++ x ++ tpieces (Datatypes.S (Z.to_nat pr)) x rx pr true.

Definition torch_frames (c : cfg) (x : list A) : list (list A) :=
  let N := len x in
  if N <? L c / 2 + 1 then []
  else
    let pl := pad_left c in
    let nf := Z.max 0 ((N + S c / 2) / S c) in
    if nf =? 0 then []   (* torch.py: the frame count rounded to zero (only when frame_shift > frame_length) *)
    else
    let total := (nf - 1) * S c - pl + L c in
    let pr := Z.max 0 (total - N) in
    let sig := if negb ((pl =? 0) && (pr =? 0)) then torch_pad x pl pr else x in
    map (fun i => slice sig (i * S c) (i * S c + L c)) (range 0 nf).

Lemma take_app_gen (n : Z) (l m : list A) : take n (l ++ m) = take n l ++ take (n - len l) m.
Proof.
  destruct (Z_le_gt_dec n (len l)) as [H|H].
  - rewrite take_app_le by lia. rewrite (take_nonpos (n - len l)) by lia. rewrite app_nil_r. reflexivity.
  - rewrite take_app_ge by lia. rewrite (take_all n l) by lia. reflexivity.
Qed.

Lemma tpieces_cyc (fuel : nat) : forall y ry (rem : Z),
  ry = rev y -> 0 < len y -> rem <= Z.of_nat fuel ->
  tpieces fuel y ry rem true = take rem (cyc fuel ry) /\
  tpieces fuel y ry rem false = take rem (cyc fuel y).
Proof.
  induction fuel as [|f IH]; intros y ry rem Hr Hy Hf.
  - cbn [tpieces cyc]. unfold take. rewrite !firstn_nil. split; reflexivity.
  - cbn [tpieces cyc]. destruct (0 <? rem) eqn:E.
    + apply Z.ltb_lt in E.
      destruct (IH y ry (rem - len y) Hr Hy ltac:(lia)) as [IH1 IH2].
      cbn [negb]. rewrite IH1, IH2. rewrite !slice_to_nonneg by lia.
      rewrite !take_app_gen. subst ry. rewrite len_rev, rev_involutive. split; reflexivity.
    + apply Z.ltb_ge in E. rewrite !take_nonpos by lia. split; reflexivity.
Qed.

Lemma torch_pad_eq_sympad x pl pr :
  1 <= len x -> 0 <= pl <= len x -> 0 <= pr -> torch_pad x pl pr = sympad x pl pr.
Proof.
  intros Hx Hpl Hpr. unfold torch_pad, sympad. cbv zeta.
  f_equal.
  - rewrite slice_from_nonneg by lia. rewrite cyc_take_single by lia.
    pose proof (rev_take_drop pl (rev x)) as H. rewrite rev_involutive, len_rev in H.
    rewrite H by lia. unfold lastn. rewrite len_rev. reflexivity.
  - f_equal.
    destruct (tpieces_cyc (Datatypes.S (Z.to_nat pr)) x (rev x) pr eq_refl ltac:(lia) ltac:(lia)) as [H1 _].
    exact H1.
Qed.

Theorem torch_frames_eq_full_l (c : cfg) x :
  0 < S c -> S c <= L c -> torch_frames c x = full_frames c x.
Proof.
  intros HS HL. unfold torch_frames, full_frames. cbv zeta.
  destruct (len x <? L c / 2 + 1) eqn:E; [reflexivity|].
  apply Z.ltb_ge in E.
  pose proof (pl_nonneg c HS HL) as Hpl. unfold pl in Hpl.
  pose proof (T_bounds c HS HL) as HT. pose proof (pl_le_FL0 c HS HL) as HplF.
  assert (pad_left c <= len x) as Hple.
  { unfold pad_left. destruct (centered c), (kaldi c); lia. }
  destruct (Z.max 0 ((len x + S c / 2) / S c) =? 0) eqn:E0.
  { apply Z.eqb_eq in E0. rewrite E0. reflexivity. }
  set (pr := Z.max 0 _).
  destruct ((pad_left c =? 0) && (pr =? 0)) eqn:E2; cbn [negb]; [reflexivity|].
  rewrite torch_pad_eq_sympad by (unfold pr; lia). reflexivity.
Qed.

(* the same for ANY positive shift (also frame_shift > frame_length, where compute_full still
   works), as long as the left pad is not negative (it is negative only for kaldi_shift with
   frame_shift > frame_length + 1, which np.pad rejects) *)
Theorem torch_frames_eq_full_any_shift_l (c : cfg) x :
  0 < S c -> 0 < L c -> 0 <= pad_left c -> torch_frames c x = full_frames c x.
Proof.
  intros HS HL Hpl. unfold torch_frames, full_frames. cbv zeta.
  destruct (len x <? L c / 2 + 1) eqn:E; [reflexivity|].
  apply Z.ltb_ge in E.
  assert (pad_left c <= len x) as Hple.
  { revert Hpl. unfold pad_left. destruct (centered c), (kaldi c); lia. }
  destruct (Z.max 0 ((len x + S c / 2) / S c) =? 0) eqn:E0.
  { apply Z.eqb_eq in E0. rewrite E0. reflexivity. }
  set (pr := Z.max 0 _).
  destruct ((pad_left c =? 0) && (pr =? 0)) eqn:E2; cbn [negb]; [reflexivity|].
  rewrite torch_pad_eq_sympad by (unfold pr; lia). reflexivity.
Qed.

End Torch.

(* empty results have the same number of columns: num_filts + (1 if include_energy) *)
Definition np_empty_cols (num_filts : Z) (include_energy : bool) : Z :=
  num_filts + (if include_energy then 1 else 0).
Definition torch_empty_cols (num_filts : Z) (include_energy : bool) : Z :=
  num_filts + (if include_energy then 1 else 0).   (* torch.py: num_filts + int(include_energy) *)

(* pre-emphasis: numpy  y = x; y[1:] -= c * x[:-1]   vs   torch  z = [0] ++ x; z[1:] - c * z[:-1] *)
Fixpoint sub_scaled (c : Z) (a b : list Z) : list Z :=
  match a, b with
  | u :: a', v :: b' => (u - c * v) :: sub_scaled c a' b'
  | _, _ => []
  end.
Definition np_preemph (c : Z) (x : list Z) : list Z :=
  match x with [] => [] | a :: t => a :: sub_scaled c t (removelast x) end.
Definition torch_preemph (c : Z) (x : list Z) : list Z :=
  let z := 0 :: x in sub_scaled c (tl z) (removelast z).

Lemma removelast_cons (a b : Z) t : removelast (a :: b :: t) = a :: removelast (b :: t).
Proof. reflexivity. Qed.

Theorem torch_preemph_eq_l c x : torch_preemph c x = np_preemph c x.
Proof.
  unfold torch_preemph, np_preemph. cbn [tl].
  destruct x as [|a t]; [reflexivity|].
  rewrite removelast_cons. cbn [sub_scaled]. f_equal. lia.
Qed.

(* the documented recurrence: y0 = x0, y_i = x_i - c x_(i-1) *)
Lemma sub_scaled_nth c d : forall t a (k : nat),
  (k < length t)%nat ->
  nth k (sub_scaled c t (removelast (a :: t))) d = nth k t d - c * nth k (a :: t) d.
Proof.
  induction t as [|b t IH]; intros a k Hk; [simpl in Hk; lia|].
  rewrite removelast_cons. cbn [sub_scaled].
  destruct k as [|k]; [reflexivity|].
  cbn [nth]. rewrite IH by (simpl in Hk; lia). reflexivity.
Qed.

Theorem np_preemph_spec_l c x d i :
  0 <= i < len x ->
  nth (Z.to_nat i) (np_preemph c x) d =
  if i =? 0 then nth 0 x d else nth (Z.to_nat i) x d - c * nth (Z.to_nat (i - 1)) x d.
Proof.
  intros Hi. unfold np_preemph. destruct x as [|a t]; [unfold len in Hi; simpl in Hi; lia|].
  destruct (i =? 0) eqn:E.
  - apply Z.eqb_eq in E. subst i. reflexivity.
  - apply Z.eqb_neq in E.
    replace (Z.to_nat i) with (Datatypes.S (Z.to_nat (i - 1))) by lia.
    cbn [nth]. apply sub_scaled_nth. unfold len in Hi. simpl length in Hi. lia.
Qed.
