(* C14: the energy coefficient.  numpy: e = <frame, frame> / L, then e ** 0.5 unless
   use_power.  torch: e = ||frame|| / sqrt(L), then e ** 2 if use_power. *)
From Coq Require Import Reals Lra.
Open Scope R_scope.

Lemma torch_energy_power_l s Lr : 0 <= s -> 0 < Lr -> (sqrt s / sqrt Lr) ^ 2 = s / Lr.
Proof.
  intros Hs HL. assert (0 < sqrt Lr) by (apply sqrt_lt_R0; exact HL).
  unfold Rdiv. rewrite Rpow_mult_distr. rewrite pow_inv.
  simpl. rewrite !Rmult_1_r. rewrite !sqrt_sqrt by lra. reflexivity.
Qed.

Lemma torch_energy_mag_l s Lr : 0 <= s -> 0 < Lr -> sqrt (s / Lr) = sqrt s / sqrt Lr.
Proof. intros Hs HL. apply sqrt_div; assumption. Qed.

Example energy_example : (sqrt 8 / sqrt 2) ^ 2 = 8 / 2.
Proof. apply torch_energy_power_l; lra. Qed.
