(* The segment walk of _compute_frame (compute.py) and of pytorch_stft_frame_computer
   (torch.py): a truncated filter of `len` taps starting at full-spectrum bin `start`
   is multiplied with the HALF spectrum, alternating direct segments (bins
   0 .. D/2) and conjugate-mirrored segments (bins D/2+1 .. D-1 read backwards).
   walk returns, per tap, the half-spectrum index it meets and the conjugation flag.
   Theorem: tap j meets full-spectrum bin (start + j) mod D, for every D, start, len. *)
From Coq Require Import ZArith List Bool Lia.
From Verif Require Import lib.ZList.
Import ListNotations.
Open Scope Z_scope.

Ltac Zify.zify_post_hook ::= Z.to_euclidean_division_equations.

Fixpoint walk_loop (fuel : nat) (D len start consumed : Z) (conj : bool) : option (list (Z * bool)) :=
  match fuel with
  | O => if consumed <? len then None else Some []
  | Datatypes.S f =>
    if consumed <? len then
      let half := D / 2 + 1 in
      let par := D mod 2 in
      if conj then
        let cap := half - 2 + par in
        let seg := Z.max 0 (Z.min (start + len - consumed) cap - start) in
        let here := map (fun p => (half - 2 + par - start - p, true)) (range 0 seg) in
        match walk_loop f D len (Z.max 0 (start - cap)) (consumed + seg) false with
        | Some rest => Some (here ++ rest)
        | None => None
        end
      else
        let seg := Z.max 0 (Z.min (start + len - consumed) half - start) in
        let here := map (fun p => (start + p, false)) (range 0 seg) in
        match walk_loop f D len (Z.max 0 (start - half)) (consumed + seg) true with
        | Some rest => Some (here ++ rest)
        | None => None
        end
    else Some []
  end.

Definition walk (D start len : Z) : option (list (Z * bool)) :=
  walk_loop (Z.to_nat (2 * len + 2 * start + 1)) D len start 0 false.

(* full-spectrum bin met by a half-spectrum index *)
Definition fullbin (D : Z) (e : Z * bool) : Z := if snd e then D - fst e else fst e.
Definition in_half (D : Z) (e : Z * bool) : Prop :=
  0 <= fst e < D / 2 + 1 /\ (snd e = true -> 1 <= fst e).

Lemma cap_is_rest D : D / 2 + 1 - 2 + D mod 2 = D - (D / 2 + 1).
Proof. lia. Qed.

Lemma mod_from_quot D a q b : 0 < D -> a = q * D + b -> 0 <= b < D -> a mod D = b.
Proof. intros HD Ha Hb. symmetry. apply (Z.mod_unique a D q b); [left; exact Hb | lia]. Qed.

Lemma walk_loop_correct D u0 len : 0 < D -> forall (fuel : nat) (start consumed : Z) (conj : bool) (q : Z),
  0 <= start -> 0 <= consumed ->
  (consumed < len -> u0 + consumed - start = q * D + (if conj then D / 2 + 1 else 0)) ->
  2 * (len - consumed) + 2 * start + (if conj then 1 else 0) <= Z.of_nat fuel ->
  exists l, walk_loop fuel D len start consumed conj = Some l /\
    map (fullbin D) l = map (fun j => (u0 + j) mod D) (range consumed len) /\
    Forall (in_half D) l.
Proof.
  intros HD fuel. induction fuel as [|f IH]; intros start consumed conj q Hs Hc Hinv Hfuel.
  - cbn [walk_loop]. destruct (consumed <? len) eqn:E.
    + apply Z.ltb_lt in E. destruct conj; lia.
    + apply Z.ltb_ge in E. exists []. rewrite range_empty by lia. repeat split; constructor.
  - cbn [walk_loop]. destruct (consumed <? len) eqn:E.
    2:{ apply Z.ltb_ge in E. exists []. rewrite range_empty by lia. repeat split; constructor. }
    apply Z.ltb_lt in E. specialize (Hinv E). cbv zeta.
    set (half := D / 2 + 1) in *.
    destruct conj.
    + (* mirrored segment *)
      replace (half - 2 + D mod 2) with (D - half) by (unfold half; lia).
      set (cap := D - half).
      assert (0 <= cap) as Hcap by (unfold cap, half; lia).
      set (seg := Z.max 0 (Z.min (start + len - consumed) cap - start)).
      assert (0 <= seg) as Hseg by (unfold seg; lia).
      destruct (IH (Z.max 0 (start - cap)) (consumed + seg) false (q + 1)) as (rest & Hrest & Hmap & Hall).
      * lia.
      * lia.
      * intros Hlt. unfold seg in *. lia.
      * unfold seg in *. lia.
      * rewrite Hrest. eexists; split; [reflexivity|]. split.
        -- rewrite map_app, Hmap, map_map.
           rewrite (range_split consumed (consumed + seg) len) by (unfold seg; lia).
           rewrite map_app. f_equal.
           replace (range consumed (consumed + seg)) with (range (0 + consumed) (seg + consumed)) by (f_equal; lia).
           rewrite map_range_shift. apply map_ext_range. intros p Hp.
           unfold fullbin; cbn [fst snd].
           symmetry. apply (mod_from_quot D _ q); [exact HD | |]; unfold seg, cap, half in *; lia.
        -- apply Forall_app. split; [|exact Hall].
           apply Forall_forall. intros e He. apply in_map_iff in He. destruct He as (p & <- & Hp).
           apply in_range in Hp. unfold in_half; cbn [fst snd]. unfold seg, cap, half in *. lia.
    + (* direct segment *)
      set (seg := Z.max 0 (Z.min (start + len - consumed) half - start)).
      assert (0 <= seg) as Hseg by (unfold seg; lia).
      destruct (IH (Z.max 0 (start - half)) (consumed + seg) true q) as (rest & Hrest & Hmap & Hall).
      * lia.
      * lia.
      * intros Hlt. fold half. unfold seg in *. lia.
      * unfold seg, half in *. lia.
      * rewrite Hrest. eexists; split; [reflexivity|]. split.
        -- rewrite map_app, Hmap, map_map.
           rewrite (range_split consumed (consumed + seg) len) by (unfold seg; lia).
           rewrite map_app. f_equal.
           replace (range consumed (consumed + seg)) with (range (0 + consumed) (seg + consumed)) by (f_equal; lia).
           rewrite map_range_shift. apply map_ext_range. intros p Hp.
           unfold fullbin; cbn [fst snd].
           symmetry. apply (mod_from_quot D _ q); [exact HD | |]; unfold seg, half in *; lia.
        -- apply Forall_app. split; [|exact Hall].
           apply Forall_forall. intros e He. apply in_map_iff in He. destruct He as (p & <- & Hp).
           apply in_range in Hp. unfold in_half; cbn [fst snd]. unfold seg, half in *.
           split; [lia | discriminate].
Qed.

Theorem walk_correct_l D start len :
  0 < D -> 0 <= start -> 0 <= len ->
  exists l, walk D start len = Some l /\
    map (fullbin D) l = map (fun j => (start + j) mod D) (range 0 len) /\
    Forall (in_half D) l.
Proof.
  intros HD Hs Hl. unfold walk.
  apply (walk_loop_correct D start len HD _ start 0 false 0); lia.
Qed.

Lemma map_length_eq {X Y Z'} (f : X -> Z') (g : Y -> Z') l m : map f l = map g m -> length l = length m.
Proof. intros H. rewrite <- (map_length f l), H, map_length. reflexivity. Qed.

Theorem walk_length_l D start len l :
  0 < D -> 0 <= start -> 0 <= len -> walk D start len = Some l -> len = ZList.len l.
Proof.
  intros HD Hs Hl Hw. destruct (walk_correct_l D start len HD Hs Hl) as (l' & Hw' & Hmap & _).
  rewrite Hw in Hw'. inversion Hw'; subst l'. apply map_length_eq in Hmap.
  unfold ZList.len. rewrite Hmap. unfold range. rewrite range_nat_length. lia.
Qed.

(* the pre-fix code used the parity of the half-spectrum length; kept as a record of
   the finding: with that parity the walk is wrong already for D = 4 *)
Definition walk_loop_oldpar_step (D len start consumed : Z) : Z * Z :=
  (* the mirrored segment of the old code: capacity half - 2 + half mod 2 *)
  let half := D / 2 + 1 in (half - 2 + half mod 2, D - half).
Example old_parity_refuted : fst (walk_loop_oldpar_step 4 4 0 0) <> snd (walk_loop_oldpar_step 4 4 0 0).
Proof. vm_compute. discriminate. Qed.

Example walk_example :
  walk 8 6 5 = Some [(2, true); (1, true); (0, false); (1, false); (2, false)].
Proof. vm_compute. reflexivity. Qed.
