(* Z-indexed list operations used by the short-integration model (C03 / C01-SI):
   NumPy basic slicing with non-negative bounds, "last n" slices, index ranges,
   and their algebra.  Definitions are total and computable; every lemma is
   closed under the global context. *)
From Coq Require Import ZArith List Bool Lia.
Import ListNotations.
Open Scope Z_scope.

Section Defs.
  Context {A : Type}.

  Definition zlen (l : list A) : Z := Z.of_nat (length l).
  (* l[:n], n >= 0 (n < 0 is never used by the model; gives []) *)
  Definition zfirstn (n : Z) (l : list A) : list A := firstn (Z.to_nat n) l.
  (* l[n:], n >= 0 *)
  Definition zskipn (n : Z) (l : list A) : list A := skipn (Z.to_nat n) l.
  (* l[a:b] for 0 <= a (NumPy clips b to the length; b <= a gives []) *)
  Definition slice (a b : Z) (l : list A) : list A := zfirstn (b - a) (zskipn a l).
  (* l[-n:] for n >= 1; for n >= len l the whole list (as NumPy does) *)
  Definition zlastn (n : Z) (l : list A) : list A := zskipn (zlen l - n) l.
  (* l[i] with a default outside [0, len l) *)
  Definition znth (i : Z) (l : list A) (d : A) : A :=
    if i <? 0 then d else nth (Z.to_nat i) l d.
  Definition zrepeat (x : A) (n : Z) : list A := repeat x (Z.to_nat n).
  (* l with l[i] replaced (unchanged when i is out of range) *)
  Fixpoint upd_nat (i : nat) (x : A) (l : list A) : list A :=
    match l with
    | [] => []
    | y :: t => match i with O => x :: t | S j => y :: upd_nat j x t end
    end.
  Definition zupd (i : Z) (x : A) (l : list A) : list A :=
    if i <? 0 then l else upd_nat (Z.to_nat i) x l.
End Defs.

(* [a; a+1; ...; a+n-1] *)
Definition zrange (a n : Z) : list Z := map (fun k => a + Z.of_nat k) (seq 0 (Z.to_nat n)).


(* a few facts the 8.16 standard library lacks *)
Section NatAux.
  Context {A : Type}.
  Lemma skipn_skipn_nat (a b : nat) (l : list A) : skipn a (skipn b l) = skipn (a + b) l.
  Proof.
    revert l; induction b; intros l.
    - now rewrite Nat.add_0_r.
    - rewrite Nat.add_succ_r. destruct l; simpl; [now rewrite skipn_nil | apply IHb].
  Qed.
  Lemma nth_skipn_nat (i n : nat) (l : list A) d : nth i (skipn n l) d = nth (n + i) l d.
  Proof.
    revert l; induction n; intros l; simpl; [reflexivity|].
    destruct l; simpl; [now destruct i | apply IHn].
  Qed.
  Lemma nth_firstn_nat (i n : nat) (l : list A) d : (i < n)%nat -> nth i (firstn n l) d = nth i l d.
  Proof.
    revert i l; induction n; intros i l H; [lia|].
    destruct l; simpl; [reflexivity|]. destruct i; [reflexivity|]. apply IHn. lia.
  Qed.
End NatAux.

Section Lemmas.
  Context {A : Type}.
  Implicit Types l : list A.

  Lemma zlen_nonneg l : 0 <= zlen l.
  Proof. unfold zlen; lia. Qed.

  Lemma zlen_nil : zlen (@nil A) = 0.
  Proof. reflexivity. Qed.

  Lemma zlen_app l1 l2 : zlen (l1 ++ l2) = zlen l1 + zlen l2.
  Proof. unfold zlen; rewrite app_length; lia. Qed.

  Lemma zlen_cons x l : zlen (x :: l) = 1 + zlen l.
  Proof. unfold zlen; simpl length; lia. Qed.

  Lemma zlen_zero_nil l : zlen l = 0 -> l = [].
  Proof. destruct l; [reflexivity | unfold zlen; simpl; lia]. Qed.

  Lemma zlen_zrepeat (x : A) n : zlen (zrepeat x n) = Z.max 0 n.
  Proof. unfold zlen, zrepeat; rewrite repeat_length; lia. Qed.

  Lemma zlen_zfirstn n l : zlen (zfirstn n l) = Z.max 0 (Z.min n (zlen l)).
  Proof. unfold zlen, zfirstn; rewrite firstn_length; lia. Qed.

  Lemma zlen_zskipn n l : zlen (zskipn n l) = Z.max 0 (zlen l - Z.max 0 n).
  Proof. unfold zlen, zskipn; rewrite skipn_length; lia. Qed.

  Lemma zlen_slice a b l : 0 <= a ->
    zlen (slice a b l) = Z.max 0 (Z.min b (zlen l) - a).
  Proof. intros; unfold slice; rewrite zlen_zfirstn, zlen_zskipn; lia. Qed.

  Lemma zlen_zlastn n l : 0 <= n -> zlen (zlastn n l) = Z.min n (zlen l).
  Proof. intros; unfold zlastn; rewrite zlen_zskipn; pose proof (zlen_nonneg l); lia. Qed.

  Lemma zfirstn_all n l : zlen l <= n -> zfirstn n l = l.
  Proof. unfold zlen, zfirstn; intros; apply firstn_all2; lia. Qed.

  Lemma zfirstn_nonpos n l : n <= 0 -> zfirstn n l = [].
  Proof. unfold zfirstn; intros; replace (Z.to_nat n) with O by lia; reflexivity. Qed.

  Lemma zskipn_nonpos n l : n <= 0 -> zskipn n l = l.
  Proof. unfold zskipn; intros; replace (Z.to_nat n) with O by lia; reflexivity. Qed.

  Lemma zskipn_all n l : zlen l <= n -> zskipn n l = [].
  Proof. unfold zlen, zskipn; intros; apply skipn_all2; lia. Qed.

  Lemma zfirstn_zskipn n l : zfirstn n l ++ zskipn n l = l.
  Proof. apply firstn_skipn. Qed.

  Lemma zfirstn_app_l n l1 l2 : n <= zlen l1 -> zfirstn n (l1 ++ l2) = zfirstn n l1.
  Proof.
    unfold zlen, zfirstn; intros. rewrite firstn_app.
    replace (Z.to_nat n - length l1)%nat with O by lia. simpl. apply app_nil_r.
  Qed.

  Lemma zfirstn_app_r n l1 l2 : zlen l1 <= n ->
    zfirstn n (l1 ++ l2) = l1 ++ zfirstn (n - zlen l1) l2.
  Proof.
    unfold zlen, zfirstn; intros. rewrite firstn_app.
    rewrite firstn_all2 by lia. f_equal. f_equal. lia.
  Qed.

  Lemma zskipn_app_l n l1 l2 : 0 <= n <= zlen l1 ->
    zskipn n (l1 ++ l2) = zskipn n l1 ++ l2.
  Proof.
    unfold zlen, zskipn; intros. rewrite skipn_app.
    replace (Z.to_nat n - length l1)%nat with O by lia. reflexivity.
  Qed.

  Lemma zskipn_app_r n l1 l2 : zlen l1 <= n ->
    zskipn n (l1 ++ l2) = zskipn (n - zlen l1) l2.
  Proof.
    unfold zlen, zskipn; intros. rewrite skipn_app.
    rewrite skipn_all2 by lia. simpl. f_equal. lia.
  Qed.

  Lemma zskipn_zskipn a b l : 0 <= a -> 0 <= b -> zskipn a (zskipn b l) = zskipn (a + b) l.
  Proof.
    unfold zskipn; intros. rewrite skipn_skipn_nat. f_equal. lia.
  Qed.

  Lemma zfirstn_zfirstn a b l : zfirstn a (zfirstn b l) = zfirstn (Z.min a b) l.
  Proof.
    unfold zfirstn. rewrite firstn_firstn. f_equal. lia.
  Qed.

  Lemma zskipn_zfirstn_comm a b l : 0 <= a -> 0 <= b ->
    zskipn a (zfirstn (a + b) l) = zfirstn b (zskipn a l).
  Proof.
    unfold zskipn, zfirstn; intros.
    replace (Z.to_nat (a + b)) with (Z.to_nat a + Z.to_nat b)%nat by lia.
    revert l. induction (Z.to_nat a) as [|k IH]; intros l; simpl.
    - reflexivity.
    - destruct l; simpl; [now rewrite firstn_nil | apply IH].
  Qed.

  Lemma slice_empty a b l : b <= a -> slice a b l = [].
  Proof. intros; unfold slice; apply zfirstn_nonpos; lia. Qed.

  Lemma slice_full l : slice 0 (zlen l) l = l.
  Proof. unfold slice. rewrite zskipn_nonpos by lia. apply zfirstn_all; lia. Qed.

  Lemma slice_0 b l : slice 0 b l = zfirstn b l.
  Proof. unfold slice. rewrite zskipn_nonpos by lia. f_equal; lia. Qed.

  Lemma slice_to_end a b l : zlen l <= b -> slice a b l = zskipn a l.
  Proof.
    intros; unfold slice. pose proof (zlen_nonneg l).
    destruct (Z_le_gt_dec a b).
    - apply zfirstn_all. rewrite zlen_zskipn. lia.
    - rewrite zfirstn_nonpos by lia. symmetry. apply zskipn_all. lia.
  Qed.

  (* a slice of a concatenation that lies in the left / right / across *)
  Lemma slice_app_l a b l1 l2 : 0 <= a -> b <= zlen l1 ->
    slice a b (l1 ++ l2) = slice a b l1.
  Proof.
    intros; unfold slice.
    destruct (Z_le_gt_dec a (zlen l1)).
    - rewrite zskipn_app_l by lia. apply zfirstn_app_l. rewrite zlen_zskipn; lia.
    - rewrite !zfirstn_nonpos by lia. reflexivity.
  Qed.

  Lemma slice_app_r a b l1 l2 : zlen l1 <= a ->
    slice a b (l1 ++ l2) = slice (a - zlen l1) (b - zlen l1) l2.
  Proof.
    intros; unfold slice. rewrite zskipn_app_r by lia. f_equal; lia.
  Qed.

  Lemma slice_app_mid a b l1 l2 : 0 <= a <= zlen l1 -> zlen l1 <= b ->
    slice a b (l1 ++ l2) = zskipn a l1 ++ zfirstn (b - zlen l1) l2.
  Proof.
    intros; unfold slice. rewrite zskipn_app_l by lia.
    rewrite zfirstn_app_r by (rewrite zlen_zskipn; lia).
    f_equal. f_equal. rewrite zlen_zskipn. lia.
  Qed.

  Lemma slice_split a m b l : 0 <= a <= m -> m <= b ->
    slice a b l = slice a m l ++ slice m b l.
  Proof.
    intros. unfold slice.
    rewrite <- (zfirstn_zskipn (m - a) (zskipn a l)) at 1.
    destruct (Z_le_gt_dec (zlen (zskipn a l)) (m - a)).
    - rewrite (zfirstn_all (m - a)) by lia.
      rewrite (zskipn_all (m - a)) by lia. rewrite app_nil_r.
      rewrite (zfirstn_all (b - a)) by lia.
      assert (zskipn m l = []) as ->.
      { apply zskipn_all. rewrite zlen_zskipn in l0. lia. }
      unfold zfirstn. rewrite firstn_nil. now rewrite app_nil_r.
    - rewrite zfirstn_app_r by (rewrite zlen_zfirstn; lia).
      f_equal. rewrite zlen_zfirstn. rewrite zskipn_zskipn by lia.
      replace (m - a + a) with m by lia. f_equal. lia.
  Qed.

  Lemma zlastn_app_shift n l1 l2 : 0 <= n -> n <= zlen l1 -> zlen l2 <= n ->
    zlastn n (l1 ++ l2) = zskipn (zlen l2) (zlastn n l1) ++ l2.
  Proof.
    intros; unfold zlastn. rewrite zlen_app. pose proof (zlen_nonneg l2).
    rewrite zskipn_zskipn by lia.
    rewrite zskipn_app_l by lia. f_equal. f_equal. lia.
  Qed.

  Lemma zlastn_app_long n l1 l2 : 0 <= n -> n <= zlen l2 ->
    zlastn n (l1 ++ l2) = zlastn n l2.
  Proof.
    intros; unfold zlastn. rewrite zlen_app.
    rewrite zskipn_app_r by lia. f_equal. lia.
  Qed.

  Lemma zlastn_slice n b l : 0 <= n <= b -> b <= zlen l ->
    slice (b - n) b l = zlastn n (zfirstn b l).
  Proof.
    intros; unfold zlastn, slice. rewrite zlen_zfirstn.
    replace (Z.max 0 (Z.min b (zlen l)) - n) with (b - n) by lia.
    assert (E : zskipn (b - n) (zfirstn ((b - n) + n) l) = zfirstn n (zskipn (b - n) l))
      by (apply zskipn_zfirstn_comm; lia).
    replace ((b - n) + n) with b in E by lia. rewrite E. f_equal; lia.
  Qed.

  (* ---- znth ---- *)
  Lemma znth_app_l i l1 l2 d : i < zlen l1 -> znth i (l1 ++ l2) d = znth i l1 d.
  Proof.
    unfold znth, zlen; intros. destruct (i <? 0) eqn:E; [reflexivity|].
    apply app_nth1. lia.
  Qed.

  Lemma znth_app_r i l1 l2 d : zlen l1 <= i ->
    znth i (l1 ++ l2) d = znth (i - zlen l1) l2 d.
  Proof.
    unfold znth, zlen; intros.
    destruct (i <? 0) eqn:E; [lia|]. destruct (i - _ <? 0) eqn:E2; [lia|].
    rewrite app_nth2 by lia. f_equal. lia.
  Qed.

  Lemma znth_overflow i l d : zlen l <= i -> znth i l d = d.
  Proof.
    unfold znth, zlen; intros. destruct (i <? 0); [reflexivity|].
    apply nth_overflow. lia.
  Qed.

  Lemma znth_neg i l d : i < 0 -> znth i l d = d.
  Proof. unfold znth; intros. destruct (i <? 0) eqn:E; [reflexivity | lia]. Qed.

  Lemma znth_zrepeat i (x : A) n : znth i (zrepeat x n) x = x.
  Proof.
    unfold znth, zrepeat. destruct (i <? 0); [reflexivity|].
    destruct (Nat.lt_ge_cases (Z.to_nat i) (Z.to_nat n)).
    - apply nth_repeat.
    - apply nth_overflow. rewrite repeat_length. lia.
  Qed.

  Lemma znth_zskipn i n l d : 0 <= i -> 0 <= n -> znth i (zskipn n l) d = znth (i + n) l d.
  Proof.
    unfold znth, zskipn; intros.
    destruct (i <? 0) eqn:E; [lia|]. destruct (i + n <? 0) eqn:E2; [lia|].
    rewrite nth_skipn_nat. f_equal. lia.
  Qed.

  Lemma znth_zfirstn i n l d : i < n -> znth i (zfirstn n l) d = znth i l d.
  Proof.
    unfold znth, zfirstn; intros. destruct (i <? 0) eqn:E; [reflexivity|].
    apply nth_firstn_nat. lia.
  Qed.

  Lemma znth_slice i a b l d : 0 <= a -> 0 <= i < b - a ->
    znth i (slice a b l) d = znth (a + i) l d.
  Proof.
    intros; unfold slice. rewrite znth_zfirstn by lia.
    rewrite znth_zskipn by lia. f_equal; lia.
  Qed.

  Lemma znth_zlastn i n l d : 0 <= i -> 0 <= n <= zlen l ->
    znth i (zlastn n l) d = znth (i + zlen l - n) l d.
  Proof.
    intros; unfold zlastn. rewrite znth_zskipn by lia. f_equal; lia.
  Qed.

  Lemma znth_ext l1 l2 d : zlen l1 = zlen l2 ->
    (forall i, 0 <= i < zlen l1 -> znth i l1 d = znth i l2 d) -> l1 = l2.
  Proof.
    unfold zlen, znth; intros HL H.
    apply (nth_ext _ _ d d); [lia|].
    intros n Hn. specialize (H (Z.of_nat n)).
    destruct (Z.of_nat n <? 0) eqn:E; [lia|].
    rewrite Nat2Z.id in H. apply H. lia.
  Qed.

  (* ---- upd ---- *)
  Lemma upd_nat_length i (x : A) l : length (upd_nat i x l) = length l.
  Proof. revert i; induction l; intros [|i]; simpl; auto. Qed.

  Lemma zlen_zupd i (x : A) l : zlen (zupd i x l) = zlen l.
  Proof. unfold zupd, zlen; destruct (i <? 0); [reflexivity|]. now rewrite upd_nat_length. Qed.

  Lemma nth_upd_nat i j (x : A) l d : (i < length l)%nat ->
    nth j (upd_nat i x l) d = if Nat.eqb j i then x else nth j l d.
  Proof.
    revert i j; induction l; intros [|i] [|j]; simpl; intros; try lia; auto.
    apply IHl. lia.
  Qed.

  Lemma znth_zupd i j (x : A) l d : 0 <= i < zlen l -> 0 <= j ->
    znth j (zupd i x l) d = if j =? i then x else znth j l d.
  Proof.
    unfold znth, zupd, zlen; intros.
    destruct (i <? 0) eqn:E; [lia|]. destruct (j <? 0) eqn:E2; [lia|].
    rewrite nth_upd_nat by lia.
    destruct (Nat.eqb_spec (Z.to_nat j) (Z.to_nat i)), (Z.eqb_spec j i); try reflexivity; lia.
  Qed.
End Lemmas.

(* ---- zrange ---- *)
Lemma zlen_zrange a n : zlen (zrange a n) = Z.max 0 n.
Proof. unfold zlen, zrange; rewrite map_length, seq_length; lia. Qed.

Lemma zrange_nonpos a n : n <= 0 -> zrange a n = [].
Proof. unfold zrange; intros; replace (Z.to_nat n) with O by lia; reflexivity. Qed.

Lemma seq_shift_k k s len : seq (s + k) len = map (fun x => (x + k)%nat) (seq s len).
Proof.
  revert s; induction len; intros; simpl; [reflexivity|].
  f_equal. apply (IHlen (S s)).
Qed.

Lemma zrange_app a n m : 0 <= n -> 0 <= m ->
  zrange a (n + m) = zrange a n ++ zrange (a + n) m.
Proof.
  intros; unfold zrange.
  replace (Z.to_nat (n + m)) with (Z.to_nat n + Z.to_nat m)%nat by lia.
  rewrite seq_app, map_app. f_equal. simpl.
  pose proof (seq_shift_k (Z.to_nat n) 0 (Z.to_nat m)) as E. simpl in E. rewrite E.
  rewrite map_map. apply map_ext. intros; lia.
Qed.

Lemma zrange_cons a n : 0 < n -> zrange a n = a :: zrange (a + 1) (n - 1).
Proof.
  intros. replace n with (1 + (n - 1)) at 1 by lia.
  rewrite zrange_app by lia. simpl. unfold zrange at 1. simpl. f_equal; f_equal; lia.
Qed.

Lemma zrange_snoc a n : 0 <= n -> zrange a (n + 1) = zrange a n ++ [a + n].
Proof.
  intros. rewrite zrange_app by lia. f_equal. unfold zrange; simpl. f_equal; lia.
Qed.

Lemma in_zrange x a n : In x (zrange a n) <-> a <= x < a + n.
Proof.
  unfold zrange. rewrite in_map_iff. split.
  - intros (k & <- & Hk). apply in_seq in Hk. lia.
  - intros. exists (Z.to_nat (x - a)). split; [lia|]. apply in_seq. lia.
Qed.

Lemma znth_zrange i a n d : 0 <= i < n -> znth i (zrange a n) d = a + i.
Proof.
  unfold znth, zrange; intros. destruct (i <? 0) eqn:E; [lia|].
  rewrite nth_indep with (d' := a + Z.of_nat 0)
    by (rewrite map_length, seq_length; lia).
  rewrite (map_nth (fun k => a + Z.of_nat k)). rewrite seq_nth by lia. lia.
Qed.

Lemma zskipn_zrange k a n : 0 <= k <= n -> zskipn k (zrange a n) = zrange (a + k) (n - k).
Proof.
  intros. replace n with (k + (n - k)) at 1 by lia.
  rewrite zrange_app by lia.
  rewrite zskipn_app_r by (rewrite zlen_zrange; lia).
  rewrite zlen_zrange. rewrite zskipn_nonpos by lia. reflexivity.
Qed.

Lemma zfirstn_zrange k a n : 0 <= k <= n -> zfirstn k (zrange a n) = zrange a k.
Proof.
  intros. replace n with (k + (n - k)) at 1 by lia.
  rewrite zrange_app by lia.
  rewrite zfirstn_app_l by (rewrite zlen_zrange; lia).
  apply zfirstn_all. rewrite zlen_zrange; lia.
Qed.

Section MapLemmas.
  Context {A B : Type}.

  Lemma zlen_map (f : A -> B) l : zlen (map f l) = zlen l.
  Proof. unfold zlen; now rewrite map_length. Qed.

  Lemma zskipn_map (f : A -> B) n l : zskipn n (map f l) = map f (zskipn n l).
  Proof. unfold zskipn. apply skipn_map. Qed.

  Lemma zfirstn_map (f : A -> B) n l : zfirstn n (map f l) = map f (zfirstn n l).
  Proof. unfold zfirstn. apply firstn_map. Qed.

  Lemma slice_map (f : A -> B) a b l : slice a b (map f l) = map f (slice a b l).
  Proof. unfold slice. now rewrite zskipn_map, zfirstn_map. Qed.

  Lemma znth_map (f : A -> B) i l d d' : 0 <= i < zlen l ->
    znth i (map f l) d' = f (znth i l d).
  Proof.
    unfold znth, zlen; intros. destruct (i <? 0) eqn:E; [lia|].
    rewrite nth_indep with (d' := f d) by (rewrite map_length; lia).
    apply map_nth.
  Qed.

  Lemma map_zrange_ext (f g : Z -> B) a n :
    (forall i, a <= i < a + n -> f i = g i) -> map f (zrange a n) = map g (zrange a n).
  Proof. intros H. apply map_ext_in. intros x Hx. apply H. now apply in_zrange. Qed.
End MapLemmas.

Lemma slice_zrange a b s n : 0 <= a <= b -> b <= n ->
  slice a b (zrange s n) = zrange (s + a) (b - a).
Proof.
  intros. unfold slice. rewrite zskipn_zrange by lia.
  apply zfirstn_zrange. lia.
Qed.

Lemma map_zrange_shift {B} (f : Z -> B) a k n :
  map f (zrange (a + k) n) = map (fun i => f (i + k)) (zrange a n).
Proof.
  unfold zrange. rewrite !map_map. apply map_ext. intros; f_equal; lia.
Qed.
