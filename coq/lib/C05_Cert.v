(* Tactics for the generated C05 correspondence files: certify that a value observed on
   the implementation lies within a tolerance of the R-valued model (gen/Banks.v through
   C05/Model.v), and decide the range-test Props on rational inputs. *)
From Coq Require Import Reals ZArith Lra Lia Bool.
From Interval Require Import Tactic.
From Flocq Require Import Core.Raux.
From Verif Require Import gen.Scales gen.Banks C19.Proofs C05.Model C05.Proofs C05.Gabor C05.Gammatone C05.Response lib.Cert.
Open Scope R_scope.

(* closed nat / Z subterms -> numerals *)
Ltac c05_consts :=
  repeat match goal with
         | |- context [INR ?n] =>
           let z := eval vm_compute in (Z.of_nat n) in
           replace (INR n) with (IZR z) by (rewrite INR_IZR_INZ; apply f_equal; vm_compute; reflexivity)
         end;
  repeat match goal with
         | |- context [IZR ?z] =>
           lazymatch z with
           | Z0 => fail | Zpos _ => fail | Zneg _ => fail
           | _ => let z' := eval vm_compute in z in change z with z'
           end
         end;
  repeat match goal with
         | |- context [pow ?x ?n] =>
           let n' := eval vm_compute in n in
           lazymatch n with n' => fail | _ => change (pow x n) with (pow x n') end
         end.

(* resolve every decision, innermost first: after [destruct] each branch whose new
   hypothesis Interval refutes is closed at once, so the work is linear in the number of [if]s *)
Ltac c05_itv := first [ interval | interval with (i_prec 90) ].
Ltac c05_kill H :=
  exfalso;
  lazymatch type of H with
  | ~ (?a < ?b) => apply H; c05_itv
  | ~ (?a > ?b) => apply H; c05_itv
  | ~ (?a <= ?b) => apply H; c05_itv
  | ~ (?a >= ?b) => apply H; c05_itv
  | (?a < ?b) => apply (Rlt_not_le _ _ H); c05_itv
  | (?a > ?b) => apply (Rlt_not_le _ _ H); c05_itv
  | (?a <= ?b) => apply (Rle_not_lt _ _ H); c05_itv
  | (?a >= ?b) => apply (Rle_not_lt _ _ (Rge_le _ _ H)); c05_itv
  end.

Ltac c05_split :=
  repeat match goal with
         | |- context [if ?d then _ else _] =>
           lazymatch d with
           | context [if _ then _ else _] => fail
           | _ => let H := fresh "Hd" in destruct d as [H|H]; try (solve [c05_kill H])
           end
         end.

Ltac c05_cert :=
  c05_consts; cbv zeta; unfold Rmax, Rmin, Rpower; c05_split;
  first [ interval | interval with (i_prec 90) ].

(* value of the triangular response at a bin through the all-bins theorem *)
Ltac c05_tri :=
  rewrite tri_response_spec_l by (try lra; try lia; vm_compute; split; congruence);
  unfold triangle, bin_hz; simpl negb; simpl andb; cbv iota.

(* Fbank: compare squares (sqrt near 0 amplifies rounding at the edge bins) *)
Lemma fbank_resp_sq a h rate l m r (width k : Z) :
  0 <= l -> l < m -> m < r -> r <= rate / 2 -> (0 < width)%Z -> (0 <= k < dft_size h width)%Z ->
  fbank_freq_resp a h rate l m r width k ^ 2
  = triangle (mel_h2s l) (mel_h2s m) (mel_h2s r) (mel_h2s (bin_hz (negb h && negb a) rate width k)).
Proof.
  intros. rewrite fbank_response_spec_l by assumption. apply sqrt_sq.
  apply triangle_range; apply mel_h2s_incr_l; lra.
Qed.

Ltac c05_fbank :=
  rewrite fbank_resp_sq by (try lra; try lia; vm_compute; split; congruence);
  unfold triangle, bin_hz; simpl negb; simpl andb; cbv iota.

(* range test on rational inputs: [fl] is floor(rate/2) *)
Ltac c05_floor fl :=
  repeat match goal with
         | |- context [Zfloor ?x] => replace (Zfloor x) with fl by (symmetry; apply Zfloor_imp; simpl; lra)
         end.
Ltac c05_guard fl :=
  cbv beta iota zeta delta [tri_rejects_some tri_rejects_none fbank_rejects_some fbank_rejects_none
                            gabor_rejects_some gabor_rejects_none gammatone_rejects_some gammatone_rejects_none];
  c05_floor fl; simpl IZR; unfold Rmin;
  repeat match goal with |- context [Rle_dec ?a ?b] => destruct (Rle_dec a b) end;
  first [ lra
        | intros [? | [? [? | ?]]]; lra
        | intros [? | ?]; lra
        | intro; lra
        | left; lra
        | right; split; [lra | left; lra]
        | right; split; [lra | right; lra]
        | let H := fresh in intro H; apply H; lra ].
