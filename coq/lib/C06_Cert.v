(* Tactics used by the generated correspondence files of C06: certify with
   Interval that a value observed on the implementation lies within a tolerance
   of the R-valued model (C06/ModelR.v). *)
From Coq Require Import Reals ZArith List Lia.
From Interval Require Import Tactic.
From Verif Require Import gen.Scales C06.Model C06.CplxProofs C06.ModelR C06.ValueLemmas.
Import ListNotations.
Open Scope R_scope.

(* replace the list of unrolled bins by its value and unfold the sum *)
Ltac eval_img_list :=
  match goal with
  | |- context [img_list ?w ?a ?b ?n] =>
    let l := eval vm_compute in (img_list w a b n) in
    change (img_list w a b n) with l
  end;
  cbn [map fold_left].

Ltac c06_gabor :=
  rewrite Rimg_sum_as_list; eval_img_list;
  unfold gabor_img, gabor_G, gabor_K, bin_angle;
  interval with (i_prec 60).

Ltac c06_gt_re :=
  rewrite Cimg_sum_fst; eval_img_list;
  unfold gt_img, gt_H, bin_angle, Cdiv, Cmul, Cpow, Cmul; cbn [fst snd fact Nat.sub Nat.mul Nat.add INR];
  interval with (i_prec 60).
Ltac c06_gt_im :=
  rewrite Cimg_sum_snd; eval_img_list;
  unfold gt_img, gt_H, bin_angle, Cdiv, Cmul, Cpow, Cmul; cbn [fst snd fact Nat.sub Nat.mul Nat.add INR];
  interval with (i_prec 60).

Ltac c06_fbank :=
  unfold fbank_val, fbank_tri, mel_h2s; cbv zeta;
  match goal with |- context [Rle_dec ?a ?b] => destruct (Rle_dec a b) end;
  first [ interval with (i_prec 60)
        | exfalso;
          match goal with
          | H : ~ (?a <= ?b) |- _ => apply H; interval with (i_prec 60)
          | H : (?a <= ?b) |- _ => apply (Rle_not_lt _ _ H); interval with (i_prec 60)
          end ].

(* decisions on reals: each side by interval *)
Ltac c06_decide := first [ interval with (i_prec 60) ].
