(* Small shared facts for C07: unit-modulus phasors, finite sums over integer
   ranges (the "for period in range(lo, hi + 1)" loops of filters.py), and a few
   real-analysis helpers.  No Interval here (keeps the load time small). *)
From Coq Require Import Reals Lra Lia ZArith List.
From Coquelicot Require Import Complex.
From Flocq Require Import Core.Raux.
Open Scope R_scope.

(** * Phasors: [cis x] is what [np.exp(1j * x)] means *)
Definition cis (x : R) : C := (cos x, sin x).

Lemma Cmod_cis x : Cmod (cis x) = 1.
Proof.
  unfold Cmod, cis; simpl.
  replace (cos x * (cos x * 1) + sin x * (sin x * 1)) with ((sin x)² + (cos x)²) by (unfold Rsqr; ring).
  rewrite sin2_cos2. apply sqrt_1.
Qed.

Lemma Cmod_scal_cis r x : Cmod (RtoC r * cis x)%C = Rabs r.
Proof. rewrite Cmod_mult, Cmod_R, Cmod_cis. ring. Qed.

Lemma Cmod_scal_cis_pos r x : 0 <= r -> Cmod (RtoC r * cis x)%C = r.
Proof. intros H. rewrite Cmod_scal_cis. apply Rabs_pos_eq; exact H. Qed.

Lemma Cmod_Cconj z : Cmod (Cconj z) = Cmod z.
Proof.
  destruct z as [a b]. unfold Cmod, Cconj; simpl. f_equal. ring.
Qed.

Lemma Cconj_cis x : Cconj (cis x) = cis (- x).
Proof. unfold Cconj, cis; simpl. rewrite cos_neg, sin_neg. reflexivity. Qed.

Lemma Cmod_triangle3 a b c : Cmod (a + b + c)%C <= Cmod a + Cmod b + Cmod c.
Proof.
  eapply Rle_trans; [apply Cmod_triangle|].
  apply Rplus_le_compat_r. apply Cmod_triangle.
Qed.

Lemma Cmod_minus_triangle a b : Cmod (a - b)%C <= Cmod a + Cmod b.
Proof.
  unfold Cminus. eapply Rle_trans; [apply Cmod_triangle|]. rewrite Cmod_opp. lra.
Qed.

(** * Sums over the integer range [lo, lo + n) and [lo, hi] *)
Section Sums.
  Context {A : Type} (zero : A) (add : A -> A -> A).

  Fixpoint sum_from (f : Z -> A) (lo : Z) (n : nat) : A :=
    match n with
    | O => zero
    | S k => add (f lo) (sum_from f (lo + 1)%Z k)
    end.

  (* [for p in range(lo, hi + 1)]: empty when hi < lo *)
  Definition sum_range (f : Z -> A) (lo hi : Z) : A :=
    sum_from f lo (Z.to_nat (hi + 1 - lo)).
End Sums.

Definition Rsum := @sum_range R 0 Rplus.
Definition Csum := @sum_range C (RtoC 0) Cplus.

Lemma Cmod_sum_from_le (f : Z -> C) (g : Z -> R) n : forall lo,
  (forall p, (lo <= p < lo + Z.of_nat n)%Z -> Cmod (f p) <= g p) ->
  Cmod (sum_from (RtoC 0) Cplus f lo n) <= sum_from 0 Rplus g lo n.
Proof.
  induction n as [|n IH]; intros lo H.
  - simpl. rewrite Cmod_0. lra.
  - cbn [sum_from]. eapply Rle_trans; [apply Cmod_triangle|].
    apply Rplus_le_compat.
    + apply H. lia.
    + apply IH. intros p Hp. apply H. lia.
Qed.

Lemma Cmod_Csum_le (f : Z -> C) (g : Z -> R) lo hi :
  (forall p, (lo <= p <= hi)%Z -> Cmod (f p) <= g p) ->
  Cmod (Csum f lo hi) <= Rsum g lo hi.
Proof.
  intros H. unfold Csum, Rsum, sum_range. apply Cmod_sum_from_le.
  intros p Hp. apply H. lia.
Qed.

Lemma sum_from_nonneg (g : Z -> R) n : forall lo,
  (forall p, (lo <= p < lo + Z.of_nat n)%Z -> 0 <= g p) -> 0 <= sum_from 0 Rplus g lo n.
Proof.
  induction n as [|n IH]; intros lo H; simpl; [lra|].
  apply Rplus_le_le_0_compat; [apply H; lia | apply IH; intros; apply H; lia].
Qed.

Lemma sum_from_split (g : Z -> R) n m : forall lo,
  sum_from 0 Rplus g lo (n + m) = sum_from 0 Rplus g lo n + sum_from 0 Rplus g (lo + Z.of_nat n) m.
Proof.
  induction n as [|n IH]; intros lo.
  - simpl. replace (lo + 0)%Z with lo by lia. lra.
  - cbn [sum_from plus]. rewrite IH.
    replace (lo + 1 + Z.of_nat n)%Z with (lo + Z.of_nat (S n))%Z by lia. lra.
Qed.

(* a nonnegative summand over a sub-range is bounded by the sum over the range *)
Lemma Rsum_mono_range (g : Z -> R) lo hi lo' hi' :
  (forall p, 0 <= g p) -> (lo' <= lo)%Z -> (hi <= hi')%Z ->
  Rsum g lo hi <= Rsum g lo' hi'.
Proof.
  intros Hg Hl Hh. unfold Rsum, sum_range.
  destruct (Z_lt_le_dec hi lo) as [Hempty|Hne].
  - replace (Z.to_nat (hi + 1 - lo)) with O by lia. simpl.
    apply sum_from_nonneg. intros; apply Hg.
  - replace (Z.to_nat (hi' + 1 - lo')) with
      (Z.to_nat (lo - lo') + (Z.to_nat (hi + 1 - lo) + Z.to_nat (hi' - hi)))%nat by lia.
    rewrite sum_from_split, sum_from_split.
    replace (lo' + Z.of_nat (Z.to_nat (lo - lo')))%Z with lo by lia.
    pose proof (sum_from_nonneg g (Z.to_nat (lo - lo')) lo' (fun p _ => Hg p)).
    pose proof (sum_from_nonneg g (Z.to_nat (hi' - hi)) (lo + Z.of_nat (Z.to_nat (hi + 1 - lo))) (fun p _ => Hg p)).
    lra.
Qed.

Lemma Rsum_3 (g : Z -> R) (a : Z) : Rsum g a (a + 2) = g a + g (a + 1)%Z + g (a + 2)%Z.
Proof.
  unfold Rsum, sum_range. replace (a + 2 + 1 - a)%Z with 3%Z by lia.
  simpl. replace (a + 1 + 1)%Z with (a + 2)%Z by lia. lra.
Qed.

(** * Real helpers *)
Lemma exp_le_of_le a b : a <= b -> exp a <= exp b.
Proof. intros [H|H]; [left; apply exp_increasing; exact H | right; rewrite H; reflexivity]. Qed.

Lemma Zceil_pos x : 0 < x -> (1 <= Zceil x)%Z.
Proof.
  intros H. pose proof (Zceil_ub x) as Hu.
  assert (0 < IZR (Zceil x)) by lra.
  apply lt_IZR in H0. lia.
Qed.

Lemma sqr_ge_of_abs_ge a b : 0 <= b -> b <= Rabs a -> b * b <= a * a.
Proof.
  intros Hb H. replace (a * a) with (Rabs a * Rabs a).
  - apply Rmult_le_compat; lra.
  - unfold Rabs; destruct (Rcase_abs a); ring.
Qed.
