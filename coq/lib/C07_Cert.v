(* Tactics used by the generated C07 correspondence files: unfold the model down to
   elementary functions and certify by Interval that a value observed on the
   implementation lies within a tolerance of it. *)
From Coq Require Import Reals Lra Lia ZArith.
From Interval Require Import Tactic.
From Coquelicot Require Import Complex.
From Flocq Require Import Core.Raux.
From Verif Require Import gen.Scales lib.Cert lib.C07_Base C07.Model C07.Forms.
Open Scope R_scope.

(* factorials as binary integers (INR (fact 14) in unary nat is out of reach) *)
Fixpoint Zfact (k : nat) : Z :=
  match k with O => 1%Z | S j => (Z.of_nat (S j) * Zfact j)%Z end.
Lemma INR_fact_Z k : INR (fact k) = IZR (Zfact k).
Proof.
  induction k as [|k IH].
  - reflexivity.
  - change (fact (S k)) with (S k * fact k)%nat. rewrite mult_INR, IH.
    change (Zfact (S k)) with (Z.of_nat (S k) * Zfact k)%Z. rewrite mult_IZR, <- INR_IZR_INZ. reflexivity.
Qed.
Ltac fact_literals :=
  repeat match goal with
         | |- context [INR (fact ?k)] =>
           rewrite (INR_fact_Z k); let v := eval vm_compute in (Zfact k) in change (Zfact k) with v
         end.

Ltac c07_unfold :=
  cbv beta iota zeta delta
    [bank_edge gabor_std gabor_bandwidth_const gabor_diff_ang gabor_f_support_const
     gabor_t_support_const gabor_diff_samps_real gabor_ir_const gabor_env gabor_fr_const
     gabor_fr_term gt_alpha_const gt_log_alpha gt_log_c gt_offset gt_supp_a gt_diff_ang
     gt_newton_start h2a a2h tri_K_real fbank_K_real tri_div_term tri_denom0 tri_denom tri_num_re tri_num_im
     tri_numer0 gt_H_mag gt_H_arg mel_h2s mel_s2h linear_h2s linear_s2h octave_h2s octave_s2h];
  fact_literals;
  cbn [INR Nat.sub Nat.mul Nat.add].

Ltac c07 := c07_unfold; cert.

Lemma fst_Cplus (a b : C) : fst (a + b)%C = fst a + fst b.
Proof. reflexivity. Qed.
Lemma snd_Cplus (a b : C) : snd (a + b)%C = snd a + snd b.
Proof. reflexivity. Qed.
Lemma fst_C0 : fst (RtoC 0) = 0.
Proof. reflexivity. Qed.
Lemma snd_C0 : snd (RtoC 0) = 0.
Proof. reflexivity. Qed.

(* expand a Csum / Rsum over a concrete integer range *)
Ltac expand_sum :=
  unfold Csum, Rsum, sum_range;
  match goal with |- context [Z.to_nat ?z] => let n := eval vm_compute in (Z.to_nat z) in change (Z.to_nat z) with n end;
  cbn [sum_from]; repeat rewrite ?fst_Cplus, ?snd_Cplus, ?fst_C0, ?snd_C0;
  repeat match goal with |- context [(?a + ?b)%Z] =>
    match a with _ => let v := eval vm_compute in (a + b)%Z in change (a + b)%Z with v end end.

Lemma Zfloor_eq x (n : Z) : IZR n <= x < IZR n + 1 -> Zfloor x = n.
Proof. intros H. apply Zfloor_imp. rewrite plus_IZR. simpl. lra. Qed.
Lemma Zceil_eq x (n : Z) : IZR n - 1 < x <= IZR n -> Zceil x = n.
Proof. intros H. apply Zceil_imp. rewrite minus_IZR. simpl. lra. Qed.
