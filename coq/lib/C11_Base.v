(* C11 - vocabulary shared by the generated file gen/ReadSignal.v and the
   hand-written model C11/Model.v.  Definitions only.

   Strings are lists of code points ([Z]); [\w] of Python's [re] is a parameter
   [w : Z -> bool] of everything that uses it (instantiated with the ASCII class
   for evaluation), so that the theorems hold for whatever Unicode word class the
   interpreter uses, as long as ',' and ':' are not word characters. *)
From Coq Require Import ZArith List Bool.
Import ListNotations.
Open Scope Z_scope.

Definition str := list Z.

(* exception classes that read_signal's own code can raise, as an enum *)
Inductive exn :=
| EIO        (* IOError / OSError and subclasses (FileNotFoundError ...) *)
| EValue     (* ValueError *)
| EKey       (* KeyError *)
| EType      (* TypeError *)
| EZeroDiv   (* ZeroDivisionError *)
| ECodec.    (* whatever a third-party decoder raises on data it cannot read *)

Inductive res (A : Type) : Type :=
| Ok (a : A)
| Err (e : exn).
Arguments Ok {A} a.
Arguments Err {A} e.

Definition bind {A B} (r : res A) (f : A -> res B) : res B :=
  match r with Ok a => f a | Err e => Err e end.

Definition is_ok {A} (r : res A) : bool := match r with Ok _ => true | Err _ => false end.

(* ---- strings ---------------------------------------------------------- *)

Fixpoint eqb_str (a b : str) : bool :=
  match a, b with
  | [], [] => true
  | x :: a', y :: b' => (x =? y) && eqb_str a' b'
  | _, _ => false
  end.

(* x in {..} / x in SOME_SET *)
Definition mem_str (x : str) (l : list str) : bool := existsb (eqb_str x) l.

Fixpoint is_prefix (p s : str) : bool :=
  match p, s with
  | [], _ => true
  | x :: p', y :: s' => (x =? y) && is_prefix p' s'
  | _ :: _, [] => false
  end.

(* s.endswith(suf) *)
Definition ends_with (s suf : str) : bool := is_prefix (rev suf) (rev s).

(* longest prefix that does not contain sep *)
Fixpoint take_until (sep : Z) (s : str) : str :=
  match s with
  | [] => []
  | c :: t => if c =? sep then [] else c :: take_until sep t
  end.

(* s.rsplit(chr(sep), maxsplit=1)[-1] : what follows the last separator, or the
   whole string when there is none *)
Definition last_seg (sep : Z) (s : str) : str := rev (take_until sep (rev s)).

(* truthiness of an optional string argument: None and "" are falsy *)
Definition truthy_str (k : option str) : bool :=
  match k with Some (_ :: _) => true | _ => false end.

(* ---- the regular expression ^(ark|scp)(,\w+)*: ------------------------- *)

Definition ch_comma : Z := 44.
Definition ch_colon : Z := 58.
Definition s_ark : str := [97; 114; 107].
Definition s_scp : str := [115; 99; 112].

Inductive tstate := TSep | TComma | TWord.

(* automaton for (,\w+)*: followed by anything.  TSep: an option list element has
   just been completed (or none started); TComma: a ',' was read, a word character
   must follow; TWord: inside \w+ . *)
Fixpoint re_opts (w : Z -> bool) (st : tstate) (s : str) : bool :=
  match s with
  | [] => false
  | c :: t =>
    match st with
    | TSep => if c =? ch_colon then true
              else if c =? ch_comma then re_opts w TComma t else false
    | TComma => if w c then re_opts w TWord t else false
    | TWord => if w c then re_opts w TWord t
               else if c =? ch_colon then true
               else if c =? ch_comma then re_opts w TComma t else false
    end
  end.

(* re.match(r"^(ark|scp)(,\w+)*:", s) is not None *)
Definition re_table (w : Z -> bool) (s : str) : bool :=
  match s with
  | a :: b :: c :: t =>
    (eqb_str [a; b; c] s_ark || eqb_str [a; b; c] s_scp) && re_opts w TSep t
  | _ => false
  end.

(* ASCII instance of \w : [A-Za-z0-9_] *)
Definition ascii_word (c : Z) : bool :=
  ((48 <=? c) && (c <=? 57)) || ((65 <=? c) && (c <=? 90))
  || ((97 <=? c) && (c <=? 122)) || (c =? 95).

(* ---- arrays with integer-coded elements -------------------------------- *)

Inductive dtype := I8 | U8 | I16 | U16 | I32 | U32 | I64 | U64 | F32 | F64.

Definition dtype_eqb (a b : dtype) : bool :=
  match a, b with
  | I8, I8 | U8, U8 | I16, I16 | U16, U16 | I32, I32 | U32, U32
  | I64, I64 | U64, U64 | F32, F32 | F64, F64 => true
  | _, _ => false
  end.

Definition itemsize (d : dtype) : Z :=
  match d with
  | I8 | U8 => 1 | I16 | U16 => 2 | I32 | U32 | F32 => 4 | I64 | U64 | F64 => 8
  end.

Definition wrap_s (bits v : Z) : Z := (v + 2 ^ (bits - 1)) mod 2 ^ bits - 2 ^ (bits - 1).
Definition wrap_u (bits v : Z) : Z := v mod 2 ^ bits.

(* ndarray.astype on one integer-coded element: C conversion between integer
   types wraps; towards a float type the (small) integer is kept *)
Definition cast1 (d : dtype) (v : Z) : Z :=
  match d with
  | I8 => wrap_s 8 v | I16 => wrap_s 16 v | I32 => wrap_s 32 v | I64 => wrap_s 64 v
  | U8 => wrap_u 8 v | U16 => wrap_u 16 v | U32 => wrap_u 32 v | U64 => wrap_u 64 v
  | F32 | F64 => v
  end.

Definition in_range (d : dtype) (v : Z) : bool :=
  match d with
  | I8 => (-128 <=? v) && (v <? 128)
  | I16 => (-32768 <=? v) && (v <? 32768)
  | I32 => (-2147483648 <=? v) && (v <? 2147483648)
  | I64 => (-9223372036854775808 <=? v) && (v <? 9223372036854775808)
  | U8 => (0 <=? v) && (v <? 256)
  | U16 => (0 <=? v) && (v <? 65536)
  | U32 => (0 <=? v) && (v <? 4294967296)
  | U64 => (0 <=? v) && (v <? 18446744073709551616)
  | F32 => (-16777216 <=? v) && (v <=? 16777216)
  | F64 => (-9007199254740992 <=? v) && (v <=? 9007199254740992)
  end.

Record arr := mk_arr { a_dt : dtype; a_shape : list Z; a_data : list Z }.

Definition astype (d : dtype) (a : arr) : arr :=
  mk_arr d (a_shape a) (map (cast1 d) (a_data a)).

(* the trailing "if dtype: data = data.astype(dtype)" *)
Definition cast_opt (d : option dtype) (a : arr) : arr :=
  match d with Some d' => astype d' a | None => a end.

Definition arr_wf (a : arr) : Prop :=
  Z.of_nat (length (a_data a)) = fold_right Z.mul 1 (a_shape a)
  /\ Forall (fun v => in_range (a_dt a) v = true) (a_data a).

(* ---- which reader read_signal hands the source to ---------------------- *)

Inductive reader :=
| RTable | RWav | RHdf5 | RNpy | RNpz | RPt | RSph | RKaldi | RFile | RSoundfile.

(* association list lookup: archive[key] *)
Fixpoint assoc {A} (k : str) (l : list (str * A)) : option A :=
  match l with
  | [] => None
  | (k', v) :: t => if eqb_str k k' then Some v else assoc k t
  end.
