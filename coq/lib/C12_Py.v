(* C12 - small vocabulary shared by the generated file gen/Sphere.v and the
   hand-written model C12/Model.v: byte strings, the three sample codings, the
   header variables, and Python truthiness of the (optional) header values. *)
From Coq Require Import ZArith List Bool.
Import ListNotations.
Open Scope Z_scope.

Definition bytes := list Z.           (* every element is meant to be in 0..255 *)

Inductive coding := Pcm | Ulaw | Alaw.

Definition coding_eqb (a b : coding) : bool :=
  match a, b with
  | Pcm, Pcm | Ulaw, Ulaw | Alaw, Alaw => true
  | _, _ => false
  end.

(* the six variables assigned by the key dispatch of read_header *)
Inductive hfield := FChans | FCount | FRate | FSize | FOrder | FCoding.

(* [not x] in Python is [negb (truthy x)]:  None, 0 and "" are falsy *)
Definition truthy_z (o : option Z) : bool :=
  match o with Some z => negb (z =? 0) | None => false end.
Definition truthy_s (o : option bytes) : bool :=
  match o with Some (_ :: _) => true | _ => false end.
Definition truthy_c (o : option coding) : bool :=
  match o with Some _ => true | None => false end.

(* [x == k] for an optional int, [len(s) == k] (only evaluated behind
   [s and ...]), [t == "pcm"] for an optional coding *)
Definition oz_eqb (o : option Z) (k : Z) : bool :=
  match o with Some z => z =? k | None => false end.
Definition os_len_eqb (o : option bytes) (k : Z) : bool :=
  match o with Some s => Z.of_nat (length s) =? k | None => false end.
Definition oc_eqb (o : option coding) (c : coding) : bool :=
  match o with Some d => coding_eqb d c | None => false end.
