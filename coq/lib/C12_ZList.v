(* Lists indexed by Z: Python's len(l), l[:n], l[n:] for n >= 0, and
   [x] * n.  Generally useful little library (no axioms). *)
From Coq Require Import ZArith List Bool Lia.
Import ListNotations.
Open Scope Z_scope.

Definition len {A} (l : list A) : Z := Z.of_nat (length l).
Definition take {A} (n : Z) (l : list A) : list A := firstn (Z.to_nat n) l.
Definition drop {A} (n : Z) (l : list A) : list A := skipn (Z.to_nat n) l.
Definition zrepeat {A} (x : A) (n : Z) : list A := repeat x (Z.to_nat n).

Section Lemmas.
  Context {A : Type}.
  Implicit Types l : list A.

  Lemma len_nonneg l : 0 <= len l.
  Proof. unfold len; lia. Qed.

  Lemma len_nil : len (@nil A) = 0.
  Proof. reflexivity. Qed.

  Lemma len_cons (x : A) l : len (x :: l) = len l + 1.
  Proof. unfold len; simpl length; lia. Qed.

  Lemma len_app l1 l2 : len (l1 ++ l2) = len l1 + len l2.
  Proof. unfold len; rewrite app_length; lia. Qed.

  Lemma len_zero_nil l : len l = 0 -> l = [].
  Proof. destruct l; [reflexivity | rewrite len_cons; pose proof (len_nonneg l); lia]. Qed.

  Lemma len_take n l : 0 <= n -> len (take n l) = Z.min n (len l).
  Proof. intros; unfold len, take; rewrite firstn_length; lia. Qed.

  Lemma len_drop n l : 0 <= n -> len (drop n l) = Z.max 0 (len l - n).
  Proof. intros; unfold len, drop; rewrite skipn_length; lia. Qed.

  Lemma take_drop n l : take n l ++ drop n l = l.
  Proof. apply firstn_skipn. Qed.

  Lemma take_neg n l : n <= 0 -> take n l = [].
  Proof. intros; unfold take; replace (Z.to_nat n) with 0%nat by lia; reflexivity. Qed.

  Lemma drop_neg n l : n <= 0 -> drop n l = l.
  Proof. intros; unfold drop; replace (Z.to_nat n) with 0%nat by lia; reflexivity. Qed.

  Lemma take_all n l : len l <= n -> take n l = l.
  Proof. intros; unfold take, len in *; apply firstn_all2; lia. Qed.

  Lemma drop_all n l : len l <= n -> drop n l = [].
  Proof. intros; unfold drop, len in *; apply skipn_all2; lia. Qed.

  Lemma take_app_le n l1 l2 : n <= len l1 -> take n (l1 ++ l2) = take n l1.
  Proof.
    intros; unfold take, len in *; rewrite firstn_app.
    replace (Z.to_nat n - length l1)%nat with 0%nat by lia.
    simpl; apply app_nil_r.
  Qed.

  Lemma drop_app_le n l1 l2 : n <= len l1 -> drop n (l1 ++ l2) = drop n l1 ++ l2.
  Proof.
    intros; unfold drop, len in *; rewrite skipn_app.
    replace (Z.to_nat n - length l1)%nat with 0%nat by lia; reflexivity.
  Qed.

  Lemma take_app_ge n l1 l2 : len l1 <= n -> take n (l1 ++ l2) = l1 ++ take (n - len l1) l2.
  Proof.
    intros; unfold take, len in *; rewrite firstn_app.
    rewrite firstn_all2 by lia. f_equal. f_equal. lia.
  Qed.

  Lemma drop_app_ge n l1 l2 : len l1 <= n -> drop n (l1 ++ l2) = drop (n - len l1) l2.
  Proof.
    intros; unfold drop, len in *; rewrite skipn_app.
    rewrite skipn_all2 by lia. simpl. f_equal. lia.
  Qed.

  Lemma take_app_exact l1 l2 : take (len l1) (l1 ++ l2) = l1.
  Proof. rewrite take_app_le by lia. apply take_all; lia. Qed.

  Lemma drop_app_exact l1 l2 : drop (len l1) (l1 ++ l2) = l2.
  Proof. rewrite drop_app_ge by lia. rewrite Z.sub_diag. apply drop_neg; lia. Qed.

  Lemma take_app_len n l1 l2 : len l1 = n -> take n (l1 ++ l2) = l1.
  Proof. intros <-. apply take_app_exact. Qed.

  Lemma drop_app_len n l1 l2 : len l1 = n -> drop n (l1 ++ l2) = l2.
  Proof. intros <-. apply drop_app_exact. Qed.

  Lemma drop_drop n m l : 0 <= n -> 0 <= m -> drop n (drop m l) = drop (m + n) l.
  Proof.
    intros; unfold drop.
    replace (Z.to_nat (m + n)) with (Z.to_nat m + Z.to_nat n)%nat by lia.
    revert l. induction (Z.to_nat m) as [|k IH]; intros l; simpl.
    - reflexivity.
    - destruct l; simpl; [now rewrite skipn_nil | apply IH].
  Qed.

  Lemma take_take n m l : 0 <= n -> n <= m -> take n (take m l) = take n l.
  Proof.
    intros; unfold take. rewrite firstn_firstn. f_equal. lia.
  Qed.

  Lemma take_drop_split n m l :
    0 <= n -> 0 <= m -> take (n + m) l = take n l ++ take m (drop n l).
  Proof.
    intros. unfold take, drop.
    replace (Z.to_nat (n + m)) with (Z.to_nat n + Z.to_nat m)%nat by lia.
    revert l. induction (Z.to_nat n) as [|k IH]; intros l; simpl.
    - reflexivity.
    - destruct l; simpl.
      + now rewrite firstn_nil.
      + f_equal. apply IH.
  Qed.

  Lemma len_zrepeat (x : A) n : 0 <= n -> len (zrepeat x n) = n.
  Proof. intros; unfold len, zrepeat; rewrite repeat_length; lia. Qed.

  Lemma zrepeat_add (x : A) n m : 0 <= n -> 0 <= m -> zrepeat x (n + m) = zrepeat x n ++ zrepeat x m.
  Proof.
    intros; unfold zrepeat. replace (Z.to_nat (n + m)) with (Z.to_nat n + Z.to_nat m)%nat by lia.
    apply repeat_app.
  Qed.

  Lemma drop_zrepeat (x : A) n m : 0 <= n -> n <= m -> drop n (zrepeat x m) = zrepeat x (m - n).
  Proof.
    intros. replace m with (n + (m - n)) at 1 by lia.
    rewrite zrepeat_add by lia.
    rewrite <- (len_zrepeat x n) at 1 by lia. apply drop_app_exact.
  Qed.
End Lemmas.

Lemma len_map {A B} (f : A -> B) (l : list A) : len (map f l) = len l.
Proof. unfold len; now rewrite map_length. Qed.

Lemma take_map {A B} (f : A -> B) n (l : list A) : take n (map f l) = map f (take n l).
Proof. unfold take; apply firstn_map. Qed.

Lemma len_concat_cons {A} (c : list A) cs : len (concat (c :: cs)) = len c + len (concat cs).
Proof. simpl; apply len_app. Qed.
