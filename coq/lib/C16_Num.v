(* Number structures for the C16 (Standardize) model.

   [NumOps] is a bare record of field operations (no laws), so that one model
   text can be executed over canonical rationals ([QcNum], vm_compute) and
   reasoned about over the reals ([RNum]).  [Lawful] states the laws the
   generic theorems need: a field with Leibniz equality, of characteristic 0,
   whose zero test is exact.  Both instances are proved lawful below. *)
From Coq Require Import ZArith List Bool QArith Qabs Qcanon Reals Field Lra Lia Qreals.
Import ListNotations.

Record NumOps := mkNum {
  T : Type;
  n0 : T;
  n1 : T;
  nadd : T -> T -> T;
  nmul : T -> T -> T;
  nsub : T -> T -> T;
  nopp : T -> T;
  ndiv : T -> T -> T;
  ninv : T -> T;
  nofZ : Z -> T;           (* an integer (a count, a literal) as a number *)
  nis0 : T -> bool;        (* x == 0, i.e. "not x" of Python on a float *)
  nisclose : T -> T -> bool (* np.isclose(a, b) with the default rtol=1e-5, atol=1e-8 *)
}.

Fixpoint npow (N : NumOps) (x : T N) (k : nat) : T N :=
  match k with O => n1 N | S k' => nmul N x (npow N x k') end.

Record Lawful (N : NumOps) : Prop := mkLawful {
  law_field : field_theory (n0 N) (n1 N) (nadd N) (nmul N) (nsub N) (nopp N) (ndiv N) (ninv N) eq;
  law_ofZ_0 : nofZ N 0 = n0 N;
  law_ofZ_1 : nofZ N 1 = n1 N;
  law_ofZ_add : forall a b, nofZ N (a + b) = nadd N (nofZ N a) (nofZ N b);
  law_ofZ_neq0 : forall z, z <> 0%Z -> nofZ N z <> n0 N;
  law_is0 : forall x, nis0 N x = true <-> x = n0 N
}.

(* ---------------- canonical rationals: the executable instance ---------------- *)
Definition qc_ofZ (z : Z) : Qc := Q2Qc (inject_Z z).
Definition qc_abs (x : Qc) : Qc := Q2Qc (Qabs x).
Definition qc_leb (x y : Qc) : bool := Qle_bool x y.
Definition qc_atol : Qc := Q2Qc (1 # 100000000).
Definition qc_rtol : Qc := Q2Qc (1 # 100000).

Definition QcNum : NumOps :=
  mkNum Qc (Q2Qc 0) (Q2Qc 1) Qcplus Qcmult Qcminus Qcopp Qcdiv Qcinv qc_ofZ
        (fun x => Qeq_bool x 0)
        (fun a b => qc_leb (qc_abs (Qcminus a b)) (Qcplus qc_atol (Qcmult qc_rtol (qc_abs b)))).

(* ---------------- reals ---------------- *)
Definition r_is0 (x : R) : bool := if Req_EM_T x 0 then true else false.
Definition r_isclose (a b : R) : bool :=
  if Rle_dec (Rabs (a - b)) (1 / 100000000 + 1 / 100000 * Rabs b) then true else false.

Definition RNum : NumOps :=
  mkNum R 0%R 1%R Rplus Rmult Rminus Ropp Rdiv Rinv IZR r_is0 r_isclose.

(* ---------------- lawfulness ---------------- *)
Lemma QcNum_lawful : Lawful QcNum.
Proof.
  constructor; simpl.
  - exact Qcft.
  - reflexivity.
  - reflexivity.
  - intros a b. unfold qc_ofZ, Qcplus. apply Qc_is_canon.
    unfold Q2Qc, this. rewrite !Qred_correct. rewrite inject_Z_plus. reflexivity.
  - intros z Hz H. unfold qc_ofZ in H.
    apply (f_equal this) in H. unfold Q2Qc, this in H.
    assert (E : (inject_Z z == 0)%Q).
    { rewrite <- (Qred_correct (inject_Z z)). rewrite H. apply Qred_correct. }
    unfold Qeq in E. simpl in E. lia.
  - intros x. rewrite Qeq_bool_iff. split.
    + intros E. apply Qc_is_canon. unfold Q2Qc, this at 2. rewrite Qred_correct. exact E.
    + intros ->. reflexivity.
Qed.

Lemma RNum_lawful : Lawful RNum.
Proof.
  constructor; simpl.
  - exact Rfield.
  - reflexivity.
  - reflexivity.
  - exact plus_IZR.
  - intros z Hz. apply not_0_IZR. exact Hz.
  - intros x. unfold r_is0. destruct (Req_EM_T x 0); split; intros; try congruence; auto.
Qed.

(* np.isclose(v, 0) on the reals: |v| <= 1e-8 *)
Lemma r_isclose_0 (v : R) : r_isclose v 0 = true <-> (Rabs v <= 1 / 100000000)%R.
Proof.
  unfold r_isclose. rewrite Rminus_0_r, Rabs_R0, Rmult_0_r, Rplus_0_r.
  destruct (Rle_dec (Rabs v) (1 / 100000000)); split; intros; try congruence; auto.
Qed.
