(* C17 - vocabulary shared by the generated decision tables (gen/StatsIO.v) and
   the hand-written model (C17/Model.v): exception classes, results, dtype tags,
   save targets, read_signal decoders, string suffix test, the three
   classification predicates the loader applies to stored numbers, and the
   decimal key names "arr_<n>".  Definitions and their basic lemmas only. *)
From Coq Require Import List String Ascii Bool Arith Lia.
From Coq Require Import Decimal DecimalNat DecimalString.
Import ListNotations.
Open Scope string_scope.

(* ---- exceptions and results -------------------------------------------- *)

Inductive exn :=
| ValueError | IOError | TypeError | KeyError | IndexError | AttributeError
| ImportError | OtherError.

Definition exn_eqb (a b : exn) : bool :=
  match a, b with
  | ValueError, ValueError | IOError, IOError | TypeError, TypeError
  | KeyError, KeyError | IndexError, IndexError | AttributeError, AttributeError
  | ImportError, ImportError | OtherError, OtherError => true
  | _, _ => false
  end.

Lemma exn_eqb_eq : forall a b, exn_eqb a b = true <-> a = b.
Proof. destruct a, b; simpl; split; intro H; try reflexivity; discriminate. Qed.

(* [except (E1, E2, ..)]: is the raised class in the tuple *)
Definition caught_by (l : list exn) (e : exn) : bool := existsb (exn_eqb e) l.

Inductive res (A : Type) := Ok (a : A) | Raise (e : exn).
Arguments Ok {A} a.
Arguments Raise {A} e.

Definition bind {A B} (r : res A) (f : A -> res B) : res B :=
  match r with Ok a => f a | Raise e => Raise e end.
Notation "x <- r ;; k" := (bind r (fun x => k)) (at level 61, r at next level, right associativity).

(* ---- dtype tags, save targets, decoders --------------------------------- *)

(* numpy float types and everything else; [DKaldi s] is a pydrobert-kaldi data
   type string ("dm", "fm"), which numpy does not understand *)
Inductive dtype := DF64 | DF32 | DKaldi (s : string) | DOtherT.

Definition dtype_eqb (a b : dtype) : bool :=
  match a, b with
  | DF64, DF64 | DF32, DF32 | DOtherT, DOtherT => true
  | DKaldi s, DKaldi t => String.eqb s t
  | _, _ => false
  end.

Lemma dtype_eqb_eq : forall a b, dtype_eqb a b = true <-> a = b.
Proof.
  destruct a, b; simpl; split; intro H; try reflexivity; try discriminate.
  - apply String.eqb_eq in H. now subst.
  - inversion H. apply String.eqb_refl.
Qed.

Inductive target := TNpy | TNpz | TRaw.

Definition target_eqb (a b : target) : bool :=
  match a, b with TNpy, TNpy | TNpz, TNpz | TRaw, TRaw => true | _, _ => false end.

(* the values of read_signal's force_as that its dispatch distinguishes *)
Inductive force_as :=
| FaTable | FaSoundfile | FaWav | FaHdf5 | FaNpy | FaNpz | FaPt | FaSph | FaKaldi
| FaFile.

Definition force_as_eqb (a b : force_as) : bool :=
  match a, b with
  | FaTable, FaTable | FaSoundfile, FaSoundfile | FaWav, FaWav | FaHdf5, FaHdf5
  | FaNpy, FaNpy | FaNpz, FaNpz | FaPt, FaPt | FaSph, FaSph | FaKaldi, FaKaldi
  | FaFile, FaFile => true
  | _, _ => false
  end.

(* ---- str.endswith -------------------------------------------------------- *)

Fixpoint ascii_list_eqb (a b : list ascii) : bool :=
  match a, b with
  | [], [] => true
  | x :: a', y :: b' => Ascii.eqb x y && ascii_list_eqb a' b'
  | _, _ => false
  end.

Lemma ascii_list_eqb_eq : forall a b, ascii_list_eqb a b = true <-> a = b.
Proof.
  induction a; destruct b; simpl; split; intro H; try reflexivity; try discriminate.
  - apply andb_true_iff in H. destruct H as [H1 H2]. apply Ascii.eqb_eq in H1.
    apply IHa in H2. now subst.
  - inversion H; subst. rewrite Ascii.eqb_refl. simpl. now apply IHa.
Qed.

Open Scope list_scope.
Definition ends_with_l (suf s : list ascii) : bool :=
  (List.length suf <=? List.length s)%nat && ascii_list_eqb (skipn (List.length s - List.length suf) s) suf.

Definition ends_with (suf s : string) : bool :=
  ends_with_l (list_ascii_of_string suf) (list_ascii_of_string s).

Lemma ends_with_l_iff : forall suf s, ends_with_l suf s = true <-> exists pre, s = pre ++ suf.
Proof.
  intros suf s. unfold ends_with_l. rewrite andb_true_iff, Nat.leb_le, ascii_list_eqb_eq. split.
  - intros [Hl He]. exists (firstn (List.length s - List.length suf) s).
    rewrite <- (firstn_skipn (List.length s - List.length suf) s) at 1. now rewrite He.
  - intros [pre ->]. rewrite app_length. split; [lia|].
    replace (List.length pre + List.length suf - List.length suf)%nat with (List.length pre) by lia.
    rewrite skipn_app, Nat.sub_diag, skipn_all. reflexivity.
Qed.

(* two suffixes of one string of the same List.length are the same *)
Lemma ends_with_l_same_length : forall a b s,
  ends_with_l a s = true -> ends_with_l b s = true -> List.length a = List.length b -> a = b.
Proof.
  intros a b s Ha Hb Hl. apply ends_with_l_iff in Ha. apply ends_with_l_iff in Hb.
  destruct Ha as [p ->]. destruct Hb as [q Hq].
  assert (List.length p = List.length q).
  { apply (f_equal (@List.length ascii)) in Hq. rewrite !app_length in Hq. lia. }
  apply (f_equal (skipn (List.length p))) in Hq.
  rewrite skipn_app, Nat.sub_diag, skipn_all in Hq. simpl in Hq.
  rewrite H, skipn_app, Nat.sub_diag, skipn_all in Hq. simpl in Hq. exact Hq.
Qed.

(* a suffix of a suffix *)
Lemma ends_with_l_trans : forall a b s,
  ends_with_l a b = true -> ends_with_l b s = true -> ends_with_l a s = true.
Proof.
  intros a b s Ha Hb. apply ends_with_l_iff in Ha. apply ends_with_l_iff in Hb.
  destruct Ha as [p ->]. destruct Hb as [q ->]. apply ends_with_l_iff.
  exists (q ++ p). now rewrite app_assoc.
Qed.

(* of two suffixes of one string the shorter is a suffix of the longer *)
Lemma ends_with_l_nested : forall a b s,
  ends_with_l a s = true -> ends_with_l b s = true -> (List.length a <= List.length b)%nat ->
  ends_with_l a b = true.
Proof.
  intros a b s Ha Hb Hl. apply ends_with_l_iff in Ha. apply ends_with_l_iff in Hb.
  destruct Ha as [p ->]. destruct Hb as [q Hq]. apply ends_with_l_iff.
  exists (skipn (List.length q) p).
  assert (Hlen : (List.length q <= List.length p)%nat).
  { apply (f_equal (@List.length ascii)) in Hq. rewrite !app_length in Hq. lia. }
  apply (f_equal (skipn (List.length q))) in Hq.
  rewrite (skipn_app (List.length q) q), Nat.sub_diag, skipn_all in Hq. simpl in Hq.
  rewrite skipn_app in Hq.
  replace (List.length q - List.length p)%nat with 0%nat in Hq by lia. simpl in Hq. now symmetry.
Qed.

Open Scope string_scope.

(* ---- classification of a stored number ----------------------------------- *)
(* what the code asks of a float it has loaded:
     v_truthy  x  =  bool(x)                           (have_stats)
     v_intlike x  =  np.isclose(np.round(x), x)        (_sanitize_stats)
     v_nonneg  x  =  x >= 0                            (_sanitize_stats)        *)
Record VClass (V : Type) := {
  v_truthy : V -> bool;
  v_intlike : V -> bool;
  v_nonneg : V -> bool
}.
Arguments v_truthy {V} _ _.
Arguments v_intlike {V} _ _.
Arguments v_nonneg {V} _ _.

(* ---- "arr_{}".format(n) --------------------------------------------------- *)

Definition dec_string (n : nat) : string := NilZero.string_of_uint (Nat.to_uint n).

Lemma to_uint_not_nil : forall n, Nat.to_uint n <> Nil.
Proof.
  intros n H. pose proof (DecimalNat.Unsigned.to_of (Nat.to_uint n)) as E.
  rewrite DecimalNat.Unsigned.of_to in E. rewrite H in E. discriminate E.
Qed.

Lemma dec_string_inj : forall a b, dec_string a = dec_string b -> a = b.
Proof.
  intros a b H. unfold dec_string in H.
  apply (f_equal NilZero.uint_of_string) in H.
  rewrite !NilZero.usu in H by apply to_uint_not_nil.
  inversion H as [H']. now apply DecimalNat.Unsigned.to_uint_inj.
Qed.

Lemma append_inj_l : forall p x y : string, p ++ x = p ++ y -> x = y.
Proof. intro p; induction p as [|c p IH]; simpl; intros x y H; [exact H|]. inversion H. now apply IH. Qed.

Lemma append_length : forall x y : string, String.length (x ++ y) = (String.length x + String.length y)%nat.
Proof. intro x; induction x as [|c x IH]; simpl; intros; [reflexivity|]. now rewrite IH. Qed.

Lemma append_inj_r : forall s x y : string, x ++ s = y ++ s -> x = y.
Proof.
  intros s x. induction x as [|c x IH]; intros [|d y]; simpl; intro H; try reflexivity.
  - exfalso. apply (f_equal String.length) in H. simpl in H. rewrite append_length in H. lia.
  - exfalso. apply (f_equal String.length) in H. simpl in H. rewrite append_length in H. lia.
  - inversion H. f_equal. now apply IH.
Qed.

Definition fmt_key (prefix suffix : string) (n : nat) : string := prefix ++ dec_string n ++ suffix.

Lemma fmt_key_inj : forall p s a b, fmt_key p s a = fmt_key p s b -> a = b.
Proof.
  intros p s a b H. unfold fmt_key in H. apply append_inj_l in H.
  apply append_inj_r in H. now apply dec_string_inj.
Qed.

(* Python truthiness of a str *)
Definition str_truthy (s : string) : bool := negb (String.eqb s "").

(* membership in a list of strings *)
Definition str_mem (k : string) (l : list string) : bool := existsb (String.eqb k) l.

Lemma str_mem_In : forall k l, str_mem k l = true <-> In k l.
Proof.
  intros k l. unfold str_mem. rewrite existsb_exists. split.
  - intros [x [Hx He]]. apply String.eqb_eq in He. now subst.
  - intro H. exists k. split; [exact H|apply String.eqb_refl].
Qed.
