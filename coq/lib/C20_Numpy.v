(* NumPy semantics used by the C20 model (hand-written: numpy is not part of /repo;
   exercised on every run by the Interval-certified correspondence of harness/c20.py).

   np.bartlett / np.blackman / np.hamming / np.hanning (numpy 2.x, function_base.py):
       if M < 1: return array([]);  if M == 1: return ones(1)
       n = arange(1 - M, M, 2)
       bartlett: where(n <= 0, 1 + n/(M-1), 1 - n/(M-1))
       blackman: 0.42 + 0.5*cos(pi*n/(M-1)) + 0.08*cos(2.0*pi*n/(M-1))
       hamming : 0.54 + 0.46*cos(pi*n/(M-1))
       hanning : 0.5 + 0.5*cos(pi*n/(M-1))
   Python's float/int  x % m  for m > 0:  x - m*floor(x/m). *)
From Coq Require Import Reals ZArith List.
Import ListNotations.
Open Scope R_scope.

Inductive np_shape := NpBartlett | NpBlackman | NpHamming | NpHanning.

(* arange(1 - M, M, 2)[k] *)
Definition np_n (M k : Z) : R := IZR (1 - M + 2 * k).

Definition np_shape_at (s : np_shape) (M k : Z) : R :=
  let n := np_n M k in
  let d := IZR M - 1 in
  match s with
  | NpBartlett => if Rle_dec n 0 then 1 + n / d else 1 - n / d
  | NpBlackman => 42 / 100 + 5 / 10 * cos (PI * n / d) + 8 / 100 * cos (2 * PI * n / d)
  | NpHamming => 54 / 100 + 46 / 100 * cos (PI * n / d)
  | NpHanning => 5 / 10 + 5 / 10 * cos (PI * n / d)
  end.

(* [0; 1; ...; n-1] as integers *)
Definition zrange (n : Z) : list Z := map Z.of_nat (seq 0 (Z.to_nat n)).

Definition np_window (s : np_shape) (M : Z) : list R :=
  if (M <? 1)%Z then [] else if (M =? 1)%Z then [1] else map (np_shape_at s M) (zrange M).

(* floor, and Python's % for a positive modulus *)
Definition Rfloor (x : R) : R := IZR (Int_part x).
Definition pymod (x m : R) : R := x - m * Rfloor (x / m).

Definition Rsum (l : list R) : R := fold_right Rplus 0 l.
