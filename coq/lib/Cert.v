(* Tactics used by the generated correspondence files: certify that a value
   observed on the implementation lies within a tolerance of the R-valued model. *)
From Coq Require Import Reals Lra.
From Interval Require Import Tactic.
Open Scope R_scope.

Ltac kill_branch :=
  match goal with
  | H : (?a < ?b) |- _ => exfalso; apply (Rlt_not_le _ _ H); interval with (i_prec 90)
  | H : (?a > ?b) |- _ => exfalso; apply (Rlt_not_le _ _ H); interval with (i_prec 90)
  | H : ~ (?a < ?b) |- _ => exfalso; apply H; interval with (i_prec 90)
  | H : ~ (?a > ?b) |- _ => exfalso; apply H; interval with (i_prec 90)
  | H : (?a <= ?b) |- _ => exfalso; apply (Rle_not_lt _ _ H); interval with (i_prec 90)
  | H : ~ (?a <= ?b) |- _ => exfalso; apply H; interval with (i_prec 90)
  end.

Ltac cert :=
  cbv zeta;
  repeat match goal with
         | |- context [Rmax ?a ?b] =>
           first [ rewrite (Rmax_right a b) by lra | rewrite (Rmax_left a b) by lra ]
         | |- context [Rmin ?a ?b] =>
           first [ rewrite (Rmin_left a b) by lra | rewrite (Rmin_right a b) by lra ]
         end;
  unfold Rpower;
  repeat match goal with |- context [if ?d then _ else _] => destruct d end;
  first [ interval with (i_prec 90) | kill_branch ].
