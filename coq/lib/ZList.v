(* Z-indexed list operations modelling NumPy 1-D basic slicing, and the lemmas the
   framing proofs need.  Polymorphic in the element type. *)
From Coq Require Import ZArith List Lia.
Import ListNotations.
Open Scope Z_scope.

Section ZList.
Context {A : Type}.
Implicit Types l m : list A.

Definition len l : Z := Z.of_nat (length l).
Definition take (n : Z) l : list A := firstn (Z.to_nat n) l.
Definition drop (n : Z) l : list A := skipn (Z.to_nat n) l.
Definition lastn (n : Z) l : list A := drop (len l - n) l.

(* Python index normalisation for slice bounds *)
Definition norm (n i : Z) : Z := if i <? 0 then Z.max 0 (i + n) else Z.min i n.
(* l[a:b], l[a:], l[:b] *)
Definition slice l (a b : Z) : list A :=
  let n := len l in take (norm n b - norm n a) (drop (norm n a) l).
Definition slice_from l (a : Z) : list A := drop (norm (len l) a) l.
Definition slice_to l (b : Z) : list A := take (norm (len l) b) l.

Lemma len_nonneg l : 0 <= len l.
Proof. unfold len; lia. Qed.

Lemma len_nil : len (@nil A) = 0.
Proof. reflexivity. Qed.

Lemma len_app l m : len (l ++ m) = len l + len m.
Proof. unfold len; rewrite app_length; lia. Qed.

Lemma len_rev l : len (rev l) = len l.
Proof. unfold len; rewrite rev_length; reflexivity. Qed.

Lemma len_take n l : len (take n l) = Z.max 0 (Z.min n (len l)).
Proof. unfold len, take; rewrite firstn_length; lia. Qed.

Lemma len_drop n l : len (drop n l) = Z.max 0 (len l - Z.max 0 n).
Proof. unfold len, drop; rewrite skipn_length; lia. Qed.

Lemma len_lastn n l : 0 <= n <= len l -> len (lastn n l) = n.
Proof. intros H; unfold lastn; rewrite len_drop; lia. Qed.

Lemma take_nonpos n l : n <= 0 -> take n l = [].
Proof. intros H; unfold take; replace (Z.to_nat n) with 0%nat by lia; reflexivity. Qed.

Lemma drop_nonpos n l : n <= 0 -> drop n l = l.
Proof. intros H; unfold drop; replace (Z.to_nat n) with 0%nat by lia; reflexivity. Qed.

Lemma take_all n l : len l <= n -> take n l = l.
Proof. unfold len, take; intros H; apply firstn_all2; lia. Qed.

Lemma drop_all n l : len l <= n -> drop n l = [].
Proof. unfold len, drop; intros H; apply skipn_all2; lia. Qed.

Lemma take_drop_id n l : take n l ++ drop n l = l.
Proof. unfold take, drop; apply firstn_skipn. Qed.

Lemma take_app_le n l m : n <= len l -> take n (l ++ m) = take n l.
Proof.
  unfold len, take; intros H. rewrite firstn_app.
  replace (Z.to_nat n - length l)%nat with 0%nat by lia. simpl; apply app_nil_r.
Qed.

Lemma take_app_ge n l m : len l <= n -> take n (l ++ m) = l ++ take (n - len l) m.
Proof.
  unfold len, take; intros H. rewrite firstn_app.
  rewrite firstn_all2 by lia. f_equal. f_equal. lia.
Qed.

Lemma drop_app_le n l m : 0 <= n <= len l -> drop n (l ++ m) = drop n l ++ m.
Proof.
  unfold len, drop; intros H. rewrite skipn_app.
  replace (Z.to_nat n - length l)%nat with 0%nat by lia. reflexivity.
Qed.

Lemma drop_app_ge n l m : len l <= n -> drop n (l ++ m) = drop (n - len l) m.
Proof.
  unfold len, drop; intros H. rewrite skipn_app.
  rewrite skipn_all2 by lia. simpl. f_equal. lia.
Qed.

Lemma drop_drop a b l : 0 <= a -> 0 <= b -> drop a (drop b l) = drop (a + b) l.
Proof.
  intros Ha Hb; unfold drop.
  replace (Z.to_nat (a + b)) with (Z.to_nat b + Z.to_nat a)%nat by lia.
  generalize (Z.to_nat a) (Z.to_nat b). clear. intros n k; revert l.
  induction k as [|k IH]; intros l; simpl; [reflexivity|].
  destruct l as [|x l]; simpl; [destruct n; reflexivity | apply IH].
Qed.

Lemma take_take a b l : take a (take b l) = take (Z.min a b) l.
Proof.
  unfold take. rewrite firstn_firstn. f_equal. lia.
Qed.

Lemma take_drop_comm a b l : 0 <= a -> 0 <= b -> take a (drop b l) = drop b (take (a + b) l).
Proof.
  intros Ha Hb; unfold take, drop.
  replace (Z.to_nat (a + b)) with (Z.to_nat b + Z.to_nat a)%nat by lia.
  apply firstn_skipn_comm.
Qed.

(* take splits additively *)
Lemma take_add a b l : 0 <= a -> 0 <= b -> take (a + b) l = take a l ++ take b (drop a l).
Proof.
  intros Ha Hb. unfold take, drop.
  replace (Z.to_nat (a + b)) with (Z.to_nat a + Z.to_nat b)%nat by lia.
  generalize (Z.to_nat a) (Z.to_nat b). clear. intros n; revert l.
  induction n as [|n IH]; intros l k; simpl; [reflexivity|].
  destruct l as [|x l]; simpl.
  - rewrite firstn_nil. reflexivity.
  - f_equal. apply IH.
Qed.

Lemma lastn_all n l : len l <= n -> lastn n l = l.
Proof. intros H; unfold lastn; apply drop_nonpos; lia. Qed.

Lemma lastn_app_le n l m : 0 <= n <= len m -> lastn n (l ++ m) = lastn n m.
Proof.
  intros H; unfold lastn. rewrite len_app.
  rewrite drop_app_ge by lia. f_equal; lia.
Qed.

Lemma lastn_app_ge n l m : len m <= n <= len l + len m -> lastn n (l ++ m) = lastn (n - len m) l ++ m.
Proof.
  intros H; unfold lastn. rewrite len_app.
  rewrite drop_app_le by lia. f_equal. f_equal. lia.
Qed.

Lemma drop_lastn k n l : 0 <= k <= n -> n <= len l -> drop k (lastn n l) = lastn (n - k) l.
Proof.
  intros Hk Hn; unfold lastn. rewrite drop_drop by lia. f_equal; lia.
Qed.

Lemma lastn_lastn k n l : 0 <= k <= n -> n <= len l -> lastn k (lastn n l) = lastn k l.
Proof.
  intros Hk Hn; unfold lastn at 1. rewrite len_lastn by lia.
  rewrite drop_lastn by lia. f_equal; lia.
Qed.

(* slices with "nice" bounds *)
Lemma norm_nonneg n i : 0 <= n -> 0 <= i -> norm n i = Z.min i n.
Proof. intros Hn Hi; unfold norm. destruct (i <? 0) eqn:E; lia. Qed.

Lemma norm_neg n i : 0 <= n -> - n <= i < 0 -> norm n i = i + n.
Proof. intros Hn Hi; unfold norm. destruct (i <? 0) eqn:E; lia. Qed.

Lemma slice_nonneg l a b : 0 <= a <= b -> slice l a b = take (b - a) (drop a l).
Proof.
  intros H; unfold slice. pose proof (len_nonneg l) as Hl.
  rewrite !norm_nonneg by lia.
  destruct (Z_le_gt_dec a (len l)) as [Ha|Ha].
  - replace (Z.min a (len l)) with a by lia.
    destruct (Z_le_gt_dec b (len l)) as [Hb|Hb].
    + replace (Z.min b (len l)) with b by lia. reflexivity.
    + replace (Z.min b (len l)) with (len l) by lia.
      rewrite !take_all; try reflexivity; rewrite len_drop; lia.
  - replace (Z.min a (len l)) with (len l) by lia.
    replace (Z.min b (len l)) with (len l) by lia.
    rewrite !drop_all by lia. unfold take; rewrite !firstn_nil; reflexivity.
Qed.

Lemma slice_from_nonneg l a : 0 <= a -> slice_from l a = drop a l.
Proof.
  intros H; unfold slice_from. pose proof (len_nonneg l).
  rewrite norm_nonneg by lia.
  destruct (Z_le_gt_dec a (len l)).
  - f_equal; lia.
  - replace (Z.min a (len l)) with (len l) by lia. rewrite !drop_all by lia. reflexivity.
Qed.

Lemma slice_from_neg l k : 0 < k <= len l -> slice_from l (- k) = lastn k l.
Proof.
  intros H; unfold slice_from, lastn. rewrite norm_neg by lia. f_equal; lia.
Qed.

Lemma slice_to_nonneg l b : 0 <= b -> slice_to l b = take b l.
Proof.
  intros H; unfold slice_to. pose proof (len_nonneg l).
  rewrite norm_nonneg by lia.
  destruct (Z_le_gt_dec b (len l)).
  - f_equal; lia.
  - replace (Z.min b (len l)) with (len l) by lia. rewrite !take_all by lia. reflexivity.
Qed.

Lemma len_slice_nonneg l a b : 0 <= a <= b -> b <= len l -> len (slice l a b) = b - a.
Proof.
  intros H Hb. rewrite slice_nonneg by lia. rewrite len_take, len_drop. lia.
Qed.

Lemma slice_app_l l m a b : 0 <= a <= b -> b <= len l -> slice (l ++ m) a b = slice l a b.
Proof.
  intros H Hb. rewrite !slice_nonneg by lia.
  rewrite drop_app_le by lia. rewrite take_app_le; [reflexivity|]. rewrite len_drop; lia.
Qed.

Lemma rev_take_drop n l : 0 <= n <= len l -> rev (take n (rev l)) = lastn n l.
Proof.
  intros H. unfold take, lastn, drop, len in *.
  rewrite firstn_rev, rev_involutive. f_equal. lia.
Qed.

End ZList.

(* integer ranges *)
Fixpoint range_nat (start : Z) (n : nat) : list Z :=
  match n with O => [] | S k => start :: range_nat (start + 1) k end.
Definition range (a b : Z) : list Z := range_nat a (Z.to_nat (b - a)).

Lemma range_nat_length s n : length (range_nat s n) = n.
Proof. revert s; induction n; intros; simpl; [reflexivity | f_equal; apply IHn]. Qed.

Lemma range_nat_app s n m : range_nat s (n + m) = range_nat s n ++ range_nat (s + Z.of_nat n) m.
Proof.
  revert s; induction n as [|n IH]; intros s; simpl.
  - f_equal; lia.
  - f_equal. rewrite IH. f_equal. f_equal. lia.
Qed.

Lemma range_split a b c : a <= b <= c -> range a c = range a b ++ range b c.
Proof.
  intros H; unfold range.
  replace (Z.to_nat (c - a)) with (Z.to_nat (b - a) + Z.to_nat (c - b))%nat by lia.
  rewrite range_nat_app. f_equal. f_equal. lia.
Qed.

Lemma range_empty a b : b <= a -> range a b = [].
Proof. intros H; unfold range. replace (Z.to_nat (b - a)) with 0%nat by lia. reflexivity. Qed.

Lemma range_cons a b : a < b -> range a b = a :: range (a + 1) b.
Proof.
  intros H; unfold range.
  replace (Z.to_nat (b - a)) with (S (Z.to_nat (b - (a + 1)))) by lia. reflexivity.
Qed.

Lemma in_range_nat x s n : In x (range_nat s n) <-> s <= x < s + Z.of_nat n.
Proof.
  revert s; induction n as [|n IH]; intros s; simpl.
  - split; [tauto | lia].
  - rewrite IH. lia.
Qed.

Lemma in_range x a b : In x (range a b) <-> a <= x < b.
Proof. unfold range. rewrite in_range_nat. lia. Qed.

Lemma map_range_shift {B} (f : Z -> B) a b k :
  map f (range (a + k) (b + k)) = map (fun i => f (i + k)) (range a b).
Proof.
  unfold range. replace (b + k - (a + k)) with (b - a) by lia.
  generalize (Z.to_nat (b - a)) as n. intros n; revert a.
  induction n as [|n IH]; intros a; simpl; [reflexivity|].
  f_equal. replace (a + k + 1) with (a + 1 + k) by lia. apply IH.
Qed.

Lemma map_ext_range {B} (f g : Z -> B) a b :
  (forall i, a <= i < b -> f i = g i) -> map f (range a b) = map g (range a b).
Proof.
  intros H. apply map_ext_in. intros i Hi. apply H. apply in_range; exact Hi.
Qed.
