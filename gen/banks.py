"""Translate the scalar formulas of pydrobert/speech/filters.py (the four filter
banks) into coq/gen/Banks.v.

What is translated (by symbolic execution of the Python statements, in order):

* every constructor: the range test (``<cls>_rejects_none`` / ``_some``, a Prop,
  for ``high_hz`` None / a number), the effective upper edge (``<cls>_high_none``
  / ``_some``) and then - as a function of that effective edge - every local
  variable and every value appended to / stored in an attribute: the vertices
  (triangular, Fbank), the edges, centres, Gabor standard deviations and support
  half-widths, gammatone alpha, c, offset and support half-widths;
* ``get_frequency_response`` of the triangular, Fbank and Gabor banks: the bin
  range (``left_idx``, ``right_idx`` resp. the period range) and the value
  written into a bin;
* the real constants of ``GaborFilterBank.get_impulse_response``;
* ``util.hertz_to_angular`` / ``angular_to_hertz`` and
  ``config.EFFECTIVE_SUPPORT_THRESHOLD``.

Flags (``analytic``, ``erb``, ``scale_l2_norm``, ``max_centered``) become ``bool``
parameters, ``order`` a ``nat``, the scaling function a pair of functions
``h2s s2h : R -> R`` (``MelScaling()`` is bound to gen/Scales.v's mel maps).
Each emitted definition is a ``let`` chain of exactly the assignments it depends on.

What is NOT translated but PINNED: statements that only move values between
containers, integer bookkeeping of the output arrays, and the complex-valued
bodies (``_h``, ``_H``, the Gabor impulse loop).  Their source text (``ast.unparse``,
so comments/layout do not matter) must equal the text recorded below, where the
hand-written model coq/C05/Model.v says how it models them.  Anything else is
``Unsupported``: the translator fails closed and the check reports the tie broken.
"""

import ast
import os
import re
import sys
from fractions import Fraction

sys.path.insert(0, os.path.dirname(os.path.abspath(__file__)))
from pyexpr import Unsupported, lit  # noqa: E402

# ---------------------------------------------------------------------------
# parameters of the emitted definitions, in canonical order, with their types

PARAM_ORDER = [
    ("h2s", "R -> R"), ("s2h", "R -> R"),
    ("p_analytic", "bool"), ("p_scale_l2_norm", "bool"), ("p_erb", "bool"), ("p_max_centered", "bool"),
    ("p_order", "nat"),
    ("p_num_filts", "R"), ("p_low_hz", "R"), ("p_high_hz", "R"), ("p_sampling_rate", "R"),
    ("p_width", "R"),
    ("x_left_intersect", "R"), ("x_right_intersect", "R"),
    ("x_left", "R"), ("x_mid", "R"), ("x_right", "R"),
    ("x_center_ang", "R"), ("x_lowest_ang", "R"), ("x_highest_ang", "R"), ("x_std", "R"),
    ("x_idx", "R"), ("x_period", "R"),
]
PTYPE = dict(PARAM_ORDER)
IDENT = re.compile(r"[A-Za-z_][A-Za-z_0-9']*")


def U(node):
    return ast.unparse(node)


def D(x):
    """Layout- and version-independent key of a statement (list): the AST dump."""
    if isinstance(x, str):
        return "\n".join(ast.dump(n) for n in ast.parse(x).body)
    if isinstance(x, list):
        return "\n".join(ast.dump(n) for n in x)
    return ast.dump(x)


class Sym:
    """Symbolic state: SSA bindings + environment of Python names."""

    def __init__(self, prefix, high_mode):
        self.prefix = prefix
        self.high_mode = high_mode  # 'none' | 'some' | 'param'
        self.binds = []  # (coqname, type, expr)
        self.bindex = {}
        self.env = {}
        self.n = {}
        self.rejects = []
        self.emitted = []  # (name, text)
        self.fams = {}
        self.used_skips = set()

    # -- bindings ---------------------------------------------------------
    def fresh(self, py):
        base = re.sub(r"[^A-Za-z0-9_]", "_", py).strip("_")
        k = self.n.get(base, 0)
        self.n[base] = k + 1
        return "v_%s_%d" % (base, k)

    def bind(self, py, typ, expr):
        name = self.fresh(py)
        self.bindex[name] = len(self.binds)
        self.binds.append((name, typ, expr))
        return (typ, name)

    def deps(self, expr):
        """Transitively needed bindings (ordered) and parameters of an expression."""
        need_b, need_p = set(), set()
        todo = [expr]
        while todo:
            e = todo.pop()
            for tok in IDENT.findall(e):
                if tok in self.bindex and tok not in need_b:
                    need_b.add(tok)
                    todo.append(self.binds[self.bindex[tok]][2])
                elif tok in PTYPE:
                    need_p.add(tok)
        bs = [b for b in self.binds if b[0] in need_b]
        ps = [p for p, _ in PARAM_ORDER if p in need_p]
        return bs, ps

    def definition(self, name, typ, expr):
        bs, ps = self.deps(expr)
        binders = "".join(" (%s : %s)" % (p, PTYPE[p]) for p in ps)
        body = "".join("  let %s := %s in\n" % (b[0], b[2]) for b in bs)
        return "Definition %s%s : %s :=\n%s  %s." % (name, binders, typ, body, expr)

    def emit(self, name, value):
        name = self.prefix + "_" + name
        if value[0] in ("R", "Z"):
            self.emitted.append((name, self.definition(name, value[0], value[1])))
        elif value[0] == "tuple":
            for i, v in enumerate(value[1]):
                if v[0] in ("R", "Z"):
                    self.emitted.append(("%s_%d" % (name, i), self.definition("%s_%d" % (name, i), v[0], v[1])))

    # -- expressions --------------------------------------------------------
    def asR(self, v):
        if v[0] == "R":
            return v[1]
        if v[0] == "Z":
            return "(IZR %s)" % v[1]
        if v[0] == "nat":
            return "(INR %s)" % v[1]
        raise Unsupported("value of kind %s used as a real" % v[0])

    def R(self, e):
        return self.asR(self.expr(e))

    def nat(self, e):
        if isinstance(e, ast.Constant) and isinstance(e.value, int) and not isinstance(e.value, bool) and e.value >= 0:
            return "%d" % e.value
        if isinstance(e, ast.Name):
            v = self.env.get(e.id)
            if v and v[0] == "nat":
                return v[1]
        if isinstance(e, ast.BinOp) and isinstance(e.op, (ast.Add, ast.Sub, ast.Mult)):
            op = {ast.Add: "+", ast.Sub: "-", ast.Mult: "*"}[type(e.op)]
            return "(%s %s %s)" % (self.nat(e.left), op, self.nat(e.right))
        raise Unsupported("natural-number expression %s" % U(e))

    def lookup(self, key, node):
        if key not in self.env:
            raise Unsupported("free name %s" % key)
        return self.env[key]

    def expr(self, e):
        """-> value ('R', str) | ('Z', str) | ('tuple', [...]) ..."""
        if isinstance(e, ast.Constant):
            if e.value is None:
                return ("none",)
            if isinstance(e.value, bool):
                return ("constbool", e.value)
            return ("R", lit(e.value))
        if isinstance(e, ast.Name):
            return self.lookup(e.id, e)
        if isinstance(e, ast.Attribute):
            t = U(e)
            if t == "np.pi":
                return ("R", "PI")
            if t == "config.EFFECTIVE_SUPPORT_THRESHOLD":
                return ("R", "effective_support_threshold")
            if isinstance(e.value, ast.Name) and e.value.id == "self":
                return self.lookup("self." + e.attr, e)
            raise Unsupported("attribute %s" % t)
        if isinstance(e, ast.Tuple):
            return ("tuple", [self.expr(x) for x in e.elts])
        if isinstance(e, ast.UnaryOp) and isinstance(e.op, ast.USub):
            return ("R", "(- %s)" % self.R(e.operand))
        if isinstance(e, ast.BinOp):
            a, b = e.left, e.right
            sym = {ast.Add: "+", ast.Sub: "-", ast.Mult: "*", ast.Div: "/"}.get(type(e.op))
            if sym:
                return ("R", "(%s %s %s)" % (self.R(a), sym, self.R(b)))
            if isinstance(e.op, ast.Pow):
                if isinstance(b, ast.Constant) and b.value == 0.5 and isinstance(b.value, float):
                    return ("R", "(sqrt %s)" % self.R(a))
                if isinstance(b, ast.Constant) and isinstance(b.value, int) and not isinstance(b.value, bool) and b.value >= 0:
                    return ("R", "(%s ^ %d)" % (self.R(a), b.value))
                if isinstance(a, ast.Constant) and isinstance(a.value, (int, float)) and a.value > 0:
                    return ("R", "(Rpower %s %s)" % (self.R(a), self.R(b)))
                raise Unsupported("power %s" % U(e))
            if isinstance(e.op, ast.FloorDiv):
                if isinstance(b, ast.Constant) and isinstance(b.value, int) and b.value > 0:
                    return ("R", "(IZR (Zfloor (%s / %d)))" % (self.R(a), b.value))
                raise Unsupported("floor division %s" % U(e))
            raise Unsupported("operator in %s" % U(e))
        if isinstance(e, ast.Call):
            if e.keywords:
                raise Unsupported("keyword arguments in %s" % U(e))
            f = U(e.func)
            args = e.args
            one = {"np.log": "ln", "np.exp": "exp", "np.sqrt": "sqrt"}
            if f in one and len(args) == 1:
                return ("R", "(%s %s)" % (one[f], self.R(args[0])))
            if f == "np.log2" and len(args) == 1:
                return ("R", "(ln %s / ln 2)" % self.R(args[0]))
            if f in ("max", "min") and len(args) == 2:
                return ("R", "(R%s %s %s)" % (f, self.R(args[0]), self.R(args[1])))
            if f in ("hertz_to_angular", "angular_to_hertz") and len(args) == 2:
                return ("R", "(%s %s %s)" % (f, self.R(args[0]), self.R(args[1])))
            if f == "math.factorial" and len(args) == 1:
                return ("R", "(INR (fact %s))" % self.nat(args[0]))
            if f == "int" and len(args) == 1:
                a = args[0]
                if isinstance(a, ast.Call) and U(a.func) == "np.ceil" and len(a.args) == 1 and not a.keywords:
                    return ("Z", "(Zceil %s)" % self.R(a.args[0]))
                if isinstance(a, ast.Call) and U(a.func) == "np.floor" and len(a.args) == 1 and not a.keywords:
                    return ("Z", "(Zfloor %s)" % self.R(a.args[0]))
                return ("Z", "(Ztrunc %s)" % self.R(a))
            if f == "MelScaling" and not args:
                return ("scale", "mel_h2s", "mel_s2h")
            if isinstance(e.func, ast.Attribute) and e.func.attr in ("hertz_to_scale", "scale_to_hertz") and len(args) == 1:
                sc = self.expr(e.func.value)
                if sc[0] != "scale":
                    raise Unsupported("scaling method on %s" % U(e.func.value))
                fn = sc[1] if e.func.attr == "hertz_to_scale" else sc[2]
                return ("R", "(%s %s)" % (fn, self.R(args[0])))
            raise Unsupported("call %s" % U(e))
        raise Unsupported("expression %s" % U(e))

    # -- conditions -----------------------------------------------------------
    def prop(self, c):
        if isinstance(c, ast.Compare):
            terms = [c.left] + list(c.comparators)
            parts = []
            for a, op, b in zip(terms, c.ops, terms[1:]):
                sym = {ast.Lt: "<", ast.LtE: "<=", ast.Gt: ">", ast.GtE: ">="}.get(type(op))
                if sym is None:
                    raise Unsupported("comparison %s" % U(c))
                parts.append("(%s %s %s)" % (self.R(a), sym, self.R(b)))
            return "(" + " /\\ ".join(parts) + ")"
        if isinstance(c, ast.BoolOp):
            vals = []
            for v in c.values:
                p = self.prop(v)  # evaluated left to right, short-circuiting like Python
                if p == "False" and isinstance(c.op, ast.And):
                    return "False"
                if p == "False":
                    continue
                vals.append(p)
            if not vals:
                return "False"
            j = " /\\ " if isinstance(c.op, ast.And) else " \\/ "
            return "(" + j.join(vals) + ")"
        if isinstance(c, ast.UnaryOp) and isinstance(c.op, ast.Not):
            return "(~ %s)" % self.prop(c.operand)
        if isinstance(c, ast.Name):
            v = self.lookup(c.id, c)
            if v[0] == "none":
                return "False"  # None is falsy
            if v[0] == "R" and c.id == "high_hz":
                return "(%s <> 0)" % v[1]  # truthiness of a float
        raise Unsupported("condition %s" % U(c))

    def branchcond(self, c):
        """A test usable in ``if .. then .. else`` -> Coq term, or None when static."""
        if isinstance(c, ast.Compare) and len(c.ops) == 1 and isinstance(c.ops[0], ast.Is):
            l, r = c.left, c.comparators[0]
            if isinstance(r, ast.Constant) and r.value is None and isinstance(l, ast.Name):
                v = self.lookup(l.id, l)
                return ("static", v[0] == "none")
            raise Unsupported("identity test %s" % U(c))
        if isinstance(c, (ast.Name, ast.Attribute)):
            v = self.expr(c)
            if v[0] == "bool":
                return ("dyn", v[1])
            raise Unsupported("truth value of %s" % U(c))
        if isinstance(c, ast.Compare) and len(c.ops) == 1:
            a, b = self.R(c.left), self.R(c.comparators[0])
            fn = {ast.Lt: "Rlt_dec", ast.LtE: "Rle_dec", ast.Gt: "Rgt_dec", ast.GtE: "Rge_dec"}.get(type(c.ops[0]))
            if fn:
                return ("dyn", "(%s %s %s)" % (fn, a, b))
        raise Unsupported("branch condition %s" % U(c))

    # -- statements -------------------------------------------------------------
    def assign(self, key, value):
        if value[0] in ("R", "Z"):
            value = self.bind(key, value[0], value[1])
        elif value[0] == "tuple":
            value = ("tuple", [self.bind(key, v[0], v[1]) if v[0] in ("R", "Z") else v for v in value[1]])
        self.env[key] = value

    def target_key(self, t):
        if isinstance(t, ast.Name):
            return t.id
        if isinstance(t, ast.Attribute) and isinstance(t.value, ast.Name) and t.value.id == "self":
            return "self." + t.attr
        if isinstance(t, ast.Subscript):
            return U(t)
        raise Unsupported("assignment target %s" % U(t))

    def run(self, stmts, cfg):
        for st in stmts:
            self.stmt(st, cfg)

    def stmt(self, st, cfg):
        text = U(st)
        skipmap = {D(t): t for t in cfg.get("skip", ())}
        if D(st) in skipmap:
            self.used_skips.add(skipmap[D(st)])
            return
        if isinstance(st, ast.Expr) and isinstance(st.value, ast.Constant) and isinstance(st.value.value, str):
            return
        if isinstance(st, ast.Assert):
            return  # mathematically true bounds on the bin range; never alter a result
        pre = cfg.get("prebind", {})
        if isinstance(st, ast.Assign) and len(st.targets) == 1 and U(st.value) in pre:
            p = pre[U(st.value)]
            t = st.targets[0]
            if isinstance(p, tuple):
                if not (isinstance(t, ast.Tuple) and len(t.elts) == len(p)):
                    raise Unsupported("tuple target expected in %s" % text)
                for el, pn in zip(t.elts, p):
                    self.env[self.target_key(el)] = (PTYPE[pn] if PTYPE[pn] in ("bool", "nat") else "R", pn)
            else:
                self.env[self.target_key(t)] = (PTYPE[p] if PTYPE[p] in ("bool", "nat") else "R", p)
            return
        if isinstance(st, ast.Assign) and len(st.targets) == 1:
            t, v = st.targets[0], st.value
            key = self.target_key(t)
            if isinstance(v, ast.List) and not v.elts:
                self.env[key] = ("list", None)
                return
            if isinstance(v, ast.Call) and U(v.func) == "tuple" and len(v.args) == 1 and not v.keywords:
                a = v.args[0]
                if isinstance(a, (ast.Name, ast.Attribute)):
                    src = self.expr(a)
                    if src[0] != "list":
                        raise Unsupported("tuple() of a non-list in %s" % text)
                    self.env[key] = src
                    return
                if isinstance(a, ast.GeneratorExp) and len(a.generators) == 1 and not a.generators[0].ifs:
                    g = a.generators[0]
                    it = g.iter
                    if isinstance(it, ast.Call) and U(it.func) == "range" and isinstance(g.target, ast.Name):
                        if len(it.args) != 2:
                            raise Unsupported("range() arity in %s" % text)
                        start, stop = self.R(it.args[0]), self.R(it.args[1])
                        saved = self.env.get(g.target.id)
                        self.env[g.target.id] = ("R", "x_idx")
                        elt = self.expr(a.elt)
                        if saved is None:
                            self.env.pop(g.target.id)
                        else:
                            self.env[g.target.id] = saved
                        elt = self.bind(key + "_elt", "R", self.asR(elt))
                        self.env[key] = ("fam", elt, ("R", start), ("R", stop))
                        self.fams[key] = self.env[key]
                        return
                    if isinstance(it, (ast.Name, ast.Attribute)):
                        src = self.expr(it)
                        if src[0] != "list" or src[1] is None or src[1][0] != "tuple":
                            raise Unsupported("generator over %s" % U(it))
                        if not (isinstance(g.target, ast.Tuple) and len(g.target.elts) == len(src[1][1])):
                            raise Unsupported("generator target in %s" % text)
                        saved = dict(self.env)
                        for el, val in zip(g.target.elts, src[1][1]):
                            self.env[self.target_key(el)] = val
                        elt = self.expr(a.elt)
                        self.env = saved
                        if elt[0] == "tuple":
                            elt = ("tuple", [self.bind(key + "_elt", x[0], x[1]) for x in elt[1]])
                        else:
                            elt = self.bind(key + "_elt", elt[0], elt[1])
                        self.env[key] = ("list", elt)
                        return
                raise Unsupported("tuple(...) form in %s" % text)
            if isinstance(t, ast.Tuple):
                raise Unsupported("tuple assignment %s" % text)
            val = self.expr(v)
            if val[0] in ("R", "Z", "tuple"):
                self.assign(key, val)
            elif val[0] in ("bool", "nat", "scale", "none", "list", "fam"):
                self.env[key] = val
            elif val[0] == "constbool":
                self.env[key] = val
            else:
                raise Unsupported("assignment %s" % text)
            return
        if isinstance(st, ast.AugAssign):
            key = self.target_key(st.target)
            sym = {ast.Add: "+", ast.Sub: "-", ast.Mult: "*", ast.Div: "/"}.get(type(st.op))
            if sym is None:
                raise Unsupported("augmented assignment %s" % text)
            if isinstance(st.target, ast.Subscript):
                # accumulation into an output array: record the summand
                self.assign(key + sym + "=", ("R", self.R(st.value)))
                return
            cur = self.lookup(key, st.target)
            self.assign(key, ("R", "(%s %s %s)" % (self.asR(cur), sym, self.R(st.value))))
            return
        if isinstance(st, ast.Expr) and isinstance(st.value, ast.Call) and isinstance(st.value.func, ast.Attribute) \
                and st.value.func.attr == "append" and len(st.value.args) == 1 and not st.value.keywords:
            key = self.target_key(st.value.func.value)
            cur = self.lookup(key, st.value)
            if cur[0] != "list":
                raise Unsupported("append to a non-list in %s" % text)
            val = self.expr(st.value.args[0])
            if val[0] == "tuple":
                val = ("tuple", [self.bind(key + "_elt", x[0], x[1]) for x in val[1]])
            elif val[0] in ("R", "Z"):
                val = self.bind(key + "_elt", val[0], val[1])
            else:
                raise Unsupported("appended value in %s" % text)
            self.env[key] = ("list", val)
            return
        if isinstance(st, ast.If):
            # guard: if <cond>: raise ValueError(...)
            if not st.orelse and len(st.body) == 1 and isinstance(st.body[0], ast.Raise):
                exc = st.body[0].exc
                if not (isinstance(exc, ast.Call) and U(exc.func) == "ValueError"):
                    raise Unsupported("raise of something else than ValueError")
                self.rejects.append(self.prop(st.test))
                return
            kind, c = self.branchcond(st.test)
            if kind == "static":
                self.run(st.body if c else st.orelse, cfg)
                return
            base = dict(self.env)
            self.run(st.body, cfg)
            env_a = self.env
            self.env = dict(base)
            self.run(st.orelse, cfg)
            env_b = self.env
            merged = dict(base)
            for key in sorted(set(env_a) | set(env_b)):
                va, vb = env_a.get(key), env_b.get(key)
                if va == vb:
                    if va is not None:
                        merged[key] = va
                    continue
                if va is None or vb is None:
                    continue  # defined on one path only: not usable afterwards
                if va[0] == "tuple" and vb[0] == "tuple" and len(va[1]) == len(vb[1]):
                    merged[key] = ("tuple", [
                        self.bind(key, x[0], "(if %s then %s else %s)" % (c, x[1], y[1])) if x != y else x
                        for x, y in zip(va[1], vb[1])])
                    continue
                if va[0] != vb[0] or va[0] not in ("R", "Z"):
                    if va[0] in ("R", "Z") and vb[0] in ("R", "Z"):
                        merged[key] = self.bind(key, "R", "(if %s then %s else %s)" % (c, self.asR(va), self.asR(vb)))
                        continue
                    raise Unsupported("cannot merge %s after %s" % (key, U(st.test)))
                merged[key] = self.bind(key, va[0], "(if %s then %s else %s)" % (c, va[1], vb[1]))
            self.env = merged
            return
        if isinstance(st, ast.For) and not st.orelse:
            it = st.iter
            if isinstance(it, ast.Call) and U(it.func) == "zip" and len(it.args) == 2:
                a, b = it.args
                if not (isinstance(a, ast.Subscript) and isinstance(b, ast.Subscript) and U(a.value) == U(b.value)
                        and U(a.slice) == ":-1" and U(b.slice) == "1:"):
                    raise Unsupported("zip form %s" % U(it))
                fam = self.expr(a.value)
                if fam[0] != "fam":
                    raise Unsupported("zip over %s" % U(a.value))
                if not (isinstance(st.target, ast.Tuple) and len(st.target.elts) == 2):
                    raise Unsupported("loop target %s" % U(st.target))
                names = [self.target_key(x) for x in st.target.elts]
                if names != ["left_intersect", "right_intersect"]:
                    raise Unsupported("loop variables %s" % names)
                self.env[names[0]] = ("R", "x_left_intersect")
                self.env[names[1]] = ("R", "x_right_intersect")
                self.adjacent_pairs_of = U(a.value)
                self.run(st.body, cfg)
                return
            if isinstance(it, ast.Call) and U(it.func) == "range" and isinstance(st.target, ast.Name) \
                    and st.target.id in ("idx", "period"):
                var = st.target.id
                hdr = ast.For(target=st.target, iter=st.iter, body=[ast.Pass()], orelse=[])
                if D(hdr) not in {D(h + "\n    pass") for h in cfg.get("loops", ())}:
                    raise Unsupported("loop header %s" % U(st).split("\n")[0])
                if var == "period":
                    if len(it.args) != 2:
                        raise Unsupported("range arity")
                    self.assign("period_start", self.expr_int(it.args[0]))
                    self.assign("period_stop", self.expr_int(it.args[1]))
                self.env[var] = ("R", "x_" + var)
                self.run(st.body, cfg)
                return
            raise Unsupported("loop %s" % U(st).split("\n")[0])
        raise Unsupported("statement %s" % text.split("\n")[0])

    def expr_int(self, e):
        """Integer-valued range bound: sums of integer literals and int(..) terms -> Z."""
        if isinstance(e, ast.Constant) and isinstance(e.value, int) and not isinstance(e.value, bool):
            return ("Z", "(%d)%%Z" % e.value)
        if isinstance(e, ast.UnaryOp) and isinstance(e.op, ast.USub):
            return ("Z", "(- %s)%%Z" % self.expr_int(e.operand)[1])
        if isinstance(e, ast.BinOp) and isinstance(e.op, (ast.Add, ast.Sub)):
            op = "+" if isinstance(e.op, ast.Add) else "-"
            return ("Z", "(%s %s %s)%%Z" % (self.expr_int(e.left)[1], op, self.expr_int(e.right)[1]))
        if isinstance(e, ast.Call) and U(e.func) == "int":
            v = self.expr(e)
            return v
        raise Unsupported("integer expression %s" % U(e))


# ---------------------------------------------------------------------------
# per-class configuration: statements that are pinned (skipped, hand-modelled)

CTOR_SKIP_COMMON = {
    "scaling_function = alias_factory_subclass_from_arg(ScalingFunction, scaling_function)",
}
CLASSES = {
    "TriangularOverlappingFilterBank": dict(
        prefix="tri", scale="param",
        flags={"analytic": "p_analytic"},
        ctor_skip=set(),
        pinned={
            "num_filts": "return len(self._vertices) - 2",
            "centers_hz": "return self._vertices[1:-1]",
            "supports_hz": "return tuple(((low, high) for (low, high) in zip(self._vertices[:-2], self._vertices[2:])))",
            "is_real": "return not self._analytic",
        },
    ),
    "Fbank": dict(
        prefix="fbank", scale="mel",
        flags={"analytic": "p_analytic"},
        ctor_skip=set(),
        pinned={
            "num_filts": "return len(self._vertices) - 2",
            "centers_hz": "return self._vertices[1:-1]",
            "supports_hz": "return tuple(((low, high) for (low, high) in zip(self._vertices[:-2], self._vertices[2:])))",
            "is_real": "return not self._analytic",
        },
    ),
    "GaborFilterBank": dict(
        prefix="gabor", scale="param",
        flags={"scale_l2_norm": "p_scale_l2_norm", "erb": "p_erb"},
        ctor_skip={
            "self._wrap_below = False",
            "if supp_ang_low < 0:\n    self._wrap_below = True",
        },
        pinned={
            "num_filts": "return len(self._centers_hz)",
            "centers_hz": "return self._centers_hz",
            "supports_hz": "return self._supports_hz",
        },
    ),
    "ComplexGammatoneFilterBank": dict(
        prefix="gammatone", scale="param",
        flags={"scale_l2_norm": "p_scale_l2_norm", "erb": "p_erb", "max_centered": "p_max_centered"},
        ctor_skip={
            "self._wrap_below = False",
            "if not isinstance(order, int) or order <= 0:\n    raise ValueError('order must be a positive integer')",
            "self._supports.append(self._calculate_temp_support(-1))",
            "if self._supports_ang[-1][0] < 0:\n    self._wrap_below = True",
            "self._xis = tuple(self._xis)",
            "self._cs = tuple(self._cs)",
            "self._alphas = tuple(self._alphas)",
            "self._offsets = tuple(self._offsets)",
            "self._centers_hz = tuple(self._centers_hz)",
            "self._supports_ang = tuple(self._supports_ang)",
            "self._wrap_supports_ang = tuple(self._wrap_supports_ang)",
            "self._supports = tuple(self._supports)",
        },
        pinned={
            "num_filts": "return len(self._centers_hz)",
            "centers_hz": "return self._centers_hz",
            "supports_hz": "return self._supports_hz",
            # complex-valued bodies, modelled by hand in coq/C05/Model.v
            # (gammatone_H_abs, gammatone_h_abs)
            "_H": "alpha = self._alphas[idx]\nc = self._cs[idx]\nxi = self._xis[idx]\noffset = self._offsets[idx]\n"
                  "n = self._order\nnumer = np.exp(-1j * omega * offset) * c * math.factorial(n - 1)\n"
                  "denom = (alpha + 1j * (omega - xi)) ** n\nreturn numer / denom",
            "_h": "offset = self._offsets[idx]\nif t <= offset:\n    return 0j\nalpha = self._alphas[idx]\n"
                  "log_c = np.log(self._cs[idx])\nxi = self._xis[idx]\nn = self._order\n"
                  "r = log_c + (n - 1) * np.log(t - offset)\nr += (-alpha + 1j * xi) * (t - offset)\nreturn np.exp(r)",
            "get_frequency_response":
                "(left_sup, right_sup) = self._supports_ang[filt_idx]\nleft_period = int(np.floor(left_sup / 2 / np.pi))\n"
                "right_period = int(np.ceil(right_sup / 2 / np.pi))\nif half:\n    if width % 2:\n        dft_size = (width + 1) // 2\n"
                "    else:\n        dft_size = width // 2 + 1\nelse:\n    dft_size = width\n"
                "res = np.zeros(dft_size, dtype=np.complex128)\nomega = np.arange(dft_size, dtype=np.float64) * 2 * np.pi / width\n"
                "for period in range(left_period, right_period + 1):\n    res += self._H(omega + 2 * np.pi * period, filt_idx)\nreturn res",
            "get_impulse_response":
                "(left_sup, right_sup) = self.supports[filt_idx]\nleft_period = int(np.floor(left_sup / width))\n"
                "right_period = int(np.ceil(right_sup / width))\nres = np.zeros(width, dtype=np.complex128)\n"
                "for period in range(left_period, right_period + 1):\n    for idx in range(width):\n"
                "        t = period * width + idx\n        res[idx] += self._h(t, filt_idx)\nreturn res",
        },
    ),
}

HALF_BLOCK = ("if half:\n    if width % 2:\n        dft_size = (width + 1) // 2\n    else:\n        dft_size = width // 2 + 1")
TRI_FR = dict(
    prebind={
        "self._vertices[filt_idx]": "x_left",
        "self._vertices[filt_idx + 1]": "x_mid",
        "self._vertices[filt_idx + 2]": "x_right",
    },
    skip={
        "dft_size = width", HALF_BLOCK, "res = np.zeros(dft_size, dtype=np.float64)", "return res",
        "if not half and (not self._analytic):\n    res[-idx] = val",
        "if not half and (not self._analytic):\n    res[-idx] = val ** 0.5",
    },
    loops={"for idx in range(left_idx, min(dft_size, right_idx + 1)):"},
)
GABOR_FR = dict(
    prebind={
        "self._centers_ang[filt_idx]": "x_center_ang",
        "self._supports_ang[filt_idx]": ("x_lowest_ang", "x_highest_ang"),
        "self._stds[filt_idx]": "x_std",
    },
    skip={"dft_size = width", HALF_BLOCK, "res = np.zeros(dft_size, dtype=np.float64)", "return res"},
    loops={
        "for idx in range(dft_size):",
        "for period in range(-1 - int(max(-lowest_ang, 0) / (2 * np.pi)), 2 + int(highest_ang / (2 * np.pi))):",
    },
)
GABOR_IR = dict(
    prebind={"self._centers_ang[filt_idx]": "x_center_ang", "self._stds[filt_idx]": "x_std"},
    skip={
        "res = np.zeros(width, dtype=np.complex128)",
        "return res",
        # complex-valued loop, modelled by hand (gabor_ir_abs): |val| = exp(-t^2/denom_term + const_term)
        "for t in range(width + 1):\n    val = -t ** 2 / denom_term + const_term + 1j * center_ang * t\n"
        "    val = np.exp(val)\n    if t != width:\n        res[t] += val\n    if t:\n        res[-t] += val.conj()",
    },
    loops=set(),
)


def body_text(fn):
    body = fn.body
    if body and isinstance(body[0], ast.Expr) and isinstance(body[0].value, ast.Constant) and isinstance(body[0].value.value, str):
        body = body[1:]
    return body


def methods_of(cls):
    return {n.name: n for n in cls.body if isinstance(n, ast.FunctionDef)}


def split_ctor(init):
    """Statements up to (excluding) the first assignment of scale_low, and the rest."""
    body = init.body
    for i, st in enumerate(body):
        if isinstance(st, ast.Assign) and len(st.targets) == 1 and isinstance(st.targets[0], ast.Name) \
                and st.targets[0].id == "scale_low":
            return body[:i], body[i:]
    raise Unsupported("constructor without scale_low")


def init_env(sym, cfg, init):
    a = init.args
    if a.vararg or a.kwarg or a.kwonlyargs or a.posonlyargs:
        raise Unsupported("constructor signature")
    names = [x.arg for x in a.args[1:]]
    for n in names:
        if n == "scaling_function":
            sym.env[n] = ("scale", "h2s", "s2h")
        elif n in cfg["flags"]:
            sym.env[n] = ("bool", cfg["flags"][n])
        elif n == "order":
            sym.env[n] = ("nat", "p_order")
        elif n in ("num_filts", "low_hz", "sampling_rate"):
            sym.env[n] = ("R", "p_" + n)
        elif n == "high_hz":
            sym.env[n] = ("none",) if sym.high_mode == "none" else ("R", "p_high_hz")
        else:
            raise Unsupported("constructor parameter %s" % n)
    if "high_hz" not in names:
        raise Unsupported("constructor lacks high_hz")


def translate_class(cls, cfg, out):
    m = methods_of(cls)
    prefix = cfg["prefix"]
    for name, want in cfg["pinned"].items():
        if name not in m:
            raise Unsupported("%s lacks %s" % (cls.name, name))
        got = body_text(m[name])
        if D(got) != D(want):
            raise Unsupported("%s.%s is no longer the text the hand-written model was made for:\n%s" % (
                cls.name, name, "\n".join(U(x) for x in got)))
    init = m["__init__"]
    stage1, stage2 = split_ctor(init)
    ccfg = dict(skip=CTOR_SKIP_COMMON | cfg["ctor_skip"])
    # stage 1: range test and effective upper edge, for high_hz None / a number
    finals = {}
    for mode in ("none", "some"):
        s = Sym(prefix, mode)
        init_env(s, cfg, init)
        s.run(stage1, ccfg)
        rej = " \\/ ".join(s.rejects) if s.rejects else "False"
        if not s.rejects:
            raise Unsupported("%s: no range test found" % cls.name)
        nm = "%s_rejects_%s" % (prefix, mode)
        bs, ps = s.deps(rej)
        out.append("Definition %s%s : Prop :=\n%s  %s." % (
            nm, "".join(" (%s : R)" % p for p in ps),
            "".join("  let %s := %s in\n" % (b[0], b[2]) for b in bs), rej))
        hv = s.env.get("high_hz")
        if not hv or hv[0] != "R":
            raise Unsupported("%s: high_hz unresolved when it is %s" % (cls.name, mode))
        out.append(s.definition("%s_high_%s" % (prefix, mode), "R", hv[1]))
        finals[mode] = s
    # stage 2: the layout as a function of the effective upper edge p_high_hz
    s = Sym(prefix, "param")
    init_env(s, cfg, init)
    s.run(stage1, ccfg)  # for self._rate, flags stored on self, nyquist ...
    s.rejects = []
    s.env["high_hz"] = ("R", "p_high_hz")
    s.adjacent_pairs_of = None
    s.run(stage2, ccfg)
    emit_env(s, out)
    if prefix in ("gabor", "gammatone") and s.adjacent_pairs_of != "edges":
        raise Unsupported("%s: centre loop is not over adjacent edges" % cls.name)
    missing = ccfg["skip"] - s.used_skips - finals["some"].used_skips - CTOR_SKIP_COMMON
    if missing:
        raise Unsupported("%s: pinned constructor statements disappeared: %s" % (cls.name, sorted(missing)))
    # methods
    if prefix in ("tri", "fbank"):
        method(cls, cfg, m["get_frequency_response"], TRI_FR, prefix + "_fr", out)
    if prefix == "gabor":
        method(cls, cfg, m["get_frequency_response"], GABOR_FR, prefix + "_fr", out)
        method(cls, cfg, m["get_impulse_response"], GABOR_IR, prefix + "_ir", out)


def emit_env(s, out, only=None):
    seen = set()
    for key in sorted(s.env):
        v = s.env[key]
        nm = re.sub(r"[^A-Za-z0-9_]", "_", key.replace("self._", "self_").replace("+=", "_add").replace("-=", "_sub")).strip("_")
        nm = re.sub(r"__+", "_", nm)
        if v[0] in ("R", "Z") and v[1] in PTYPE:
            continue  # a bare parameter
        if v[0] in ("R", "Z", "tuple"):
            s.emit(nm, v)
        elif v[0] == "fam":
            s.emit(nm + "_elt", v[1])
            s.emit(nm + "_start", v[2])
            s.emit(nm + "_stop", v[3])
        elif v[0] == "list" and v[1] is not None:
            s.emit(nm + "_elt", v[1])
    for name, text in s.emitted:
        if name in seen:
            raise Unsupported("duplicate definition %s" % name)
        seen.add(name)
        out.append(text)


def method(cls, cfg, fn, mcfg, prefix, out):
    s = Sym(prefix, "param")
    for n, p in cfg["flags"].items():
        s.env["self._" + n] = ("bool", p)
    s.env["self._rate"] = ("R", "p_sampling_rate")
    s.env["width"] = ("R", "p_width")
    if cfg["scale"] == "mel":
        pass  # the method binds scaling_function = MelScaling() itself
    argnames = [a.arg for a in fn.args.args]
    if argnames[:3] != ["self", "filt_idx", "width"]:
        raise Unsupported("%s.%s signature" % (cls.name, fn.name))
    s.run(fn.body, mcfg)
    missing = set(mcfg["skip"]) - s.used_skips
    # the two alternative mirror-write texts (tri / fbank): one of them must be present
    alt = {x for x in missing if x.startswith("if not half and (not self._analytic)")}
    if alt and len(alt) < 2:
        missing -= alt
    if missing:
        raise Unsupported("%s.%s: pinned statements disappeared: %s" % (cls.name, fn.name, sorted(missing)))
    emit_env(s, out)


def translate(filters_src, util_src, config_src):
    out = [
        "(* GENERATED by /verif/gen/banks.py from src/pydrobert/speech/{filters,util,config}.py - do not edit *)",
        "From Coq Require Import Reals.",
        "From Flocq Require Import Core.Raux.",
        "From Verif Require Import gen.Scales.",
        "Open Scope R_scope.",
        "",
    ]
    # config.EFFECTIVE_SUPPORT_THRESHOLD
    val = None
    for node in ast.parse(config_src).body:
        if isinstance(node, ast.AnnAssign) and isinstance(node.target, ast.Name) and node.target.id == "EFFECTIVE_SUPPORT_THRESHOLD":
            if isinstance(node.value, ast.Constant) and isinstance(node.value.value, float):
                val = node.value.value
        if isinstance(node, ast.Assign) and any(isinstance(t, ast.Name) and t.id == "EFFECTIVE_SUPPORT_THRESHOLD" for t in node.targets):
            if isinstance(node.value, ast.Constant) and isinstance(node.value.value, float):
                val = node.value.value
            else:
                val = None
    if val is None or not (0 < val < 1):
        raise Unsupported("config.EFFECTIVE_SUPPORT_THRESHOLD is not a literal in (0,1)")
    out.append("Definition effective_support_threshold : R := %s." % lit(val))
    # util.hertz_to_angular / angular_to_hertz
    fns = {n.name: n for n in ast.parse(util_src).body if isinstance(n, ast.FunctionDef)}
    for fname in ("hertz_to_angular", "angular_to_hertz"):
        if fname not in fns:
            raise Unsupported("util.%s missing" % fname)
        fn = fns[fname]
        args = [a.arg for a in fn.args.args]
        if len(args) != 2:
            raise Unsupported("util.%s signature" % fname)
        s = Sym(fname, "param")
        s.env[args[0]] = ("R", "x_left")  # placeholders, renamed below
        s.env[args[1]] = ("R", "x_right")
        body = [b for b in fn.body if not (isinstance(b, ast.Expr) and isinstance(b.value, ast.Constant))]
        if len(body) != 1 or not isinstance(body[0], ast.Return):
            raise Unsupported("util.%s body" % fname)
        e = s.R(body[0].value).replace("x_left", "a").replace("x_right", "samp_rate")
        out.append("Definition %s (a samp_rate : R) : R := %s." % (fname, e))
    out.append("")
    classes = {n.name: n for n in ast.parse(filters_src).body if isinstance(n, ast.ClassDef)}
    banks = [n for n, c in classes.items() if any(isinstance(b, ast.Name) and b.id == "LinearFilterBank" for b in c.bases)]
    if sorted(banks) != sorted(CLASSES):
        raise Unsupported("filter bank classes are now %s" % sorted(banks))
    for cname, cfg in CLASSES.items():
        out.append("(* ---- %s ---- *)" % cname)
        translate_class(classes[cname], cfg, out)
        out.append("")
    return "\n\n".join(x for x in out if x != "") .replace("\n\n(* ----", "\n\n\n(* ----") + "\n"


def main(src_dir, out_path):
    rd = lambda f: open(os.path.join(src_dir, f)).read()  # noqa: E731
    text = translate(rd("filters.py"), rd("util.py"), rd("config.py"))
    if not os.path.exists(out_path) or open(out_path).read() != text:
        os.makedirs(os.path.dirname(out_path), exist_ok=True)
        open(out_path, "w").write(text)
    return text


if __name__ == "__main__":
    print(main(sys.argv[1], sys.argv[2]))
