"""Translate the parts of pydrobert/speech/filters.py (+ config.py, util.py) that
property C07 is anchored in into coq/gen/C07Filters.v.

Symbolic execution of the Python statements, in order.  Real values become Coq
terms over R; complex values are carried as (re, im) pairs of R terms, so that
``np.exp(a + 1j*b)`` becomes ``(exp a * cos b, exp a * sin b)``; ``int(np.ceil x)``
/ ``int(np.floor x)`` / ``int(x)`` become ``Zceil`` / ``Zfloor`` / ``Ztrunc``;
boolean constructor flags become ``bool`` parameters; ``order`` a ``nat``.

Translated (one Coq definition per formula, named ``src_...``):
  * config.EFFECTIVE_SUPPORT_THRESHOLD, util.hertz_to_angular / angular_to_hertz;
  * is_real / is_zero_phase of the four banks and the dtype of the array that
    get_impulse_response returns;
  * temporal supports: triangular and Fbank ``K`` and the support tuple, Gabor
    ``diff_samps``, gammatone offset, the start value / step / exit test of the
    support search and the returned tuple;
  * frequency supports: Gabor ``diff_ang``, gammatone ``supp_a`` / ``diff_ang``;
  * impulse responses: triangular ``div_term / denom / numer / numer0``, Gabor
    constant and sample value, gammatone ``_h``; frequency responses: Gabor term
    and period range, gammatone ``_H`` (numerator, base of the power) and ``_d``;
    the period ranges of the gammatone responses.
Statements that only move values between containers / write into the output
arrays are PINNED: their ``ast.unparse`` text must equal the text recorded here
(coq/C07/Model.v says how each is modelled).  Anything unrecognised raises
``Unsupported`` - the check then reports the tie as broken (fail closed).
"""

import ast
import os
import re
import sys
from fractions import Fraction

sys.path.insert(0, os.path.dirname(os.path.abspath(__file__)))
from pyexpr import Unsupported, lit  # noqa: E402


def U(n):
    return ast.unparse(n)


# ---------------------------------------------------------------------------
# symbolic values


class V:
    """kind: 'R' real term | 'Z' integer term | 'I' int literal | 'N' nat (order) |
    'C' complex (re, im) | 'B' bool"""

    def __init__(self, kind, t=None, im=None, r=None, val=None):
        self.kind, self.t, self.im, self.r, self.val = kind, t, im, r, val

    def __repr__(self):
        return "V(%s,%s,%s)" % (self.kind, self.t, self.im)


def toR(v):
    if v.kind == "R":
        return v.t
    if v.kind == "I":
        return lit(v.val)
    if v.kind == "Z":
        return "(IZR %s%%Z)" % v.t
    if v.kind == "N":
        return v.r
    raise Unsupported("cannot use %r as a real" % (v,))


def toZ(v):
    if v.kind == "Z":
        return v.t
    if v.kind == "I":
        return "(%d)" % v.val if v.val < 0 else "%d" % v.val
    raise Unsupported("cannot use %r as an integer" % (v,))


def toN(v):
    if v.kind == "N":
        return v.t
    if v.kind == "I" and v.val >= 0:
        return "%d" % v.val
    raise Unsupported("cannot use %r as a nat" % (v,))


def isC(v):
    return v.kind == "C"


def Rv(t):
    return V("R", t)


def cparts(v):
    if v.kind == "C":
        return v.t, v.im
    return toR(v), "0"


def radd(a, b):
    if a == "0":
        return b
    if b == "0":
        return a
    return "(%s + %s)" % (a, b)


def rsub(a, b):
    if b == "0":
        return a
    if a == "0":
        return "(- %s)" % b
    return "(%s - %s)" % (a, b)


def rmul(a, b):
    if a == "0" or b == "0":
        return "0"
    if a == "1":
        return b
    if b == "1":
        return a
    return "(%s * %s)" % (a, b)


def rdiv(a, b):
    if a == "0":
        return "0"
    return "(%s / %s)" % (a, b)


class Ex:
    def __init__(self, env):
        self.env = dict(env)

    # ---- expressions
    def ev(self, e):
        if isinstance(e, ast.Constant):
            v = e.value
            if isinstance(v, bool):
                raise Unsupported("bool literal")
            if isinstance(v, int):
                return V("I", val=v)
            if isinstance(v, float):
                return Rv(lit(v))
            if isinstance(v, complex) and v == 1j:
                return V("C", "0", "1")
            if isinstance(v, complex) and v == 0j:
                return V("C", "0", "0")
            raise Unsupported("literal %r" % (v,))
        if isinstance(e, ast.Name):
            if e.id in self.env:
                return self.env[e.id]
            raise Unsupported("free name %s" % e.id)
        if isinstance(e, ast.Attribute):
            k = U(e)
            if k in self.env:
                return self.env[k]
            if k == "np.pi":
                return Rv("PI")
            raise Unsupported("attribute %s" % k)
        if isinstance(e, ast.UnaryOp) and isinstance(e.op, ast.USub):
            a = self.ev(e.operand)
            if a.kind == "I":
                return V("I", val=-a.val)
            if a.kind == "Z":
                return V("Z", "(- %s)" % a.t)
            if a.kind == "C":
                return V("C", rsub("0", a.t), rsub("0", a.im))
            return Rv("(- %s)" % toR(a))
        if isinstance(e, ast.BinOp):
            return self.binop(e.op, self.ev(e.left), self.ev(e.right), e)
        if isinstance(e, ast.Call):
            return self.call(e)
        if isinstance(e, ast.IfExp):
            c = self.flag(e.test)
            a, b = self.ev(e.body), self.ev(e.orelse)
            return self.merge(c, a, b)
        raise Unsupported("expression %s" % U(e))

    def merge(self, c, a, b):
        if a is b:
            return a
        if isC(a) or isC(b):
            ar, ai = cparts(a)
            br, bi = cparts(b)
            re_ = ar if ar == br else "(if %s then %s else %s)" % (c, ar, br)
            im_ = ai if ai == bi else "(if %s then %s else %s)" % (c, ai, bi)
            return V("C", re_, im_)
        if a.kind in ("Z",) and b.kind in ("Z", "I") or b.kind == "Z" and a.kind == "I":
            x, y = toZ(a), toZ(b)
            return V("Z", x if x == y else "(if %s then %s else %s)" % (c, x, y))
        x, y = toR(a), toR(b)
        return Rv(x if x == y else "(if %s then %s else %s)" % (c, x, y))

    def binop(self, op, a, b, e):
        # nat arithmetic on the order
        if a.kind in ("N", "I") and b.kind in ("N", "I") and (a.kind == "N" or b.kind == "N") and isinstance(
            op, (ast.Add, ast.Sub, ast.Mult)
        ):
            sym = {ast.Add: "+", ast.Sub: "-", ast.Mult: "*"}[type(op)]
            return V("N", "(%s %s %s)" % (toN(a), sym, toN(b)), r="(%s %s %s)" % (toR(a), sym, toR(b)))
        if a.kind == "I" and b.kind == "I":
            if isinstance(op, ast.Add):
                return V("I", val=a.val + b.val)
            if isinstance(op, ast.Sub):
                return V("I", val=a.val - b.val)
            if isinstance(op, ast.Mult):
                return V("I", val=a.val * b.val)
            if isinstance(op, ast.Div):
                return Rv("(%s / %s)" % (toR(a), toR(b)))
            raise Unsupported("integer op %s" % U(e))
        if a.kind in ("Z", "I") and b.kind in ("Z", "I") and isinstance(op, (ast.Add, ast.Sub, ast.Mult, ast.FloorDiv, ast.Mod)):
            sym = {ast.Add: "+", ast.Sub: "-", ast.Mult: "*", ast.FloorDiv: "/", ast.Mod: "mod"}[type(op)]
            if isinstance(op, (ast.FloorDiv, ast.Mod)) and not (b.kind == "I" and b.val > 0):
                raise Unsupported("floor division by a non-literal")
            return V("Z", "(%s %s %s)" % (toZ(a), sym, toZ(b)))
        if isinstance(op, ast.Pow):
            return self.power(a, b, e)
        if isC(a) or isC(b):
            ar, ai = cparts(a)
            br, bi = cparts(b)
            if isinstance(op, ast.Add):
                return V("C", radd(ar, br), radd(ai, bi))
            if isinstance(op, ast.Sub):
                return V("C", rsub(ar, br), rsub(ai, bi))
            if isinstance(op, ast.Mult):
                return V("C", rsub(rmul(ar, br), rmul(ai, bi)), radd(rmul(ar, bi), rmul(ai, br)))
            if isinstance(op, ast.Div) and not isC(b):
                return V("C", rdiv(ar, br), rdiv(ai, br))
            raise Unsupported("complex op %s" % U(e))
        x, y = toR(a), toR(b)
        if isinstance(op, ast.Add):
            return Rv("(%s + %s)" % (x, y))
        if isinstance(op, ast.Sub):
            return Rv("(%s - %s)" % (x, y))
        if isinstance(op, ast.Mult):
            return Rv("(%s * %s)" % (x, y))
        if isinstance(op, ast.Div):
            return Rv("(%s / %s)" % (x, y))
        raise Unsupported("operator in %s" % U(e))

    def power(self, a, b, e):
        if isC(a):
            raise Unsupported("complex power %s" % U(e))
        if b.kind == "I" and b.val >= 0:
            if a.kind == "I":
                return V("I", val=a.val ** b.val)
            return Rv("(%s ^ %d)" % (toR(a), b.val))
        if b.kind == "N":
            return Rv("(%s ^ %s)" % (toR(a), b.t))
        if b.kind == "R":
            # float exponent: x ** y = exp(y ln x) for x > 0 (Rpower); numpy gives nan for x < 0
            return Rv("(Rpower %s %s)" % (toR(a), toR(b)))
        raise Unsupported("power %s" % U(e))

    def call(self, e):
        f = e.func
        name = U(f)
        if e.keywords:
            raise Unsupported("keywords in %s" % U(e))
        if name == "int" and len(e.args) == 1:
            a = e.args[0]
            if isinstance(a, ast.Call) and U(a.func) in ("np.ceil", "np.floor") and len(a.args) == 1:
                x = toR(self.ev(a.args[0]))
                return V("Z", "(%s %s%%R)" % ("Zceil" if U(a.func) == "np.ceil" else "Zfloor", x))
            v = self.ev(a)
            if v.kind == "B":
                return Rv("(if %s then 1 else 0)" % v.t)
            return V("Z", "(Ztrunc %s%%R)" % toR(v))
        if name == "math.factorial" and len(e.args) == 1:
            return Rv("(INR (fact %s))" % toN(self.ev(e.args[0])))
        args = [self.ev(a) for a in e.args]
        if name == "np.exp" and len(args) == 1:
            if isC(args[0]):
                a, b = args[0].t, args[0].im
                ea = "1" if a == "0" else "(exp %s)" % a
                return V("C", rmul(ea, "(cos %s)" % b), rmul(ea, "(sin %s)" % b))
            return Rv("(exp %s)" % toR(args[0]))
        if name in ("np.log", "np.sqrt", "np.cos", "np.sin") and len(args) == 1:
            fn = {"np.log": "ln", "np.sqrt": "sqrt", "np.cos": "cos", "np.sin": "sin"}[name]
            return Rv("(%s %s)" % (fn, toR(args[0])))
        if name == "np.abs" and len(args) == 1 and not isC(args[0]):
            return Rv("(Rabs %s)" % toR(args[0]))
        if name == "max" and len(args) == 2:
            return Rv("(Rmax %s %s)" % (toR(args[0]), toR(args[1])))
        if name == "min" and len(args) == 2:
            if args[0].kind in ("Z", "I") and args[1].kind in ("Z", "I"):
                return V("Z", "(Z.min %s %s)" % (toZ(args[0]), toZ(args[1])))
            return Rv("(Rmin %s %s)" % (toR(args[0]), toR(args[1])))
        if name == "hertz_to_angular" and len(args) == 2:
            return Rv("(src_hertz_to_angular %s %s)" % (toR(args[0]), toR(args[1])))
        if name == "angular_to_hertz" and len(args) == 2:
            return Rv("(src_angular_to_hertz %s %s)" % (toR(args[0]), toR(args[1])))
        if isinstance(f, ast.Attribute) and f.attr == "conj" and not e.args:
            v = self.ev(f.value)
            ar, ai = cparts(v)
            return V("C", ar, rsub("0", ai))
        raise Unsupported("call %s" % U(e))

    # ---- conditions
    def flag(self, c):
        """a Coq term usable as the condition of ``if``"""
        if isinstance(c, (ast.Name, ast.Attribute)):
            v = self.ev(c)
            if v.kind == "B":
                return v.t
            raise Unsupported("non-boolean test %s" % U(c))
        if isinstance(c, ast.Compare) and len(c.ops) == 1:
            a, b = self.ev(c.left), self.ev(c.comparators[0])
            op = c.ops[0]
            if a.kind in ("Z", "I") and b.kind in ("Z", "I"):
                sym = {ast.Lt: "<?", ast.LtE: "<=?", ast.Gt: ">?", ast.GtE: ">=?", ast.Eq: "=?"}.get(type(op))
                if sym is None:
                    raise Unsupported("comparison %s" % U(c))
                return "(%s %s %s)%%Z" % (toZ(a), sym, toZ(b))
            dec = {ast.Lt: "Rlt_dec", ast.LtE: "Rle_dec", ast.Gt: "Rgt_dec", ast.GtE: "Rge_dec"}.get(type(op))
            if dec is None:
                raise Unsupported("comparison %s" % U(c))
            return "(%s %s %s)" % (dec, toR(a), toR(b))
        raise Unsupported("test %s" % U(c))

    # ---- statements
    def run(self, stmts, special=None):
        """Execute straight-line statements; ``special(stmt, self)`` handles the rest."""
        for s in stmts:
            if isinstance(s, ast.Expr) and isinstance(s.value, ast.Constant) and isinstance(s.value.value, str):
                continue
            if special is not None and special(s, self):
                continue
            if isinstance(s, ast.Assign) and len(s.targets) == 1 and isinstance(s.targets[0], ast.Name):
                self.env[s.targets[0].id] = self.ev(s.value)
                continue
            if isinstance(s, ast.AugAssign) and isinstance(s.target, ast.Name):
                cur = self.env.get(s.target.id)
                if cur is None:
                    raise Unsupported("augmented assignment to unknown %s" % s.target.id)
                self.env[s.target.id] = self.binop(s.op, cur, self.ev(s.value), s)
                continue
            if isinstance(s, ast.If):
                c = self.flag(s.test)
                a, b = Ex(self.env), Ex(self.env)
                a.run(s.body, special)
                b.run(s.orelse, special)
                for k in sorted(set(a.env) | set(b.env)):
                    va, vb = a.env.get(k), b.env.get(k)
                    if va is None or vb is None:
                        # assigned on one side only and unknown before: usable only if never read later
                        continue
                    self.env[k] = self.merge(c, va, vb)
                continue
            raise Unsupported("statement %s" % U(s)[:90])


# ---------------------------------------------------------------------------
# emission

PARAMS = [
    ("eps", "R"), ("analytic", "bool"), ("l2", "bool"), ("erb", "bool"), ("mc", "bool"), ("n", "nat"),
    ("rate", "R"), ("left", "R"), ("mid", "R"), ("right", "R"),
    ("left_intersect", "R"), ("right_intersect", "R"),
    ("std", "R"), ("center_ang", "R"), ("lowest_ang", "R"), ("highest_ang", "R"),
    ("log_alpha", "R"), ("log_c", "R"), ("alpha", "R"), ("c", "R"), ("xi", "R"), ("offset", "R"),
    ("left_sup", "R"), ("right_sup", "R"), ("lsup", "Z"), ("rsup", "Z"),
    ("omega", "R"), ("t", "R"), ("h_0", "R"), ("d_0", "R"),
    ("K", "Z"), ("d", "Z"), ("width", "Z"), ("idx", "Z"), ("period", "Z"),
]
IDENT = re.compile(r"[A-Za-z_][A-Za-z_0-9']*")


class Out:
    def __init__(self):
        self.lines = []
        self.names = set()

    def emit(self, name, term, typ="R", comment=None, order=None):
        if name in self.names:
            raise Unsupported("duplicate definition %s" % name)
        self.names.add(name)
        used = set(IDENT.findall(term))
        plist = PARAMS if order is None else [(p, dict(PARAMS)[p]) for p in order]
        binders = "".join(" (%s : %s)" % (p, t) for p, t in plist if p in used or order is not None)
        if comment:
            self.lines.append("(* %s *)" % comment)
        scope = "%Z" if typ in ("Z", "Z * Z") else ""
        self.lines.append("Definition %s%s : %s := %s%s.\n" % (name, binders, typ, term, scope))


def emit_v(out, name, v, comment=None):
    if v.kind == "C":
        out.emit(name + "_re", v.t, "R", comment)
        out.emit(name + "_im", v.im, "R")
    elif v.kind in ("Z",):
        out.emit(name, v.t, "Z", comment)
    else:
        out.emit(name, toR(v), "R", comment)


# ---------------------------------------------------------------------------
# helpers to find things


def cls_of(tree, name):
    for n in tree.body:
        if isinstance(n, ast.ClassDef) and n.name == name:
            return n
    raise Unsupported("class %s not found" % name)


def meth(cls, name):
    for n in cls.body:
        if isinstance(n, ast.FunctionDef) and n.name == name:
            return n
    raise Unsupported("%s.%s not found" % (cls.name, name))


def body_nodoc(fn):
    b = list(fn.body)
    if b and isinstance(b[0], ast.Expr) and isinstance(b[0].value, ast.Constant) and isinstance(b[0].value.value, str):
        b = b[1:]
    return b


def norm(text):
    """a statement's text as this Python's ast.unparse prints it"""
    return U(ast.parse(text))


def pin(stmts, expected, where):
    got = [U(s) for s in stmts]
    expected = [norm(x) for x in expected]
    if got != expected:
        raise Unsupported("%s: pinned statements changed:\n  got      %r\n  expected %r" % (where, got, expected))


def single_return(fn):
    b = body_nodoc(fn)
    if len(b) != 1 or not isinstance(b[0], ast.Return):
        raise Unsupported("%s: expected a single return" % fn.name)
    return b[0].value


FLAGS = {
    "self._analytic": V("B", "analytic"), "self.is_analytic": V("B", "analytic"),
    "scale_l2_norm": V("B", "l2"), "self._scale_l2_norm": V("B", "l2"),
    "erb": V("B", "erb"), "max_centered": V("B", "mc"),
}
ORDER = V("N", "n", r="(INR n)")
BASE = dict(FLAGS)
BASE.update({"config.EFFECTIVE_SUPPORT_THRESHOLD": Rv("eps"), "order": ORDER, "self._order": ORDER, "self._rate": Rv("rate")})


def bind_special(bindings, where):
    """special handler: ``name = <pinned source text>`` binds ``name`` as a parameter"""

    bindings = {norm(k): v for k, v in bindings.items()}

    def h(s, ex):
        if isinstance(s, ast.Assign) and len(s.targets) == 1:
            key = U(s)
            if key in bindings:
                for name, v in bindings[key].items():
                    ex.env[name] = v
                seen.add(key)
                return True
        return False

    seen = set()
    h.seen = seen
    h.check = lambda: (_ for _ in ()).throw(Unsupported("%s: expected bindings missing: %r" % (where, sorted(set(bindings) - seen)))) if set(bindings) - seen else None
    return h


# ---------------------------------------------------------------------------
# the drivers


def tr_config(src, out):
    tree = ast.parse(src)
    for n in tree.body:
        if isinstance(n, ast.AnnAssign) and isinstance(n.target, ast.Name) and n.target.id == "EFFECTIVE_SUPPORT_THRESHOLD":
            out.emit("src_eps", toR(Ex({}).ev(n.value)), "R", "config.EFFECTIVE_SUPPORT_THRESHOLD")
            return
        if isinstance(n, ast.Assign) and U(n.targets[0]) == "EFFECTIVE_SUPPORT_THRESHOLD":
            out.emit("src_eps", toR(Ex({}).ev(n.value)), "R", "config.EFFECTIVE_SUPPORT_THRESHOLD")
            return
    raise Unsupported("EFFECTIVE_SUPPORT_THRESHOLD not found")


def tr_util(src, out):
    tree = ast.parse(src)
    for fname, a, b in (("hertz_to_angular", "hertz", "samp_rate"), ("angular_to_hertz", "angle", "samp_rate")):
        fn = [n for n in tree.body if isinstance(n, ast.FunctionDef) and n.name == fname]
        if not fn or [x.arg for x in fn[0].args.args] != [a, b]:
            raise Unsupported("util.%s signature" % fname)
        v = Ex({a: Rv("t"), b: Rv("rate")}).ev(single_return(fn[0]))
        out.emit("src_" + fname, toR(v), "R", "util.%s (first argument is called t here)" % fname, order=["t", "rate"])


DTYPE = {"np.complex128": "Complex128", "np.float64": "Float64"}


def tr_flags(tree, out):
    out.lines.append("Inductive src_dtype := Float64 | Complex128.\n")
    for cname, short in (("TriangularOverlappingFilterBank", "tri"), ("Fbank", "fbank"),
                         ("GaborFilterBank", "gabor"), ("ComplexGammatoneFilterBank", "gammatone")):
        cls = cls_of(tree, cname)
        for prop in ("is_real", "is_zero_phase"):
            r = single_return(meth(cls, prop))
            if isinstance(r, ast.Constant) and isinstance(r.value, bool):
                term = "true" if r.value else "false"
            elif isinstance(r, ast.UnaryOp) and isinstance(r.op, ast.Not) and U(r.operand) == "self._analytic":
                term = "(negb analytic)"
            elif U(r) == "self._analytic":
                term = "analytic"
            else:
                raise Unsupported("%s.%s returns %s" % (cname, prop, U(r)))
            out.emit("src_%s_%s" % (short, prop), term, "bool", "%s.%s" % (cname, prop))
        if cname == "Fbank":
            r = single_return(meth(cls, "is_analytic"))
            if U(r) != "self._analytic":
                raise Unsupported("Fbank.is_analytic returns %s" % U(r))


def ir_dtype_of_zeros(stmt, ex):
    """res = np.zeros(width, dtype=...) -> Coq term of type src_dtype"""
    if not (isinstance(stmt, ast.Assign) and U(stmt.targets[0]) == "res" and isinstance(stmt.value, ast.Call)
            and U(stmt.value.func) == "np.zeros" and len(stmt.value.args) == 1 and U(stmt.value.args[0]) == "width"
            and len(stmt.value.keywords) == 1 and stmt.value.keywords[0].arg == "dtype"):
        return None
    d = stmt.value.keywords[0].value
    if isinstance(d, ast.IfExp):
        return "(if %s then %s else %s)" % (ex.flag(d.test), DTYPE[U(d.body)], DTYPE[U(d.orelse)])
    return DTYPE[U(d)]


def tr_tri(tree, out):
    cls = cls_of(tree, "TriangularOverlappingFilterBank")
    # ---- supports
    b = body_nodoc(meth(cls, "supports"))
    if not (len(b) == 3 and U(b[0]) == "supports = []" and isinstance(b[1], ast.For) and U(b[2]) == "return tuple(supports)"
            and U(b[1].target) == "idx" and U(b[1].iter) == "range(len(self._vertices) - 2)"):
        raise Unsupported("tri.supports: loop shape changed")
    hb = bind_special({
        "left = hertz_to_angular(self._vertices[idx], self._rate)": {"left": Rv("left")},
        "mid = hertz_to_angular(self._vertices[idx + 1], self._rate)": {"mid": Rv("mid")},
        "right = hertz_to_angular(self._vertices[idx + 2], self._rate)": {"right": Rv("right")},
    }, "tri.supports")
    state = {}

    def sp(s, ex):
        if hb(s, ex):
            return True
        if U(s) == "K = int(np.ceil(K))":
            state["K_real"] = ex.env["K"]
            ex.env["K"] = V("Z", "K")
            return True
        if isinstance(s, ast.Expr) and U(s.value).startswith("supports.append("):
            tup = s.value.args[0]
            if not (isinstance(tup, ast.Tuple) and len(tup.elts) == 2):
                raise Unsupported("tri.supports append")
            state["tuple"] = "(%s, %s)" % (toZ(ex.ev(tup.elts[0])), toZ(ex.ev(tup.elts[1])))
            return True
        return False

    ex = Ex(BASE)
    ex.run(b[1].body, sp)
    hb.check()
    out.emit("src_tri_K_real", toR(state["K_real"]), "R", "TriangularOverlappingFilterBank.supports: K before int(np.ceil(K)); left/mid/right angular")
    out.emit("src_tri_supports", state["tuple"], "Z * Z", "the tuple appended, K = int(np.ceil(K_real))")
    # ---- get_impulse_response
    b = body_nodoc(meth(cls, "get_impulse_response"))
    hb = bind_special({
        "left = hertz_to_angular(self._vertices[filt_idx], self._rate)": {"left": Rv("left")},
        "mid = hertz_to_angular(self._vertices[filt_idx + 1], self._rate)": {"mid": Rv("mid")},
        "right = hertz_to_angular(self._vertices[filt_idx + 2], self._rate)": {"right": Rv("right")},
    }, "tri.get_impulse_response")
    st = {}

    def sp2(s, ex):
        if hb(s, ex):
            return True
        dt = ir_dtype_of_zeros(s, ex)
        if dt is not None:
            st["dtype"] = dt
            return True
        if isinstance(s, ast.For):
            if not (U(s.target) == "t" and U(s.iter) == "range(1, width + 1)"):
                raise Unsupported("tri.get_impulse_response loop header")
            st["div_term"], st["denom"] = ex.env["div_term"], ex.env["denom"]
            lb = list(s.body)
            pin(lb[-1:], ["if t < width:\n    res[t] += val\n    res[-t] += val.conj()\nelse:\n    res[0] += val"],
                "tri.get_impulse_response writes")
            ex2 = Ex(ex.env)
            ex2.env["t"] = Rv("t")
            ex2.run(lb[:-1])
            st["val"] = ex2.env["val"]
            return True
        if U(s) in ("res[0] += numer / 2", "res /= denom", "return res"):
            st.setdefault("tail", []).append(U(s))
            if U(s) == "res[0] += numer / 2":
                st["numer0"] = ex.env["numer"]
            return True
        return False

    ex = Ex(BASE)
    ex.run(b, sp2)
    hb.check()
    if st.get("tail") != ["res[0] += numer / 2", "res /= denom", "return res"]:
        raise Unsupported("tri.get_impulse_response tail changed: %r" % st.get("tail"))
    out.emit("src_tri_ir_dtype", st["dtype"], "src_dtype", "dtype of the array get_impulse_response returns")
    emit_v(out, "src_tri_div_term", st["div_term"], "get_impulse_response")
    emit_v(out, "src_tri_denom", st["denom"])
    v = st["val"]
    vr, vi = cparts(v)
    out.emit("src_tri_val_re", vr, "R", "val for sample t (written to res[t], conj to res[-t]; res[0] for t = width)")
    out.emit("src_tri_val_im", vi, "R")
    emit_v(out, "src_tri_numer0", st["numer0"], "numer of 'res[0] += numer / 2'")


def tr_fbank(tree, out):
    cls = cls_of(tree, "Fbank")
    b = body_nodoc(meth(cls, "supports"))
    if not (len(b) == 3 and U(b[0]) == "supports = []" and isinstance(b[1], ast.For) and U(b[2]) == "return tuple(supports)"
            and U(b[1].target) == "idx" and U(b[1].iter) == "range(len(self._vertices) - 2)"):
        raise Unsupported("fbank.supports: loop shape changed")
    hb = bind_special({
        "left = hertz_to_angular(self._vertices[idx], self._rate)": {"left": Rv("left")},
        "mid = hertz_to_angular(self._vertices[idx + 1], self._rate)": {"mid": Rv("mid")},
        "right = hertz_to_angular(self._vertices[idx + 2], self._rate)": {"right": Rv("right")},
    }, "fbank.supports")
    state = {}

    def sp(s, ex):
        if hb(s, ex):
            return True
        if U(s) == "K = int(np.ceil(K))":
            state["K_real"] = ex.env["K"]
            ex.env["K"] = V("Z", "K")
            return True
        if isinstance(s, ast.Expr) and U(s.value).startswith("supports.append("):
            tup = s.value.args[0]
            state["tuple"] = "(%s, %s)" % (toZ(ex.ev(tup.elts[0])), toZ(ex.ev(tup.elts[1])))
            return True
        return False

    ex = Ex(BASE)
    ex.run(b[1].body, sp)
    hb.check()
    out.emit("src_fbank_K_real", toR(state["K_real"]), "R", "Fbank.supports: K before int(np.ceil(K))")
    out.emit("src_fbank_supports", state["tuple"], "Z * Z")
    # get_impulse_response: inverse FFT of the frequency response
    b = body_nodoc(meth(cls, "get_impulse_response"))
    pin(b, ["if self.is_analytic:\n    freq_response = self.get_frequency_response(filt_idx, width, half=False)\n"
            "    return np.fft.ifft(freq_response)\nelse:\n"
            "    freq_response = self.get_frequency_response(filt_idx, width, half=True)\n"
            "    return np.fft.irfft(freq_response, n=width)"], "Fbank.get_impulse_response")
    out.emit("src_fbank_ir_dtype", "(if analytic then Complex128 else Float64)", "src_dtype",
             "np.fft.ifft returns complex128, np.fft.irfft float64 (pinned statement)")


def tr_gabor(tree, out):
    cls = cls_of(tree, "GaborFilterBank")
    b = body_nodoc(meth(cls, "__init__"))
    i0 = [i for i, s in enumerate(b) if U(s) == "log_2 = np.log(2)"]
    loops = [i for i, s in enumerate(b) if isinstance(s, ast.For)]
    if len(i0) != 1 or len(loops) != 1 or loops[0] < i0[0]:
        raise Unsupported("gabor.__init__ shape")
    ex = Ex(BASE)
    ex.run(b[i0[0]:loops[0]])
    for k in ("t_support_const", "f_support_const", "bandwidth_const"):
        emit_v(out, "src_gabor_" + k, ex.env[k], "GaborFilterBank.__init__")
    loop = b[loops[0]]
    if not (U(loop.target) == "(left_intersect, right_intersect)" and U(loop.iter) == "zip(edges[:-1], edges[1:])"):
        raise Unsupported("gabor loop header")
    ex.env["left_intersect"], ex.env["right_intersect"] = Rv("left_intersect"), Rv("right_intersect")
    # constants become opaque references from here on
    ex.env["t_support_const"] = Rv("(src_gabor_t_support_const eps l2)")
    ex.env["f_support_const"] = Rv("(src_gabor_f_support_const eps l2)")
    ex.env["bandwidth_const"] = Rv("(src_gabor_bandwidth_const erb)")
    st = {}
    appended = {}

    def sp(s, ex):
        if isinstance(s, ast.Assign) and U(s.targets[0]) == "std":
            st["std"] = ex.ev(s.value)
            ex.env["std"] = Rv("std")  # cut: later formulas are functions of std
            return True
        if U(s) == "if supp_ang_low < 0:\n    self._wrap_below = True":
            return True
        if isinstance(s, ast.Expr) and isinstance(s.value, ast.Call) and U(s.value.func).endswith(".append"):
            lst = U(s.value.func)[:-7]
            a = s.value.args[0]
            if isinstance(a, ast.Tuple):
                appended[lst] = [ex.ev(x) for x in a.elts]
            else:
                appended[lst] = [ex.ev(a)]
            return True
        return False

    ex.run(loop.body, sp)
    emit_v(out, "src_gabor_std", st["std"], "std as a function of the two edges")
    emit_v(out, "src_gabor_diff_ang", ex.env["diff_ang"], "as a function of std")
    emit_v(out, "src_gabor_diff_samps", ex.env["diff_samps"])
    want = {"centers_hz", "centers_ang", "supports_ang", "wrap_supports_ang", "supports", "stds"}
    if set(appended) != want:
        raise Unsupported("gabor appends changed: %r" % sorted(appended))
    if U(ast.parse("x = (-diff_samps, diff_samps)").body[0].value) and [v.t for v in appended["supports"]] != ["(- %s)" % ex.env["diff_samps"].t, ex.env["diff_samps"].t]:
        raise Unsupported("gabor supports tuple changed")
    out.emit("src_gabor_supports", "((- d), d)", "Z * Z", "supports.append((-diff_samps, diff_samps)), d = diff_samps")
    ca = toR(ex.env["center_ang"])
    da = toR(ex.env["diff_ang"])
    if [toR(v) for v in appended["supports_ang"]] != ["(%s - %s)" % (ca, da), "(%s + %s)" % (ca, da)]:
        raise Unsupported("gabor supports_ang tuple changed")
    if [toR(v) for v in appended["stds"]] != ["std"]:
        raise Unsupported("gabor stds append changed")
    # ---- get_impulse_response
    b = body_nodoc(meth(cls, "get_impulse_response"))
    hb = bind_special({
        "center_ang = self._centers_ang[filt_idx]": {"center_ang": Rv("center_ang")},
        "std = self._stds[filt_idx]": {"std": Rv("std")},
    }, "gabor.get_impulse_response")
    st2 = {}

    def sp2(s, ex):
        if hb(s, ex):
            return True
        dt = ir_dtype_of_zeros(s, ex)
        if dt is not None:
            st2["dtype"] = dt
            return True
        if isinstance(s, ast.For):
            if not (U(s.target) == "t" and U(s.iter) == "range(width + 1)"):
                raise Unsupported("gabor.get_impulse_response loop header")
            lb = list(s.body)
            pin(lb[-2:], ["if t != width:\n    res[t] += val", "if t:\n    res[-t] += val.conj()"], "gabor.get_impulse_response writes")
            ex2 = Ex(ex.env)
            ex2.env["t"] = Rv("t")
            ex2.run(lb[:-2])
            st2["val"] = ex2.env["val"]
            st2["const"] = ex.env["const_term"]
            return True
        if U(s) == "return res":
            return True
        return False

    ex = Ex(BASE)
    ex.run(b, sp2)
    hb.check()
    out.emit("src_gabor_ir_dtype", st2["dtype"], "src_dtype")
    emit_v(out, "src_gabor_ir_const", st2["const"], "GaborFilterBank.get_impulse_response: const_term")
    emit_v(out, "src_gabor_val", st2["val"], "val for sample t")
    # ---- get_frequency_response
    b = body_nodoc(meth(cls, "get_frequency_response"))
    hb = bind_special({
        "center_ang = self._centers_ang[filt_idx]": {"center_ang": Rv("center_ang")},
        "(lowest_ang, highest_ang) = self._supports_ang[filt_idx]": {"lowest_ang": Rv("lowest_ang"), "highest_ang": Rv("highest_ang")},
        "std = self._stds[filt_idx]": {"std": Rv("std")},
        "dft_size = width": {"dft_size": V("Z", "width")},
    }, "gabor.get_frequency_response")
    st3 = {}

    def sp3(s, ex):
        if hb(s, ex):
            return True
        if isinstance(s, ast.If) and U(s.test) == "half":
            pin([s], ["if half:\n    if width % 2:\n        dft_size = (width + 1) // 2\n    else:\n        dft_size = width // 2 + 1"],
                "dft_size")
            return True
        if U(s) == "res = np.zeros(dft_size, dtype=np.float64)":
            return True
        if isinstance(s, ast.For):
            if not (U(s.target) == "idx" and U(s.iter) == "range(dft_size)" and len(s.body) == 1 and isinstance(s.body[0], ast.For)):
                raise Unsupported("gabor.get_frequency_response outer loop")
            inner = s.body[0]
            if not (U(inner.target) == "period" and isinstance(inner.iter, ast.Call) and U(inner.iter.func) == "range" and len(inner.iter.args) == 2):
                raise Unsupported("gabor.get_frequency_response inner loop")
            st3["lo"] = ex.ev(inner.iter.args[0])
            st3["hi"] = ex.ev(inner.iter.args[1])
            pin(inner.body[-1:], ["res[idx] += val"], "gabor.get_frequency_response write")
            ex2 = Ex(ex.env)
            ex2.env["idx"], ex2.env["period"], ex2.env["width"] = V("Z", "idx"), V("Z", "period"), V("Z", "width")
            ex2.run(inner.body[:-1])
            st3["val"] = ex2.env["val"]
            return True
        if U(s) == "return res":
            return True
        return False

    ex = Ex(BASE)
    ex.run(b, sp3)
    hb.check()
    emit_v(out, "src_gabor_period_lo", st3["lo"], "GaborFilterBank.get_frequency_response: range(lo, hi) of period")
    emit_v(out, "src_gabor_period_hi", st3["hi"])
    emit_v(out, "src_gabor_fr_term", st3["val"], "the value added to res[idx] for one period")


def tr_gammatone(tree, out):
    cls = cls_of(tree, "ComplexGammatoneFilterBank")
    b = body_nodoc(meth(cls, "__init__"))
    i0 = [i for i, s in enumerate(b) if U(s) == "log_eps = np.log(config.EFFECTIVE_SUPPORT_THRESHOLD)"]
    loops = [i for i, s in enumerate(b) if isinstance(s, ast.For)]
    if len(i0) != 1 or len(loops) != 1 or loops[0] < i0[0]:
        raise Unsupported("gammatone.__init__ shape")
    ex = Ex(BASE)
    ex.run(b[i0[0]:loops[0]])
    emit_v(out, "src_gt_alpha_const", ex.env["alpha_const"], "ComplexGammatoneFilterBank.__init__")
    ex.env["alpha_const"] = Rv("(src_gt_alpha_const erb n)")
    loop = b[loops[0]]
    if not (U(loop.target) == "(left_intersect, right_intersect)" and U(loop.iter) == "zip(edges[:-1], edges[1:])"):
        raise Unsupported("gammatone loop header")
    ex.env["left_intersect"], ex.env["right_intersect"] = Rv("left_intersect"), Rv("right_intersect")
    st = {}
    appended = {}

    def sp(s, ex):
        if isinstance(s, ast.Assign) and U(s.targets[0]) == "log_alpha":
            st["log_alpha"] = ex.ev(s.value)
            ex.env["log_alpha"] = Rv("log_alpha")
            return True
        if isinstance(s, ast.Assign) and U(s.targets[0]) == "alpha":
            st["alpha"] = ex.ev(s.value)
            ex.env["alpha"] = Rv("alpha")
            return True
        if isinstance(s, ast.Assign) and U(s.targets[0]) == "c":
            st["log_c"] = ex.env["log_c"]
            ex.env["log_c"] = Rv("log_c")
            st["c"] = ex.ev(s.value)
            ex.env["c"] = Rv("c")
            return True
        if U(s) == "if self._supports_ang[-1][0] < 0:\n    self._wrap_below = True":
            return True
        if isinstance(s, ast.Expr) and isinstance(s.value, ast.Call) and U(s.value.func).endswith(".append"):
            lst = U(s.value.func)[:-7]
            a = s.value.args[0]
            if U(a) == "self._calculate_temp_support(-1)":
                appended[lst] = "search"
            elif isinstance(a, ast.Tuple):
                appended[lst] = [ex.ev(x) for x in a.elts]
            else:
                appended[lst] = [ex.ev(a)]
            return True
        return False

    ex.run(loop.body, sp)
    emit_v(out, "src_gt_log_alpha", st["log_alpha"], "as a function of the two edges")
    if toR(st["alpha"]) != "(exp log_alpha)" or toR(st["c"]) != "(exp log_c)":
        raise Unsupported("gammatone alpha/c are no longer exp(log_alpha)/exp(log_c)")
    emit_v(out, "src_gt_log_c", st["log_c"], "as a function of log_alpha")
    emit_v(out, "src_gt_offset", ex.env["offset"])
    emit_v(out, "src_gt_supp_a", ex.env["supp_a"], "as a function of log_c")
    emit_v(out, "src_gt_diff_ang", ex.env["diff_ang"])
    want = {"self._centers_hz", "self._xis", "self._alphas", "self._cs", "self._offsets", "self._supports",
            "self._supports_ang", "self._wrap_supports_ang"}
    if set(appended) != want or appended["self._supports"] != "search":
        raise Unsupported("gammatone appends changed: %r" % sorted(appended))
    xi, da = toR(ex.env["xi"]), toR(ex.env["diff_ang"])
    if [toR(v) for v in appended["self._supports_ang"]] != ["(%s - %s)" % (xi, da), "(%s + %s)" % (xi, da)]:
        raise Unsupported("gammatone supports_ang tuple changed")
    for lst, var in (("self._alphas", "alpha"), ("self._cs", "c"), ("self._offsets", "offset"), ("self._xis", "xi")):
        if toR(appended[lst][0]) != toR(ex.env[var]):
            raise Unsupported("gammatone %s append changed" % lst)
    # ---- _h
    b = body_nodoc(meth(cls, "_h"))
    hb = bind_special({
        "offset = self._offsets[idx]": {"offset": Rv("offset")},
        "alpha = self._alphas[idx]": {"alpha": Rv("alpha")},
        "log_c = np.log(self._cs[idx])": {"log_c": Rv("(ln c)")},
        "xi = self._xis[idx]": {"xi": Rv("xi")},
        "n = self._order": {"n": ORDER},
    }, "gammatone._h")
    sth = {}

    def sph(s, ex):
        if hb(s, ex):
            return True
        if U(s) == "if t <= offset:\n    return 0j":
            sth["guard"] = True
            return True
        if isinstance(s, ast.Return):
            sth["ret"] = ex.ev(s.value)
            return True
        return False

    ex = Ex(BASE)
    ex.env["t"] = Rv("t")
    ex.run(b, sph)
    hb.check()
    if not sth.get("guard"):
        raise Unsupported("_h guard changed")
    emit_v(out, "src_gt_h_after", sth["ret"], "_h(t, idx) for t > offset (0j otherwise: pinned guard 'if t <= offset: return 0j')")
    # ---- _H
    b = body_nodoc(meth(cls, "_H"))
    hb = bind_special({
        "alpha = self._alphas[idx]": {"alpha": Rv("alpha")},
        "c = self._cs[idx]": {"c": Rv("c")},
        "xi = self._xis[idx]": {"xi": Rv("xi")},
        "offset = self._offsets[idx]": {"offset": Rv("offset")},
        "n = self._order": {"n": ORDER},
    }, "gammatone._H")
    stH = {}

    def spH(s, ex):
        if hb(s, ex):
            return True
        if isinstance(s, ast.Assign) and U(s.targets[0]) == "denom":
            v = s.value
            if not (isinstance(v, ast.BinOp) and isinstance(v.op, ast.Pow) and U(v.right) == "n"):
                raise Unsupported("_H denom is no longer base ** n")
            stH["base"] = ex.ev(v.left)
            return True
        if U(s) == "return numer / denom":
            stH["numer"] = ex.env["numer"]
            return True
        return False

    ex = Ex(BASE)
    ex.env["omega"] = Rv("omega")
    ex.run(b, spH)
    hb.check()
    emit_v(out, "src_gt_H_numer", stH["numer"], "_H = numer / base ** n")
    emit_v(out, "src_gt_H_base", stH["base"])
    # ---- _calculate_temp_support
    b = body_nodoc(meth(cls, "_calculate_temp_support"))
    hb = bind_special({
        "alpha = self._alphas[idx]": {"alpha": Rv("alpha")},
        "c = self._cs[idx]": {"c": Rv("c")},
        "offset = self._offsets[idx]": {"offset": Rv("offset")},
        "n = self._order": {"n": ORDER},
        "eps = config.EFFECTIVE_SUPPORT_THRESHOLD": {"eps": Rv("eps")},
    }, "gammatone._calculate_temp_support")
    stS = {}

    def spS(s, ex):
        if hb(s, ex):
            return True
        if isinstance(s, ast.If) and U(s.test) == "n == 1":
            pin(s.body, ["right = int(np.ceil(np.log(c) - np.log(eps) / alpha))"], "_calculate_temp_support n == 1 branch")
            eb = list(s.orelse)
            if not (len(eb) == 4 and isinstance(eb[0], ast.FunctionDef) and eb[0].name == "_d" and isinstance(eb[3], ast.While)):
                raise Unsupported("_calculate_temp_support search shape")
            ex2 = Ex(ex.env)
            ex2.env["t"] = Rv("t")
            db = body_nodoc(eb[0])
            ex2.run(db[:-1])
            if U(db[-1]) != "return v":
                raise Unsupported("_d return")
            stS["d"] = ex2.env["v"]
            ex3 = Ex(ex.env)
            ex3.run([eb[1]])
            stS["start"] = ex3.env["right"]
            pin([eb[2]], ["h_0 = np.abs(self._h(right, idx))"], "search: h_0")
            w = eb[3]
            pin([w], ["while h_0 > eps:\n    d_0 = _d(right)\n    right -= h_0 / d_0\n    h_0 = np.abs(self._h(right, idx))"], "search loop")
            ex4 = Ex({"right": Rv("right"), "h_0": Rv("h_0"), "d_0": Rv("d_0")})
            ex4.run([w.body[1]])
            stS["step"] = ex4.env["right"]
            stS["test"] = Ex({"h_0": Rv("h_0"), "eps": Rv("eps")}).flag(w.test)
            return True
        if isinstance(s, ast.Return):
            tup = s.value
            ex5 = Ex({"offset": Rv("offset"), "right": Rv("right")})
            stS["ret"] = "(%s, %s)" % (toZ(ex5.ev(tup.elts[0])), toZ(ex5.ev(tup.elts[1])))
            return True
        return False

    ex = Ex(BASE)
    ex.run(b, spS)
    hb.check()
    emit_v(out, "src_gt_d", stS["d"], "_calculate_temp_support: _d(t)")
    emit_v(out, "src_gt_search_start", stS["start"], "initial right")
    emit_v(out, "src_gt_search_step", stS["step"], "right -= h_0 / d_0")
    out.emit("src_gt_search_continue", "(if %s then true else false)" % stS["test"], "bool", "while h_0 > eps")
    out.emit("src_gt_supports", stS["ret"], "Z * Z", "the returned tuple (right is the final value of the search)")
    # ---- get_impulse_response / get_frequency_response: period ranges
    b = body_nodoc(meth(cls, "get_impulse_response"))
    pin(b, ["(left_sup, right_sup) = self.supports[filt_idx]",
            "left_period = int(np.floor(left_sup / width))",
            "right_period = int(np.ceil(right_sup / width))",
            "res = np.zeros(width, dtype=np.complex128)",
            "for period in range(left_period, right_period + 1):\n    for idx in range(width):\n        t = period * width + idx\n        res[idx] += self._h(t, filt_idx)",
            "return res"], "gammatone.get_impulse_response")
    ex = Ex({"left_sup": V("Z", "lsup"), "right_sup": V("Z", "rsup"), "width": V("Z", "width"), "period": V("Z", "period"), "idx": V("Z", "idx")})
    ex.run(b[1:3])
    emit_v(out, "src_gt_ir_left_period", ex.env["left_period"], "ComplexGammatoneFilterBank.get_impulse_response; lsup, rsup = supports[filt_idx]")
    emit_v(out, "src_gt_ir_right_period", ex.env["right_period"])
    out.emit("src_gt_ir_dtype", "Complex128", "src_dtype", "np.zeros(width, dtype=np.complex128) (pinned)")
    out.emit("src_gt_ir_t", toZ(ex.ev(ast.parse("period * width + idx").body[0].value)), "Z")
    b = body_nodoc(meth(cls, "get_frequency_response"))
    pin(b, ["(left_sup, right_sup) = self._supports_ang[filt_idx]",
            "left_period = int(np.floor(left_sup / 2 / np.pi))",
            "right_period = int(np.ceil(right_sup / 2 / np.pi))",
            "if half:\n    if width % 2:\n        dft_size = (width + 1) // 2\n    else:\n        dft_size = width // 2 + 1\nelse:\n    dft_size = width",
            "res = np.zeros(dft_size, dtype=np.complex128)",
            "omega = np.arange(dft_size, dtype=np.float64) * 2 * np.pi / width",
            "for period in range(left_period, right_period + 1):\n    res += self._H(omega + 2 * np.pi * period, filt_idx)",
            "return res"], "gammatone.get_frequency_response")
    ex = Ex({"left_sup": Rv("left_sup"), "right_sup": Rv("right_sup"), "width": V("Z", "width"), "period": V("Z", "period")})
    ex.run(b[1:3])
    emit_v(out, "src_gt_fr_left_period", ex.env["left_period"], "ComplexGammatoneFilterBank.get_frequency_response")
    emit_v(out, "src_gt_fr_right_period", ex.env["right_period"])
    ex.env["idx"] = V("Z", "idx")
    om = ex.ev(ast.parse("idx * 2 * np.pi / width + 2 * np.pi * period").body[0].value)
    emit_v(out, "src_gt_fr_omega", om, "omega[idx] + 2 * np.pi * period")


def translate(filters_src, config_src, util_src):
    out = Out()
    out.lines += [
        "(* GENERATED by /verif/gen/c07_filters.py from src/pydrobert/speech/{filters,config,util}.py - do not edit *)",
        "From Coq Require Import Reals ZArith.",
        "From Flocq Require Import Core.Raux.",
        "Open Scope R_scope.",
        "",
    ]
    tr_config(config_src, out)
    tr_util(util_src, out)
    tree = ast.parse(filters_src)
    tr_flags(tree, out)
    tr_tri(tree, out)
    tr_fbank(tree, out)
    tr_gabor(tree, out)
    tr_gammatone(tree, out)
    return "\n".join(out.lines) + "\n"


def main(filters_path, config_path, out_path):
    util_path = os.path.join(os.path.dirname(filters_path), "util.py")
    text = translate(open(filters_path).read(), open(config_path).read(), open(util_path).read())
    if not os.path.exists(out_path) or open(out_path).read() != text:
        os.makedirs(os.path.dirname(out_path), exist_ok=True)
        open(out_path, "w").write(text)
    return text


if __name__ == "__main__":
    print(main(sys.argv[1], sys.argv[2], sys.argv[3]))
