"""Translate the kill/resume-relevant shape of ``signals_to_torch_feat_dir``
(src/pydrobert/speech/command_line.py) into coq/gen/C10Tool.v.

What is extracted (and nothing else is trusted about the source):

* ``--manifest`` is opened by ``argparse.FileType("a+")`` (kept) or ``"w+"``
  (truncated)                                              -> ``c_append``
* the block that pops every manifest line from ``utt2path`` exists and runs
  before the dataset snapshots ``utt2path``                -> ``c_filter_listed``
* the seed offsets given to the dataset: ``utt2idx[...]`` built from
  ``enumerate(utt2path)`` BEFORE the manifest block (map index) or after it /
  defaulted to ``range(len(..))`` (index in the filtered list) -> ``c_seed_mode``
* the statements of the ``for utt_ids, feats in loader`` body, in order:
  ``torch.save(feat, <dir/prefix+utt+suffix>)`` and
  ``print(utt_id, file=options.manifest[, flush=..])``      -> ``c_loop``
* what is done to a manifest line before ``utt2path.pop``: ``line.strip()``,
  ``line.rstrip("\\n")`` / ``line[:-1]``, or nothing          -> ``c_norm``
* ``__getitem__`` begins with ``torch.manual_seed(self.seed +
  self.seed_offsets[idx])``                                 -> ``c_reseed_each``
* the DataLoader is built without shuffle / sampler / batching.

Fail closed: any statement that touches ``utt2path``, ``utt2idx``,
``options.manifest``, ``torch.save``, ``dataset`` or ``loader`` and is not one
of the recognised forms raises ``Unsupported``; the check then treats the tie as
broken.
"""

import ast
import os
import sys

sys.path.insert(0, os.path.dirname(os.path.abspath(__file__)))
from pyexpr import Unsupported  # noqa: E402


def U(node):
    return ast.unparse(node)


def _find_func(tree, name):
    for n in ast.walk(tree):
        if isinstance(n, ast.FunctionDef) and n.name == name:
            return n
    raise Unsupported("function %s not found" % name)


def _find_class(tree, name):
    for n in ast.walk(tree):
        if isinstance(n, ast.ClassDef) and n.name == name:
            return n
    raise Unsupported("class %s not found" % name)


def _strip_doc(body):
    if body and isinstance(body[0], ast.Expr) and isinstance(body[0].value, ast.Constant) and isinstance(body[0].value.value, str):
        return body[1:]
    return body


SENSITIVE_NAMES = {"utt2path", "utt2idx", "dataset", "loader"}
SENSITIVE_TEXT = ("options.manifest", "torch.save", "manual_seed", "DataLoader", "_FeatureProcessorDataset")


def _sensitive(node):
    for n in ast.walk(node):
        if isinstance(n, ast.Name) and n.id in SENSITIVE_NAMES:
            return True
    txt = U(node)
    return any(t in txt for t in SENSITIVE_TEXT)


# ---------------------------------------------------------------- argparse
def manifest_mode(tree):
    f = _find_func(tree, "_signals_to_torch_feat_dir_parse_args")
    for n in ast.walk(f):
        if (
            isinstance(n, ast.Call)
            and isinstance(n.func, ast.Attribute)
            and n.func.attr == "add_argument"
            and n.args
            and isinstance(n.args[0], ast.Constant)
            and n.args[0].value == "--manifest"
        ):
            kw = {k.arg: k.value for k in n.keywords}
            if "type" not in kw or "action" in kw or "nargs" in kw:
                raise Unsupported("--manifest argument: %s" % U(n))
            t = kw["type"]
            if U(kw.get("default", ast.Constant(None))) != "None":
                raise Unsupported("--manifest default is not None")
            if not (isinstance(t, ast.Call) and U(t.func) == "argparse.FileType" and len(t.args) == 1 and not t.keywords
                    and isinstance(t.args[0], ast.Constant)):
                raise Unsupported("--manifest type: %s" % U(t))
            mode = t.args[0].value
            if mode == "a+":
                return True
            if mode == "w+":
                return False
            raise Unsupported("--manifest opened with mode %r" % (mode,))
    raise Unsupported("--manifest argument not found")


# ---------------------------------------------------------------- dataset
def reseed_each(tree):
    cls = _find_class(tree, "_FeatureProcessorDataset")
    meths = {m.name: m for m in cls.body if isinstance(m, ast.FunctionDef)}
    if "__getitem__" not in meths or "__init__" not in meths:
        raise Unsupported("_FeatureProcessorDataset lacks __init__/__getitem__")
    init = meths["__init__"]
    params = [a.arg for a in init.args.args]
    want = ["self", "utt2path", "preprocessors", "computer", "postprocessors", "channel", "force_as", "seed"]
    if params[:8] != want:
        raise Unsupported("dataset __init__ parameters %r" % params)
    has_offsets = params[8:] == ["seed_offsets"]
    if params[8:] and not has_offsets:
        raise Unsupported("dataset __init__ parameters %r" % params)
    init_txt = [U(s) for s in _strip_doc(init.body)]
    if "self.utt_path = tuple(utt2path.items())" not in init_txt:
        raise Unsupported("dataset does not snapshot utt2path.items() in order")
    if "self.seed = seed" not in init_txt:
        raise Unsupported("dataset does not keep the seed")
    if has_offsets:
        if U(init.args.defaults[-1]) != "None":
            raise Unsupported("seed_offsets default")
        if "if seed_offsets is None:\n    seed_offsets = tuple(range(len(self.utt_path)))" not in init_txt:
            raise Unsupported("seed_offsets default is not range(len(utt_path))")
        if "self.seed_offsets = seed_offsets" not in init_txt:
            raise Unsupported("seed_offsets not stored")
    gi = meths["__getitem__"]
    if [a.arg for a in gi.args.args] != ["self", "idx"]:
        raise Unsupported("__getitem__ signature")
    body = _strip_doc(gi.body)
    txt = [U(s) for s in body]
    seeds = [i for i, t in enumerate(txt) if "manual_seed" in t or "seed(" in t]
    off = "self.seed + self.seed_offsets[idx]" if has_offsets else "self.seed + idx"
    if "utt_id, path = self.utt_path[idx]" not in txt:
        raise Unsupported("__getitem__ does not take utt_path[idx]")
    ret = body[-1]
    if not (isinstance(ret, ast.Return) and isinstance(ret.value, ast.Tuple) and U(ret.value.elts[0]) == "utt_id"):
        raise Unsupported("__getitem__ return: %s" % U(ret))
    if not seeds:
        return False, has_offsets
    if seeds != [0] or txt[0] != "torch.manual_seed(%s)" % off:
        raise Unsupported("__getitem__ seeding: %s" % "; ".join(txt[i] for i in seeds))
    return True, has_offsets


# ---------------------------------------------------------------- main
MAP_LOOP_REQUIRED = [
    "line = line.strip()",
    "if not line:\n    continue",
    "ls = line.split(' ')",
    "utt_id = ls[0]",
    "utt2path[utt_id] = ' '.join(ls[1:])",
]


def _check_map_loop(st):
    if U(st.target) != "(line_no, line)" or U(st.iter) != "enumerate(options.map)" or st.orelse:
        raise Unsupported("map loop header: %s" % U(st).split("\n")[0])
    txt = [U(s) for s in st.body]
    for need in MAP_LOOP_REQUIRED:
        if need not in txt:
            raise Unsupported("map loop lacks %r" % need)
    guards = [s for s in st.body if isinstance(s, ast.If) and U(s.test) in ("len(ls) < 2", "utt_id in utt2path")]
    if len(guards) != 2:
        raise Unsupported("map loop guards")
    for g in guards:
        if g.orelse or not isinstance(g.body[-1], ast.Return) or U(g.body[-1]) != "return 1":
            raise Unsupported("map loop guard does not return 1: %s" % U(g.test))
    for s in st.body:
        t = U(s)
        if t in MAP_LOOP_REQUIRED or s in guards:
            continue
        raise Unsupported("map loop statement: %s" % t.split("\n")[0])
    order = [txt.index(x) for x in MAP_LOOP_REQUIRED]
    if order != sorted(order):
        raise Unsupported("map loop statement order")


def _loop_body(st, has_offsets):
    if U(st.target) != "(utt_ids, feats)" or U(st.iter) != "loader" or st.orelse:
        raise Unsupported("main loop header: %s" % U(st).split("\n")[0])
    body = list(st.body)
    if not body or U(body[0]) != "utt_id, feat = (utt_ids[0], feats[0])":
        raise Unsupported("main loop does not take item 0 of the batch: %s" % (U(body[0]) if body else ""))
    ops = []
    for s in body[1:]:
        t = U(s)
        if isinstance(s, ast.Expr) and isinstance(s.value, ast.Call) and U(s.value.func) == "torch.save":
            c = s.value
            if c.keywords or len(c.args) != 2 or U(c.args[0]) != "feat":
                raise Unsupported("torch.save call: %s" % t)
            if U(c.args[1]) != "os.path.join(options.dir, options.file_prefix + utt_id + options.file_suffix)":
                raise Unsupported("torch.save target: %s" % U(c.args[1]))
            ops.append("LSave")
            continue
        if isinstance(s, ast.If) and U(s.test) == "options.manifest is not None" and not s.orelse:
            inner = list(s.body)
            if not inner:
                raise Unsupported("empty manifest block")
            p = inner[0]
            if not (isinstance(p, ast.Expr) and isinstance(p.value, ast.Call) and U(p.value.func) == "print"):
                raise Unsupported("manifest block: %s" % U(p))
            c = p.value
            kw = {k.arg: k.value for k in c.keywords}
            if len(c.args) != 1 or U(c.args[0]) != "utt_id" or set(kw) - {"file", "flush"} or U(kw.get("file", ast.Constant(None))) != "options.manifest":
                raise Unsupported("manifest print: %s" % U(p))
            fl = kw.get("flush", ast.Constant(False))
            if not (isinstance(fl, ast.Constant) and isinstance(fl.value, bool)):
                raise Unsupported("flush argument: %s" % U(fl))
            flush = fl.value
            for extra in inner[1:]:
                if U(extra) == "options.manifest.flush()":
                    flush = True
                else:
                    raise Unsupported("manifest block statement: %s" % U(extra))
            ops.append("LPrint %s" % ("true" if flush else "false"))
            continue
        if _sensitive(s) or any(isinstance(n, (ast.Break, ast.Continue, ast.Return, ast.Raise)) for n in ast.walk(s)):
            raise Unsupported("main loop statement: %s" % t.split("\n")[0])
    return ops


def translate(src):
    tree = ast.parse(src)
    append = manifest_mode(tree)
    reseed, has_offsets = reseed_each(tree)
    f = _find_func(tree, "signals_to_torch_feat_dir")
    body = _strip_doc(f.body)
    pos = {}
    norm = "NoStrip"
    loop_ops = None
    offsets_arg = None
    for i, st in enumerate(body):
        t = U(st)
        if isinstance(st, ast.For) and "options.map" in U(st.iter):
            _check_map_loop(st)
            pos["map"] = i
        elif t == "utt2path = dict()" or t == "utt2path = {}":
            pos["init"] = i
        elif t == "utt2idx = dict(((utt_id, idx) for idx, utt_id in enumerate(utt2path)))":
            pos["idx"] = i
        elif isinstance(st, ast.If) and U(st.test) == "options.manifest is not None":
            norms = {
                "line.strip()": "StripAll",
                "line.rstrip('\\n')": "StripNewline",
                "line.rstrip('\\r\\n')": "StripNewline",
                "line[:-1]": "StripNewline",
                "line": "NoStrip",
            }
            got = "\n".join(U(s) for s in st.body)
            norm = None
            for k, v in norms.items():
                if got == "options.manifest.seek(0)\nfor line in options.manifest:\n    utt2path.pop(%s, None)" % k:
                    norm = v
            if st.orelse or norm is None:
                raise Unsupported("manifest block: %s" % t)
            if "filter" in pos:
                raise Unsupported("two manifest blocks")
            pos["filter"] = i
        elif isinstance(st, ast.Assign) and U(st.targets[0]) == "dataset":
            c = st.value
            if not (isinstance(c, ast.Call) and U(c.func) == "_FeatureProcessorDataset") or len(st.targets) != 1:
                raise Unsupported("dataset construction: %s" % t)
            args = [U(a) for a in c.args]
            kws = {k.arg: U(k.value) for k in c.keywords}
            want = ["utt2path", "preprocessors", "computer", "postprocessors", "options.channel", "options.force_as", "seed"]
            if args[:7] != want or set(kws) - {"seed_offsets"}:
                raise Unsupported("dataset arguments: %s" % t)
            rest = args[7:]
            if len(rest) > 1 or (rest and "seed_offsets" in kws):
                raise Unsupported("dataset arguments: %s" % t)
            offsets_arg = rest[0] if rest else kws.get("seed_offsets")
            pos["dataset"] = i
        elif isinstance(st, ast.Assign) and U(st.targets[0]) == "loader":
            c = st.value
            if not (isinstance(c, ast.Call) and U(c.func) == "torch.utils.data.DataLoader" and [U(a) for a in c.args] == ["dataset"]):
                raise Unsupported("loader construction: %s" % t)
            for k in c.keywords:
                v = U(k.value)
                ok = (
                    (k.arg == "num_workers" and v == "options.num_workers")
                    or (k.arg == "batch_size" and v == "1")
                    or (k.arg == "shuffle" and v == "False")
                    or k.arg in ("pin_memory", "persistent_workers", "prefetch_factor", "timeout", "multiprocessing_context")
                )
                if not ok:
                    raise Unsupported("DataLoader argument %s=%s" % (k.arg, v))
            pos["loader"] = i
        elif isinstance(st, ast.For) and U(st.iter) == "loader":
            if loop_ops is not None:
                raise Unsupported("two main loops")
            loop_ops = _loop_body(st, has_offsets)
            pos["loop"] = i
        elif isinstance(st, ast.If) and U(st.test) == "options.seed is None":
            if t != "if options.seed is None:\n    seed = np.random.randint(np.iinfo(np.int32).max)\nelse:\n    seed = options.seed":
                raise Unsupported("seed selection: %s" % t)
            pos["seed"] = i
        elif _sensitive(st):
            raise Unsupported("unrecognised statement touching the manifest/work list: %s" % t.split("\n")[0])
    for need in ("init", "map", "dataset", "loader", "loop", "seed"):
        if need not in pos:
            raise Unsupported("statement not found: %s" % need)
    if not (pos["init"] < pos["map"] < pos["dataset"] < pos["loader"] < pos["loop"]):
        raise Unsupported("statement order")
    # does the manifest block act on the work list?
    filt = "filter" in pos and pos["map"] < pos["filter"] < pos["dataset"]
    if "filter" in pos and not filt:
        raise Unsupported("manifest block is not between map parsing and dataset construction")
    # which index seeds an utterance?
    if offsets_arg is None or offsets_arg == "None":
        mode = "SeedByWorkIndex"
    elif offsets_arg == "tuple((utt2idx[utt_id] for utt_id in utt2path))":
        if not has_offsets:
            raise Unsupported("seed offsets passed to a dataset that does not take them")
        if "idx" not in pos or not (pos["map"] < pos["idx"] < pos["dataset"]):
            raise Unsupported("utt2idx is not built between map parsing and dataset construction")
        if filt and pos["idx"] > pos["filter"]:
            mode = "SeedByWorkIndex"
        else:
            mode = "SeedByMapIndex"
    else:
        raise Unsupported("seed offsets: %s" % offsets_arg)
    out = [
        "(* GENERATED by /verif/gen/c10tool.py from src/pydrobert/speech/command_line.py - do not edit *)",
        "From Coq Require Import List Bool.",
        "From Verif Require Import C10.Model.",
        "Import ListNotations.",
        "",
        "Definition tool : tool_cfg :=",
        "  mkcfg %s %s [%s] %s %s %s." % (
            mode,
            "true" if filt else "false",
            "; ".join(loop_ops),
            "true" if append else "false",
            "true" if reseed else "false",
            norm,
        ),
        "",
    ]
    return "\n".join(out)


def main(src_path, out_path):
    text = translate(open(src_path).read())
    os.makedirs(os.path.dirname(out_path), exist_ok=True)
    if not os.path.exists(out_path) or open(out_path).read() != text:
        with open(out_path, "w") as fo:
            fo.write(text)
    return text


if __name__ == "__main__":
    print(main(sys.argv[1], sys.argv[2]))
