"""Translate the per-utterance code of the two command-line tools into Gallina.

Reads (Python ``ast``; nothing is imported or executed)

* ``command_line.py``: the seeding statement, the ``for`` loop over the wave
  table and the exit status of ``compute_feats_from_kaldi_tables``; the body of
  ``_FeatureProcessorDataset.__getitem__`` (signals-to-torch-feat-dir);
* ``compute.py`` / ``torch.py``: the integer framing arithmetic at the head of
  ``ShortTimeFourierTransformFrameComputer.compute_full`` and of
  ``pytorch_stft_frame_computer`` (too-short gate, pad_left, num_frames,
  pad_right),

and writes ``coq/gen/CmdLine.v``: definitions in the vocabulary of
``coq/C09/Model.v``.  The theorems of ``coq/C09`` are about these generated
definitions, so they are re-checked against the current source on every run.

It is a small typed compiler for the statement forms that occur there
(assignments, ``if/elif/else``, the processor ``for`` loops, ``continue``,
``raise``, ``return``, ``try: read_signal(..) except Exception: raise IOError``),
with a table of the library calls it knows.  Logging calls and ``del`` are
dropped.  Fail closed: anything else raises ``Unsupported`` and the check
treats the tie as broken.
"""

import ast
import os
import sys


class Unsupported(Exception):
    pass


RESERVED = {
    "w", "r", "items", "L", "self_", "fix", "match", "with", "end", "let", "in", "if", "then", "else", "fun",
    "forall", "exists", "Type", "Prop", "Set", "as", "return", "at", "where", "struct",
    "strip", "lstrip", "rstrip", "split_sp", "join_sp", "sp", "Sig", "Feat", "Pre", "Post", "Comp", "Rng",
}
EXN = {
    "ValueError": "EValueError",
    "IOError": "EIOError",
    "OSError": "EIOError",
    "IndexError": "EIndexError",
    "NotImplementedError": "ENotImplementedError",
}


def dotted(e):
    """a.b.c -> 'a.b.c' for pure Name/Attribute chains, else None"""
    parts = []
    while isinstance(e, ast.Attribute):
        parts.append(e.attr)
        e = e.value
    if isinstance(e, ast.Name):
        parts.append(e.id)
        return ".".join(reversed(parts))
    return None


def zlit(v):
    return "(%d)" % v if v < 0 else "%d" % v


class Mode:
    """Where control goes at continue / return / raise / end of block."""

    world = None  # name of the threaded state variable

    def on_continue(self, env):
        raise Unsupported("continue outside a translated loop")

    def on_return(self, tr, value, env):
        raise Unsupported("return")

    def on_raise(self, exn, env):
        raise Unsupported("raise")


class Tr:
    def __init__(self, mode):
        self.mode = mode
        self.tmp = 0

    # ------------------------------------------------------------------ expressions
    def fresh(self):
        self.tmp += 1
        return "t%d" % self.tmp

    def lookup(self, key, env):
        if key in env:
            return env[key]
        raise Unsupported("unknown name %s" % key)

    def expr(self, e, env, hoist):
        """-> (coq term, type).  Partial sub-expressions are hoisted into
        ``hoist`` as (pattern, option term, exception)."""
        if isinstance(e, ast.Constant):
            if isinstance(e.value, bool):
                return ("true" if e.value else "false"), "B"
            if isinstance(e.value, int):
                return zlit(e.value), "Z"
            if isinstance(e.value, str):
                return '"%s"%%string' % e.value.replace('"', '""'), "strlit"
            raise Unsupported("constant %r" % (e.value,))
        if isinstance(e, ast.UnaryOp) and isinstance(e.op, ast.USub):
            if isinstance(e.operand, ast.Constant) and isinstance(e.operand.value, int) and not isinstance(e.operand.value, bool):
                return zlit(-e.operand.value), "Z"
            t, ty = self.expr(e.operand, env, hoist)
            if ty != "Z":
                raise Unsupported("negation of %s" % ty)
            return "(- %s)" % t, "Z"
        if isinstance(e, ast.UnaryOp) and isinstance(e.op, ast.Not):
            return "(negb %s)" % self.truthy(e.operand, env, hoist), "B"
        key = dotted(e)
        if key is not None:
            if key in env:
                return env[key]
            # X.ndim
            if isinstance(e, ast.Attribute) and e.attr == "ndim":
                t, ty = self.expr(e.value, env, hoist)
                if ty == "arr":
                    return "(arr_ndim %s)" % t, "Z"
            raise Unsupported("unknown name %s" % key)
        if isinstance(e, ast.BinOp):
            a, ta = self.expr(e.left, env, hoist)
            b, tb = self.expr(e.right, env, hoist)
            if ta != "Z" or tb != "Z":
                raise Unsupported("arithmetic on %s, %s" % (ta, tb))
            op = {ast.Add: "+", ast.Sub: "-", ast.Mult: "*", ast.FloorDiv: "/", ast.Mod: "mod"}.get(type(e.op))
            if op is None:
                raise Unsupported("operator %s" % type(e.op).__name__)
            return "(%s %s %s)" % (a, op, b), "Z"
        if isinstance(e, ast.Compare):
            if len(e.ops) != 1:
                raise Unsupported("chained comparison")
            op = type(e.ops[0])
            if op in (ast.Is, ast.IsNot):
                c = e.comparators[0]
                if not (isinstance(c, ast.Constant) and c.value is None):
                    raise Unsupported("'is' with something else than None")
                t, ty = self.expr(e.left, env, hoist)
                if not ty.startswith("opt"):
                    raise Unsupported("'is None' on %s" % ty)
                return ("(negb (is_some %s))" if op is ast.Is else "(is_some %s)") % t, "B"
            a, ta = self.expr(e.left, env, hoist)
            b, tb = self.expr(e.comparators[0], env, hoist)
            if op in (ast.In, ast.NotIn):
                if ta == "str" and tb == "dict":
                    return ("(dict_mem %s %s)" if op is ast.In else "(negb (dict_mem %s %s))") % (a, b), "B"
                raise Unsupported("membership of %s in %s" % (ta, tb))
            if ta == "Z" and tb == "Z":
                fmt = {ast.Lt: "(%s <? %s)", ast.LtE: "(%s <=? %s)", ast.Gt: "(%s >? %s)", ast.GtE: "(%s >=? %s)",
                       ast.Eq: "(%s =? %s)", ast.NotEq: "(negb (%s =? %s))"}.get(op)
            elif ta == "Q" and tb == "Q":
                fmt = {ast.Lt: "(Qltb %s %s)", ast.NotEq: "(Qneb %s %s)", ast.Eq: "(Qeq_bool %s %s)",
                       ast.LtE: "(Qle_bool %s %s)", ast.Gt: "(Qltb %[2]s %[1]s)", ast.GtE: "(Qle_bool %[2]s %[1]s)"}.get(op)
            elif ta == "str" and tb == "strlit" and op in (ast.Eq, ast.NotEq):
                fmt = "(String.eqb %s %s)" if op is ast.Eq else "(negb (String.eqb %s %s))"
            else:
                raise Unsupported("comparison of %s and %s" % (ta, tb))
            if fmt is None:
                raise Unsupported("comparison operator %s" % op.__name__)
            if "[" in fmt:
                fmt = fmt.replace("%[1]s", "{0}").replace("%[2]s", "{1}")
                return fmt.format(a, b), "B"
            return fmt % (a, b), "B"
        if isinstance(e, ast.BoolOp):
            j = " && " if isinstance(e.op, ast.And) else " || "
            return "(" + j.join(self.truthy(v, env, hoist) for v in e.values) + ")", "B"
        if isinstance(e, ast.IfExp):
            c = self.truthy(e.test, env, hoist)
            a, ta = self.expr(e.body, env, hoist)
            b, tb = self.expr(e.orelse, env, hoist)
            if ta != tb:
                raise Unsupported("conditional expression of types %s / %s" % (ta, tb))
            return "(if %s then %s else %s)" % (c, a, b), ta
        if isinstance(e, ast.Subscript):
            # X.shape[0]
            if isinstance(e.value, ast.Attribute) and e.value.attr == "shape":
                if not (isinstance(e.slice, ast.Constant) and e.slice.value == 0):
                    raise Unsupported("shape[k] with k != 0")
                t, ty = self.expr(e.value.value, env, hoist)
                if ty == "wave":
                    return "(Zlength %s)" % t, "Z"
                if ty == "arr":
                    return "(arr_shape0 sig_len %s)" % t, "Z"
                raise Unsupported("shape of %s" % ty)
            t, ty = self.expr(e.value, env, hoist)
            if isinstance(e.slice, (ast.Slice, ast.Tuple)):
                raise Unsupported("slice")
            i, ti = self.expr(e.slice, env, hoist)
            if ti != "Z":
                raise Unsupported("index of type %s" % ti)
            if ty == "wave":
                v = self.fresh()
                hoist.append((v, "py_getitem %s %s" % (t, i), "EIndexError"))
                return v, "sig32"
            if ty == "arr":
                v = self.fresh()
                hoist.append((v, "arr_index %s %s" % (t, i), "EIndexError"))
                return v, "arr"
            if ty.startswith("list:"):
                v = self.fresh()
                hoist.append((v, "py_getitem %s %s" % (t, i), "EIndexError"))
                return v, ty[5:]
            raise Unsupported("subscript of %s" % ty)
        if isinstance(e, ast.Call):
            return self.call(e, env, hoist)
        raise Unsupported("expression %s" % ast.dump(e)[:80])

    def call(self, e, env, hoist):
        f = e.func
        kw = {k.arg: k.value for k in e.keywords}
        fname = dotted(f)
        # len(x)
        if fname == "len" and len(e.args) == 1 and not kw:
            t, ty = self.expr(e.args[0], env, hoist)
            if ty == "feat":
                return "(nframes %s)" % t, "Z"
            if ty == "siglen":
                return t, "Z"
            if ty.startswith("list:"):
                return "(Zlength %s)" % t, "Z"
            raise Unsupported("len of %s" % ty)
        if fname in ("max", "min") and len(e.args) == 2 and not kw:
            a, ta = self.expr(e.args[0], env, hoist)
            b, tb = self.expr(e.args[1], env, hoist)
            if ta == "Z" and tb == "Z":
                return "(Z.%s %s %s)" % (fname, a, b), "Z"
            raise Unsupported("%s of %s, %s" % (fname, ta, tb))
        if fname == "torch.from_numpy" and len(e.args) == 1 and not kw:
            t, ty = self.expr(e.args[0], env, hoist)
            if ty != "arr":
                raise Unsupported("from_numpy of %s" % ty)
            v = self.fresh()
            hoist.append((v, "arr_vec %s" % t, "ELibraryError"))
            return v, "sig"
        if fname is not None and fname in env and env[fname][1] == "ptcomp" and len(e.args) == 1 and not kw:
            a, ta = self.expr(e.args[0], env, hoist)
            if ta == "sig":
                return "(pt_compute %s %s)" % (env[fname][0], a), "feat"
            raise Unsupported("computer applied to %s" % ta)
        # " ".join(ls[k:])
        if isinstance(f, ast.Attribute) and f.attr == "join" and isinstance(f.value, ast.Constant) and f.value.value == " " \
                and len(e.args) == 1 and not kw:
            a = e.args[0]
            if isinstance(a, ast.Subscript) and isinstance(a.slice, ast.Slice) and a.slice.upper is None and a.slice.step is None \
                    and isinstance(a.slice.lower, ast.Constant) and isinstance(a.slice.lower.value, int) and a.slice.lower.value >= 0:
                t, ty = self.expr(a.value, env, hoist)
                if ty == "list:str":
                    return "(join_sp (py_slice_from %s %d))" % (t, a.slice.lower.value), "str"
            t, ty = self.expr(a, env, hoist)
            if ty == "list:str":
                return "(join_sp %s)" % t, "str"
            raise Unsupported("join of %s" % ty)
        if isinstance(f, ast.Attribute):
            meth = f.attr
            recv, tr = self.expr(f.value, env, hoist)
            if tr == "str" and meth == "strip" and not e.args and not kw:
                return "(strip %s)" % recv, "str"
            if tr == "str" and meth == "rstrip" and len(e.args) == 1 and not kw \
                    and isinstance(e.args[0], ast.Constant) and e.args[0].value == "\n":
                return "(rstrip_nl %s)" % recv, "str"
            if tr == "str" and meth == "split" and len(e.args) == 1 and not kw \
                    and isinstance(e.args[0], ast.Constant) and e.args[0].value == " ":
                return "(split_sp %s)" % recv, "list:str"
            if meth == "astype" and len(e.args) == 1:
                d = dotted(e.args[0])
                if tr == "sig32" and d == "np.float64" and set(kw) <= {"copy"}:
                    return recv, "sig"
                if tr == "feat" and d == "np.float32" and not kw:
                    return "(cast32 %s)" % recv, "feat"
                raise Unsupported("astype(%s) on %s" % (d, tr))
            if meth == "float" and not e.args and not kw and tr == "feat":
                return "(cast32 %s)" % recv, "feat"
            if meth == "size" and len(e.args) == 1 and not kw and tr in ("feat", "siglen"):
                if not (isinstance(e.args[0], ast.Constant) and e.args[0].value == 0):
                    raise Unsupported("size(k) with k != 0")
                return ("(nframes %s)" % recv if tr == "feat" else recv), "Z"
            if meth == "compute_full" and tr == "comp" and len(e.args) == 1 and not kw:
                a, ta = self.expr(e.args[0], env, hoist)
                if ta == "sig":
                    return "(compute_full %s %s)" % (recv, a), "feat"
            if meth == "unsqueeze" and tr == "sig" and len(e.args) == 1 and not kw:
                if isinstance(e.args[0], ast.Constant) and e.args[0].value == 1:
                    return "(raw_column %s)" % recv, "feat"
            raise Unsupported("method %s on %s" % (meth, tr))
        # calling a module: self.computer(signal)
        t, ty = self.expr(f, env, hoist)
        if ty == "ptcomp" and len(e.args) == 1 and not kw:
            a, ta = self.expr(e.args[0], env, hoist)
            if ta == "sig":
                return "(pt_compute %s %s)" % (t, a), "feat"
        raise Unsupported("call of %s" % ty)

    def truthy(self, e, env, hoist):
        t, ty = self.expr(e, env, hoist)
        if ty == "B":
            return t
        if ty == "Z":
            return "(truthy_Z %s)" % t
        if ty == "optZ":
            return "(truthy_optZ %s)" % t
        if ty == "str":
            return "(truthy_str %s)" % t
        raise Unsupported("truth value of %s" % ty)

    # ------------------------------------------------------------------ conditions
    def cond(self, test, env, hoist):
        """-> (render(then, else), then_env, else_env)"""
        neg = False
        t0 = test
        while isinstance(t0, ast.UnaryOp) and isinstance(t0.op, ast.Not):
            neg = not neg
            t0 = t0.operand
        key = None
        kind = None
        if isinstance(t0, ast.Compare) and len(t0.ops) == 1 and isinstance(t0.ops[0], (ast.Is, ast.IsNot)) \
                and isinstance(t0.comparators[0], ast.Constant) and t0.comparators[0].value is None:
            key = dotted(t0.left)
            kind = "none" if isinstance(t0.ops[0], ast.Is) else "some"
        elif dotted(t0) is not None and dotted(t0) in env and env[dotted(t0)][1].startswith("opt"):
            key = dotted(t0)
            kind = "truthy"
        if key is not None and key in env and env[key][1].startswith("opt"):
            term, ty = env[key]
            inner = ty[3:]
            v = key.split(".")[-1] + "_v"
            some_env = dict(env)
            some_env[key] = (v, inner)
            if kind == "truthy":
                if inner != "Z":
                    raise Unsupported("truth value of optional %s" % inner)

                def render(a, b, term=term, v=v, neg=neg):
                    if neg:
                        a, b = b, a
                    return "match %s with\n| Some %s => if truthy_Z %s then %s else %s\n| None => %s\nend" % (term, v, v, a, b, b)

                # in the false branch the value may still be Some 0
                return render, (env if neg else some_env), (some_env if neg else env)
            is_none_branch_first = (kind == "none") != neg

            def render(a, b, term=term, v=v, first=is_none_branch_first):
                if first:
                    return "match %s with\n| None => %s\n| Some %s => %s\nend" % (term, a, v, b)
                return "match %s with\n| Some %s => %s\n| None => %s\nend" % (term, v, a, b)

            if is_none_branch_first:
                return render, env, some_env
            return render, some_env, env
        c = self.truthy(test, env, hoist)
        return (lambda a, b: "if %s then %s else %s" % (c, a, b)), env, env

    # ------------------------------------------------------------------ statements
    def wrap(self, hoist, inner, env):
        for v, term, exn in reversed(hoist):
            inner = "match %s with\n| None => %s\n| Some %s => %s\nend" % (term, self.mode.on_raise(exn, env), v, inner)
        return inner

    def skippable(self, s):
        if isinstance(s, (ast.Pass, ast.Delete)):
            return True
        if isinstance(s, ast.Expr):
            v = s.value
            if isinstance(v, ast.Constant) and isinstance(v.value, str):
                return True
            if isinstance(v, ast.Call):
                n = dotted(v.func) or ""
                if n.split(".")[0] in ("logger", "warnings", "logging"):
                    return True
                if n == "print" and any(k.arg == "file" and dotted(k.value) == "sys.stderr" for k in v.keywords):
                    return True
        if isinstance(s, ast.If):
            return all(self.skippable(x) for x in s.body + s.orelse) and self.pure_test(s.test)
        return False

    def pure_test(self, test):
        # a test that cannot raise: no subscripts / calls except len()
        for n in ast.walk(test):
            if isinstance(n, ast.Subscript) and not (isinstance(n.value, ast.Attribute) and n.value.attr == "shape"):
                return False
            if isinstance(n, ast.Call) and dotted(n.func) != "len":
                return False
        return True

    def bind(self, name, ty, env):
        if name in RESERVED or name == self.mode.world:
            raise Unsupported("local name %s clashes with the model's vocabulary" % name)
        env = dict(env)
        env[name] = (name, ty)
        return env

    def block(self, stmts, env, k):
        if not stmts:
            return k(env)
        s, rest = stmts[0], stmts[1:]
        cont = lambda env2: self.block(rest, env2, k)  # noqa: E731
        return self.stmt(s, env, cont)

    def is_pure(self, stmts):
        """only (nested) ifs over pure assignments to names"""
        for s in stmts:
            if self.skippable(s):
                continue
            if isinstance(s, ast.Assign) and len(s.targets) == 1 and isinstance(s.targets[0], ast.Name):
                continue
            if isinstance(s, ast.If) and self.is_pure(s.body) and self.is_pure(s.orelse):
                continue
            return False
        return True

    def pure_eval(self, stmts, env):
        """Symbolic evaluation of a pure block: -> env with the assigned names
        mapped to terms over the variables of the incoming env.  Returns None
        when an expression is partial (must be sequenced instead)."""
        env = dict(env)
        for s in stmts:
            if self.skippable(s):
                continue
            if isinstance(s, ast.Assign):
                hoist = []
                t, ty = self.expr(s.value, env, hoist)
                if hoist or ty in ("strlit", "sig32"):
                    return None
                n = s.targets[0].id
                if n in RESERVED or n == self.mode.world:
                    raise Unsupported("local name %s clashes with the model's vocabulary" % n)
                env[n] = (t, ty)
            else:
                hoist = []
                render, env_t, env_f = self.cond(s.test, env, hoist)
                if hoist:
                    return None
                ea = self.pure_eval(s.body, env_t)
                eb = self.pure_eval(s.orelse, env_f)
                if ea is None or eb is None:
                    return None
                for n in self.assigned_names(s.body) | self.assigned_names(s.orelse):
                    if n not in ea or n not in eb:
                        raise Unsupported("variable %s assigned in only one branch and undefined before" % n)
                    if ea[n][1] != eb[n][1]:
                        raise Unsupported("variable %s has types %s / %s after if" % (n, ea[n][1], eb[n][1]))
                    env[n] = ("(" + render(ea[n][0], eb[n][0]) + ")", ea[n][1])
        return env

    def assigned_names(self, stmts):
        out = set()
        for s in stmts:
            if isinstance(s, ast.Assign):
                out.add(s.targets[0].id)
            elif isinstance(s, ast.If):
                out |= self.assigned_names(s.body) | self.assigned_names(s.orelse)
        return out

    def stmt(self, s, env, cont):
        W = self.mode.world
        if self.skippable(s):
            return cont(env)
        if isinstance(s, ast.Continue):
            return self.mode.on_continue(env)
        if isinstance(s, ast.Return):
            return self.mode.on_return(self, s.value, env)
        if isinstance(s, ast.Raise):
            exc = s.exc
            name = dotted(exc.func) if isinstance(exc, ast.Call) else dotted(exc) if exc is not None else None
            if name not in EXN:
                raise Unsupported("raise of %s" % name)
            return self.mode.on_raise(EXN[name], env)
        if isinstance(s, ast.AugAssign):
            if not isinstance(s.target, ast.Name):
                raise Unsupported("augmented assignment target")
            n = s.target.id
            a, ta = self.lookup(n, env)
            hoist = []
            b, tb = self.expr(s.value, env, hoist)
            op = {ast.Add: "+", ast.Sub: "-"}.get(type(s.op))
            if ta != "Z" or tb != "Z" or op is None or hoist:
                raise Unsupported("augmented assignment %s" % ast.dump(s)[:60])
            env2 = self.bind(n, "Z", env)
            return "let %s := %s %s %s in\n%s" % (n, a, op, b, cont(env2))
        if isinstance(s, ast.Assign):
            if len(s.targets) != 1:
                raise Unsupported("multiple assignment targets")
            tg = s.targets[0]
            hoist = []
            t, ty = self.expr(s.value, env, hoist)
            if isinstance(tg, ast.Name):
                if ty in ("strlit",):
                    raise Unsupported("string assignment")
                if ty == "sig32":
                    raise Unsupported("float32 channel used without the float64 conversion")
                env2 = self.bind(tg.id, ty, env)
                # a hoisted temporary that is immediately named: bind the name directly
                if hoist and hoist[-1][0] == t:
                    v, term, exn = hoist.pop()
                    inner = "match %s with\n| None => %s\n| Some %s => %s\nend" % (term, self.mode.on_raise(exn, env), tg.id, cont(env2))
                    return self.wrap(hoist, inner, env)
                return self.wrap(hoist, "let %s := %s in\n%s" % (tg.id, t, cont(env2)), env)
            if isinstance(tg, ast.Tuple) and all(isinstance(x, ast.Name) for x in tg.elts):
                if not (ty.startswith("(") and ty.endswith(")")):
                    raise Unsupported("tuple assignment from %s" % ty)
                tys = ty[1:-1].split("*")
                if len(tys) != len(tg.elts):
                    raise Unsupported("tuple arity")
                env2 = env
                for x, xt in zip(tg.elts, tys):
                    env2 = self.bind(x.id, xt, env2)
                pat = "(" + ", ".join(x.id for x in tg.elts) + ")"
                if hoist and hoist[-1][0] == t:
                    v, term, exn = hoist.pop()
                    inner = "match %s with\n| None => %s\n| Some %s => %s\nend" % (term, self.mode.on_raise(exn, env), pat, cont(env2))
                    return self.wrap(hoist, inner, env)
                return self.wrap(hoist, "let '%s := %s in\n%s" % (pat, t, cont(env2)), env)
            if isinstance(tg, ast.Subscript) and isinstance(tg.value, ast.Name) and not hoist:
                d, td = self.lookup(tg.value.id, env)
                k, tk = self.expr(tg.slice, env, hoist)
                if td == "dict" and tk == "str" and ty == "str" and not hoist:
                    env2 = self.bind(tg.value.id, "dict", env)
                    return "let %s := dict_set %s %s %s in\n%s" % (tg.value.id, d, k, t, cont(env2))
            raise Unsupported("assignment target %s" % ast.dump(tg)[:60])
        if isinstance(s, ast.Expr) and isinstance(s.value, ast.Call):
            c = s.value
            n = dotted(c.func)
            if n == "feat_writer.write" and len(c.args) == 2 and not c.keywords and W == "w":
                hoist = []
                a, ta = self.expr(c.args[0], env, hoist)
                b, tb = self.expr(c.args[1], env, hoist)
                if ta != "str" or tb != "feat" or hoist:
                    raise Unsupported("feat_writer.write(%s, %s)" % (ta, tb))
                return "let w := kw_write w %s %s in\n%s" % (a, b, cont(env))
            if n == "np.random.seed" and len(c.args) == 1 and not c.keywords and W == "w":
                hoist = []
                a, ta = self.expr(c.args[0], env, hoist)
                if ta != "Z" or hoist:
                    raise Unsupported("np.random.seed(%s)" % ta)
                return "let w := kw_seed %s w in\n%s" % (a, cont(env))
            if n == "torch.manual_seed" and len(c.args) == 1 and not c.keywords and W == "r":
                hoist = []
                a, ta = self.expr(c.args[0], env, hoist)
                if ta != "Z":
                    raise Unsupported("torch.manual_seed(%s)" % ta)
                return self.wrap(hoist, "let r := seed_rng %s in\n%s" % (a, cont(env)), env)
            raise Unsupported("call statement %s" % n)
        if isinstance(s, ast.For):
            return self.for_fold(s, env, cont)
        if isinstance(s, ast.Try):
            return self.try_read(s, env, cont)
        if isinstance(s, ast.If):
            hoist = []
            render, env_t, env_f = self.cond(s.test, env, hoist)
            # value-level if: every branch only assigns names purely
            if not hoist and self.is_pure([s]) and self.assigned_names([s]):
                e2 = self.pure_eval([s], env)
                if e2 is not None:
                    names = sorted(self.assigned_names([s]))
                    env2 = env
                    for n in names:
                        env2 = self.bind(n, e2[n][1], env2)
                    if len(names) == 1:
                        return "let %s := %s in\n%s" % (names[0], e2[names[0]][0], cont(env2))
                    # several names: each term only mentions the old values, so bind them together
                    return "let '(%s) := (%s) in\n%s" % (", ".join(names), ", ".join(e2[n][0] for n in names), cont(env2))
            a = self.block(list(s.body), env_t, cont)
            b = self.block(list(s.orelse), env_f, cont)
            return self.wrap(hoist, render("\n" + a + "\n", "\n" + b + "\n"), env)
        raise Unsupported("statement %s" % ast.dump(s)[:80])

    def for_fold(self, s, env, cont):
        W = self.mode.world
        if s.orelse or not isinstance(s.target, ast.Name) or len(s.body) != 1:
            raise Unsupported("for loop shape")
        v = s.target.id
        hoist = []
        lst, lty = self.expr(s.iter, env, hoist)
        b = s.body[0]
        if hoist or not (isinstance(b, ast.Assign) and len(b.targets) == 1 and isinstance(b.targets[0], ast.Name)
                         and isinstance(b.value, ast.Call)):
            raise Unsupported("for loop body")
        x = b.targets[0].id
        c = b.value
        kw = {k.arg: k.value for k in c.keywords}
        xt = self.lookup(x, env)
        if not (len(c.args) == 1 and isinstance(c.args[0], ast.Name) and c.args[0].id == x):
            raise Unsupported("for loop body does not thread its variable")
        is_apply = isinstance(c.func, ast.Attribute) and c.func.attr == "apply" and isinstance(c.func.value, ast.Name) and c.func.value.id == v
        is_call = isinstance(c.func, ast.Name) and c.func.id == v
        if lty == "pres" and is_apply and xt[1] == "sig" and W == "w":
            if set(kw) - {"in_place"}:
                raise Unsupported("pre-processor keywords %s" % sorted(kw))
            env2 = self.bind(x, "sig", env)
            return "let '(%s, w) := kw_pre %s %s w in\n%s" % (x, lst, xt[0], cont(env2))
        if lty == "posts" and is_apply and xt[1] == "feat" and not kw:
            env2 = self.bind(x, "feat", env)
            return "match fold_post post_apply %s %s with\n| None => %s\n| Some %s => %s\nend" % (
                lst, xt[0], self.mode.on_raise("ELibraryError", env), x, cont(env2))
        if lty == "ptpres" and is_call and xt[1] == "sig" and W == "r" and not kw:
            env2 = self.bind(x, "sig", env)
            return "let '(%s, r) := fold_pre pt_pre_apply %s %s r in\n%s" % (x, lst, xt[0], cont(env2))
        if lty == "ptposts" and is_call and xt[1] == "feat" and not kw:
            env2 = self.bind(x, "feat", env)
            return "match fold_post pt_post_apply %s %s with\n| None => %s\n| Some %s => %s\nend" % (
                lst, xt[0], self.mode.on_raise("ELibraryError", env), x, cont(env2))
        raise Unsupported("for loop over %s threading %s" % (lty, xt[1]))

    def try_read(self, s, env, cont):
        # try: X = read_signal(path, dtype=np.float64, force_as=self.force_as, key=utt_id)
        # except Exception as e: raise IOError(..) from e
        if s.orelse or s.finalbody or len(s.handlers) != 1 or len(s.body) != 1:
            raise Unsupported("try statement shape")
        h = s.handlers[0]
        if dotted(h.type) != "Exception" or len(h.body) != 1 or not isinstance(h.body[0], ast.Raise):
            raise Unsupported("except clause")
        exc = h.body[0].exc
        ename = dotted(exc.func) if isinstance(exc, ast.Call) else None
        if ename not in EXN:
            raise Unsupported("re-raise as %s" % ename)
        b = s.body[0]
        if not (isinstance(b, ast.Assign) and len(b.targets) == 1 and isinstance(b.targets[0], ast.Name)
                and isinstance(b.value, ast.Call) and dotted(b.value.func) == "read_signal"):
            raise Unsupported("try body")
        c = b.value
        kw = {k.arg: k.value for k in c.keywords}
        if len(c.args) != 1 or set(kw) != {"dtype", "force_as", "key"} or dotted(kw["dtype"]) != "np.float64" \
                or dotted(kw["force_as"]) != "self.force_as":
            raise Unsupported("read_signal arguments")
        p, tp = self.expr(c.args[0], env, [])
        k, tk = self.expr(kw["key"], env, [])
        if tp != "str" or tk != "str":
            raise Unsupported("read_signal(%s, key=%s)" % (tp, tk))
        x = b.targets[0].id
        env2 = self.bind(x, "arr", env)
        return "match read_signal %s %s with\n| None => %s\n| Some %s => %s\nend" % (
            p, k, self.mode.on_raise(EXN[ename], env), x, cont(env2))


# ---------------------------------------------------------------------- kaldi tool
class KaldiLoopMode(Mode):
    world = "w"
    CALL = "kaldi_loop options computer preprocessors postprocessors base_is_double items'"

    def __init__(self, carried):
        self.carried = carried

    def on_continue(self, env):
        return "%s %s w" % (self.CALL, " ".join(env[c][0] for c in self.carried))

    def on_raise(self, exn, env):
        return "KRaise %s w" % exn


class SeedMode(Mode):
    world = "w"

    def on_raise(self, exn, env):
        raise Unsupported("seeding cannot raise")


def find_func(tree, name):
    for n in ast.walk(tree):
        if isinstance(n, ast.FunctionDef) and n.name == name:
            return n
    raise Unsupported("function %s not found" % name)


def indent(txt, k=2):
    out, depth = [], 0
    for line in txt.split("\n"):
        line = line.strip()
        if not line:
            continue
        if line.startswith("end") or line.startswith("| "):
            pass
        out.append(" " * k + line)
    return "\n".join(out)


def gen_kaldi(tree):
    fn = find_func(tree, "compute_feats_from_kaldi_tables")
    body = fn.body
    # --- the seeding statement
    seed_ifs = [s for s in body if isinstance(s, ast.If) and "seed" in ast.unparse(s.test)]
    if len(seed_ifs) != 1:
        raise Unsupported("expected exactly one seeding statement in compute_feats_from_kaldi_tables")
    env0 = {"options.seed": ("(k_seed options)", "optZ")}
    tr = Tr(SeedMode())
    if seed_ifs[0].orelse:
        raise Unsupported("seeding statement has an else branch")
    seed_term = tr.stmt(seed_ifs[0], env0, lambda env: "w")
    for n in ast.walk(fn):
        if isinstance(n, ast.Call) and (dotted(n.func) or "").startswith("np.random.") and n not in list(ast.walk(seed_ifs[0])):
            raise Unsupported("another use of numpy's generator in compute_feats_from_kaldi_tables")
    # --- the loop
    loops = [i for i, s in enumerate(body) if isinstance(s, ast.For)]
    if len(loops) != 1:
        raise Unsupported("expected exactly one top-level for loop in compute_feats_from_kaldi_tables")
    li = loops[0]
    loop = body[li]
    if ast.unparse(loop.iter) != "list(wav_reader.items())" or ast.unparse(loop.target) != "(utt_id, (buff, samp_freq, duration))" or loop.orelse:
        raise Unsupported("loop header: for %s in %s" % (ast.unparse(loop.target), ast.unparse(loop.iter)))
    init = body[li - 1]
    if ast.unparse(init) != "num_utts, num_success = (0, 0)":
        raise Unsupported("loop counters initialisation: %s" % ast.unparse(init))
    # the seeding must come before the loop, the wave reader must be opened bsd-style
    if body.index(seed_ifs[0]) > li:
        raise Unsupported("seeding after the loop")
    src = ast.unparse(fn)
    if "kaldi_open(options.wav_rspecifier, 'wm', value_style='bsd')" not in src:
        raise Unsupported("wave table is not opened with value_style='bsd'")
    if "kaldi_open(options.feats_wspecifier, 'bm', mode='w')" not in src:
        raise Unsupported("feature table is not opened as 'bm'")
    env = {
        "options.min_duration": ("(k_min_duration options)", "Q"),
        "options.channel": ("(k_channel options)", "Z"),
        "options.seed": ("(k_seed options)", "optZ"),
        "computer.bank.sampling_rate": ("(comp_rate computer)", "Q"),
        "computer": ("computer", "comp"),
        "preprocessors": ("preprocessors", "pres"),
        "postprocessors": ("postprocessors", "posts"),
        "KaldiDataType.BaseMatrix.is_double": ("base_is_double", "B"),
        "utt_id": ("utt_id", "str"),
        "buff": ("buff", "wave"),
        "samp_freq": ("samp_freq", "Q"),
        "duration": ("duration", "Q"),
        "num_utts": ("num_utts", "Z"),
        "num_success": ("num_success", "Z"),
    }
    mode = KaldiLoopMode(["num_utts", "num_success"])
    tr = Tr(mode)
    loop_term = tr.block(list(loop.body), env, mode.on_continue)
    # --- after the loop: only logging, close() and the exit status
    tail = body[li + 1:]
    ret = None
    for s in tail:
        if tr.skippable(s):
            continue
        if isinstance(s, ast.Expr) and isinstance(s.value, ast.Call) and (dotted(s.value.func) or "").endswith(".close"):
            continue
        if isinstance(s, ast.Return) and s is tail[-1]:
            ret = s
            continue
        raise Unsupported("statement after the loop: %s" % ast.unparse(s)[:60])
    if ret is None:
        raise Unsupported("no exit status after the loop")
    exit_term, ty = Tr(SeedMode()).expr(ret.value, {"num_success": ("num_success", "Z"), "num_utts": ("num_utts", "Z")}, [])
    if ty != "Z":
        raise Unsupported("exit status of type %s" % ty)
    out = []
    out.append("(* compute_feats_from_kaldi_tables, line %d: the seeding statement *)" % seed_ifs[0].lineno)
    out.append("Definition kaldi_seed {L : Lib} (options : KOptions) (w : KWorld L) : KWorld L :=\n%s." % indent(seed_term))
    out.append("")
    out.append("(* compute_feats_from_kaldi_tables, lines %d-%d: the loop over the wave table *)" % (loop.lineno, loop.end_lineno))
    out.append(
        "Fixpoint kaldi_loop {L : Lib} (options : KOptions) (computer : Comp L) (preprocessors : list (Pre L))\n"
        "    (postprocessors : list (Post L)) (base_is_double : bool) (items : list (KItem L))\n"
        "    (num_utts num_success : Z) (w : KWorld L) {struct items} : KOutcome L :=\n"
        "  match items with\n  | [] => KDone num_utts num_success w\n"
        "  | (utt_id, (buff, samp_freq, duration)) :: items' =>\n%s\n  end." % indent(loop_term, 4))
    out.append("")
    out.append("(* compute_feats_from_kaldi_tables, line %d: the exit status *)" % ret.lineno)
    out.append("Definition kaldi_exit (num_utts num_success : Z) : Z :=\n  %s." % exit_term)
    return "\n".join(out)


# ---------------------------------------------------------------------- torch tool
class TorchItemMode(Mode):
    world = "r"

    def on_return(self, tr, value, env):
        if not (isinstance(value, ast.Tuple) and len(value.elts) == 2):
            raise Unsupported("__getitem__ must return a pair")
        hoist = []
        a, ta = tr.expr(value.elts[0], env, hoist)
        b, tb = tr.expr(value.elts[1], env, hoist)
        if ta != "str" or tb != "feat" or hoist:
            raise Unsupported("__getitem__ returns (%s, %s)" % (ta, tb))
        return "TReturn %s %s" % (a, b)

    def on_raise(self, exn, env):
        return "TRaise %s" % exn


def gen_torch_item(tree):
    cls = None
    for n in ast.walk(tree):
        if isinstance(n, ast.ClassDef) and n.name == "_FeatureProcessorDataset":
            cls = n
    if cls is None:
        raise Unsupported("_FeatureProcessorDataset not found")
    fn = find_func(cls, "__getitem__")
    if [a.arg for a in fn.args.args] != ["self", "idx"]:
        raise Unsupported("__getitem__ signature")
    # the constructor must store its arguments unchanged
    init = ast.unparse(find_func(cls, "__init__"))
    for line in (
        "self.utt_path = tuple(utt2path.items())", "self.seed_offsets = seed_offsets",
        "self.preprocessors = preprocessors", "self.computer = computer", "self.postprocessors = postprocessors",
        "self.channel = channel", "self.force_as = force_as", "self.seed = seed",
    ):
        if line not in init:
            raise Unsupported("_FeatureProcessorDataset.__init__ no longer has: %s" % line)
    env = {
        "self.seed": ("(td_seed self)", "Z"),
        "self.seed_offsets": ("(td_seed_offsets self)", "list:Z"),
        "self.utt_path": ("(td_utt_path self)", "list:(str*str)"),
        "self.channel": ("(td_channel self)", "Z"),
        "self.preprocessors": ("(td_preprocessors self)", "ptpres"),
        "self.postprocessors": ("(td_postprocessors self)", "ptposts"),
        "self.computer": ("(td_computer self)", "optptcomp"),
        "idx": ("idx", "Z"),
    }
    mode = TorchItemMode()
    tr = Tr(mode)

    def off_end(env):
        raise Unsupported("__getitem__ can fall off its end")

    term = tr.block(list(fn.body), env, off_end)
    out = []
    out.append("(* _FeatureProcessorDataset.__getitem__, lines %d-%d *)" % (fn.lineno, fn.end_lineno))
    out.append(
        "Definition torch_item {L : Lib} (read_signal : string -> string -> option (Arr (Sig L)))\n"
        "    (sig_len : Sig L -> Z) (self : TDataset L) (idx : Z) (r : Rng L) : TItem L :=\n%s." % indent(term))
    return "\n".join(out)


class MapLoopMode(Mode):
    world = None

    def on_continue(self, env):
        return "torch_map_loop lines' (line_no + 1) %s" % env["utt2path"][0]

    def on_return(self, tr, value, env):
        if isinstance(value, ast.Constant) and isinstance(value.value, int) and not isinstance(value.value, bool):
            return "MapExit %s" % zlit(value.value)
        raise Unsupported("return inside the map loop: %s" % ast.unparse(value)[:40])

    def on_raise(self, exn, env):
        return "MapRaise %s" % exn


class PureMode(Mode):
    world = None

    def on_raise(self, exn, env):
        raise Unsupported("cannot raise here")


PINNED = [
    # statements of signals_to_torch_feat_dir that coq/C09/Tools.v models by hand
    "utt2idx = dict(((utt_id, idx) for idx, utt_id in enumerate(utt2path)))",
    "dataset = _FeatureProcessorDataset(utt2path, preprocessors, computer, postprocessors, options.channel, options.force_as, seed, tuple((utt2idx[utt_id] for utt_id in utt2path)))",
    "loader = torch.utils.data.DataLoader(dataset, num_workers=options.num_workers)",
    "utt_id, feat = (utt_ids[0], feats[0])",
    "torch.save(feat, os.path.join(options.dir, options.file_prefix + utt_id + options.file_suffix))",
    "print(utt_id, file=options.manifest, flush=True)",
    "computer = PyTorchSTFTFrameComputer.from_stft_frame_computer(computer)",
    "computer = PyTorchSIFrameComputer.from_si_frame_computer(computer)",
    "preprocessors[i] = PyTorchDither.from_dither(preprocessor)",
    "preprocessors[i] = PyTorchPreemphasize.from_preemphasize(preprocessor)",
    "postprocessors = [PyTorchPostProcessorWrapper.from_postprocessor(p) for p in postprocessors]",
    "return 0",
]


def gen_torch_main(tree):
    fn = find_func(tree, "signals_to_torch_feat_dir")
    body = fn.body
    out = []
    # --- the map file loop
    loops = [i for i, s in enumerate(body) if isinstance(s, ast.For) and ast.unparse(s.iter) == "enumerate(options.map)"]
    if len(loops) != 1:
        raise Unsupported("expected one loop over enumerate(options.map)")
    li = loops[0]
    loop = body[li]
    if ast.unparse(loop.target) != "(line_no, line)" or loop.orelse or ast.unparse(body[li - 1]) != "utt2path = dict()":
        raise Unsupported("map loop header")
    env = {"line_no": ("line_no", "Z"), "line": ("line", "str"), "utt2path": ("utt2path", "dict")}
    mode = MapLoopMode()
    tr = Tr(mode)
    term = tr.block(list(loop.body), env, mode.on_continue)
    out.append("(* signals_to_torch_feat_dir, lines %d-%d: reading the map file *)" % (loop.lineno, loop.end_lineno))
    out.append("Fixpoint torch_map_loop (lines : list string) (line_no : Z) (utt2path : list (string * string))\n"
               "    {struct lines} : MapResult :=\n  match lines with\n  | [] => MapOk utt2path\n  | line :: lines' =>\n%s\n  end." % indent(term, 4))
    out.append("")
    # --- the manifest
    mans = [s for s in body if isinstance(s, ast.If) and ast.unparse(s.test) == "options.manifest is not None"
            and any(isinstance(x, ast.For) for x in s.body)]
    if len(mans) != 1 or mans[0].orelse:
        raise Unsupported("manifest filtering statement")
    mb = mans[0].body
    if len(mb) != 2 or ast.unparse(mb[0]) != "options.manifest.seek(0)" or not isinstance(mb[1], ast.For):
        raise Unsupported("manifest filtering body")
    f = mb[1]
    if ast.unparse(f.target) != "line" or ast.unparse(f.iter) != "options.manifest" or len(f.body) != 1 or f.orelse:
        raise Unsupported("manifest loop")
    c = f.body[0]
    if not (isinstance(c, ast.Expr) and isinstance(c.value, ast.Call) and dotted(c.value.func) == "utt2path.pop"
            and len(c.value.args) == 2 and isinstance(c.value.args[1], ast.Constant) and c.value.args[1].value is None):
        raise Unsupported("manifest loop body")
    key, tk = Tr(PureMode()).expr(c.value.args[0], {"line": ("line", "str")}, [])
    if tk != "str":
        raise Unsupported("manifest key of type %s" % tk)
    if body.index(mans[0]) < li:
        raise Unsupported("manifest filtered before the map is read")
    out.append("(* signals_to_torch_feat_dir, line %d: the id a manifest line stands for *)" % c.lineno)
    out.append("Definition torch_manifest_key (line : string) : string :=\n  %s." % key)
    out.append("")
    # --- the seed
    seeds = [s for s in body if isinstance(s, ast.If) and "options.seed" in ast.unparse(s.test)
             and any(isinstance(x, ast.Assign) and ast.unparse(x.targets[0]) == "seed" for x in ast.walk(s))]
    if len(seeds) != 1:
        raise Unsupported("seed choice statement")
    class Fresh(ast.NodeTransformer):
        def visit_Call(self, node):
            if ast.unparse(node) == "np.random.randint(np.iinfo(np.int32).max)":
                return ast.copy_location(ast.Name(id="fresh__", ctx=ast.Load()), node)
            return self.generic_visit(node)
    st = Fresh().visit(seeds[0])
    tr = Tr(PureMode())
    env = {"options.seed": ("options_seed", "optZ"), "fresh__": ("fresh", "Z")}
    e2 = tr.pure_eval([st], env) if tr.is_pure([st]) else None
    if e2 is None or "seed" not in e2 or e2["seed"][1] != "Z":
        raise Unsupported("seed choice is not a pure assignment of an int")
    out.append("(* signals_to_torch_feat_dir, lines %d-%d: fresh = np.random.randint(2^31 - 1) *)" % (seeds[0].lineno, seeds[0].end_lineno))
    out.append("Definition torch_seed_choice (options_seed : option Z) (fresh : Z) : Z :=\n  %s." % e2["seed"][0])
    # --- what the hand-written entry point relies on
    src = [ast.unparse(x) for x in ast.walk(fn) if isinstance(x, ast.stmt)]
    for pin in PINNED:
        if pin not in src:
            raise Unsupported("signals_to_torch_feat_dir no longer contains: %s" % pin)
    return "\n".join(out)


# ---------------------------------------------------------------------- STFT framing plans
class PlanMode(Mode):
    world = None

    def on_return(self, tr, value, env):
        # the early return of an empty matrix
        src = ast.unparse(value)
        if src.startswith("np.empty((0,") or src.startswith("sig.new_empty((0,"):
            return "None"
        raise Unsupported("unexpected return %s" % src[:50])

    def on_raise(self, exn, env):
        raise Unsupported("raise inside the framing arithmetic")


def plan_of(stmts, env, what):
    """stmts: from the too-short gate up to (excluding) `if pad_left or pad_right`"""
    idx = None
    for i, s in enumerate(stmts):
        if isinstance(s, ast.If) and ast.unparse(s.test) == "pad_left or pad_right":
            idx = i
            break
    if idx is None:
        raise Unsupported("%s: no 'if pad_left or pad_right' statement" % what)
    start = None
    for i, s in enumerate(stmts[:idx]):
        if isinstance(s, ast.If) and len(s.body) == 1 and isinstance(s.body[0], ast.Return) and not s.orelse \
                and ("empty((0," in ast.unparse(s.body[0])):
            if start is None:  # the first early return of an empty matrix: the too-short gate
                start = i
    if start is None:
        raise Unsupported("%s: too-short gate not found" % what)
    tr = Tr(PlanMode())
    region = list(stmts[start:idx])

    def done(env2):
        for n in ("num_frames", "pad_left", "pad_right"):
            if n not in env2 or env2[n][1] != "Z":
                raise Unsupported("%s: %s is not computed" % (what, n))
        return "Some (num_frames, pad_left, pad_right)"

    return tr.block(region, env, done), stmts[start].lineno, stmts[idx].lineno


def gen_plans(tree_compute, tree_torch):
    out = []
    cls = None
    for n in ast.walk(tree_compute):
        if isinstance(n, ast.ClassDef) and n.name == "ShortTimeFourierTransformFrameComputer":
            cls = n
    if cls is None:
        raise Unsupported("ShortTimeFourierTransformFrameComputer not found")
    fn = find_func(cls, "compute_full")
    pre = []
    stmts = list(fn.body)
    env = {
        "signal": ("sig_len", "siglen"),
        "self._frame_length": ("frame_length", "Z"),
        "self._frame_shift": ("frame_shift", "Z"),
        "self._kaldi_shift": ("kaldi_shift", "B"),
    }
    # local aliases frame_length = self._frame_length ...
    for s in stmts:
        if isinstance(s, ast.Assign) and isinstance(s.targets[0], ast.Name) and dotted(s.value) in env:
            env[s.targets[0].id] = env[dotted(s.value)]
    # self._frame_style == "causal" is the only use of the style
    class Style(ast.NodeTransformer):
        def visit_Compare(self, node):
            if ast.unparse(node) == "self._frame_style == 'causal'":
                return ast.copy_location(ast.Name(id="causal__", ctx=ast.Load()), node)
            return node
    stmts = [Style().visit(s) for s in stmts]
    env["causal__"] = ("causal", "B")
    term, l0, l1 = plan_of(stmts, env, "compute.py compute_full")
    out.append("(* compute.py, ShortTimeFourierTransformFrameComputer.compute_full, lines %d-%d *)" % (l0, l1 - 1))
    out.append("Definition np_stft_plan (frame_length frame_shift : Z) (causal kaldi_shift : bool) (sig_len : Z)\n"
               "  : option (Z * Z * Z) :=\n%s." % indent(term))
    out.append("")
    fn = find_func(tree_torch, "pytorch_stft_frame_computer")
    env = {
        "frame_length": ("frame_length", "Z"),
        "frame_shift": ("frame_shift", "Z"),
        "centered": ("centered", "B"),
        "kaldi_shift": ("kaldi_shift", "B"),
        "sig": ("sig_len", "siglen"),
        "sig_len": ("sig_len", "Z"),
    }
    stmts = []
    for s in fn.body:
        # zero = sig.new_zeros(1) is a tensor constant, not part of the arithmetic
        if isinstance(s, ast.Assign) and ast.unparse(s) == "zero = sig.new_zeros(1)":
            continue
        stmts.append(s)
    # sig_len = sig.size(0)
    term, l0, l1 = plan_of(stmts, env, "torch.py pytorch_stft_frame_computer")
    # the statement just before the gate must define sig_len from the signal
    src = ast.unparse(fn)
    if "sig_len = sig.size(0)" not in src:
        raise Unsupported("torch.py: sig_len is not sig.size(0)")
    out.append("(* torch.py, pytorch_stft_frame_computer, lines %d-%d *)" % (l0, l1 - 1))
    out.append("Definition pt_stft_plan (frame_length frame_shift : Z) (centered kaldi_shift : bool) (sig_len : Z)\n"
               "  : option (Z * Z * Z) :=\n%s." % indent(term))
    return "\n".join(out)


HEADER = """(* GENERATED by /verif/gen/cmdline.py from src/pydrobert/speech/{command_line,compute,torch}.py - do not edit *)
From Coq Require Import ZArith QArith List Bool String.
From Verif Require Import C09.Model.
Import ListNotations.
Open Scope Z_scope.
"""


def translate(src_dir):
    trees = {}
    for f in ("command_line.py", "compute.py", "torch.py"):
        trees[f] = ast.parse(open(os.path.join(src_dir, f)).read())
    parts = [HEADER, gen_kaldi(trees["command_line.py"]), "", gen_torch_item(trees["command_line.py"]), "",
             gen_torch_main(trees["command_line.py"]), "",
             gen_plans(trees["compute.py"], trees["torch.py"]), ""]
    return "\n".join(parts)


def main(src_dir, out_path):
    txt = translate(src_dir)
    old = open(out_path).read() if os.path.exists(out_path) else None
    if old != txt:
        os.makedirs(os.path.dirname(out_path), exist_ok=True)
        with open(out_path, "w") as fo:
            fo.write(txt)
    return txt


if __name__ == "__main__":
    print(main(sys.argv[1], sys.argv[2]))
