"""Translate the index arithmetic of get_frequency_response / get_truncated_response
of the four banks in pydrobert/speech/filters.py into coq/gen/C06Index.v.

What is translated (per class and method, fail closed): the assignments to
``left_idx`` / ``right_idx`` / ``left_period`` / ``right_period``, the statements
computing ``dft_size``, the bounds of ``for idx in range(..)`` / ``for period in
range(..)`` / ``np.arange(..)``, the sizes passed to ``np.zeros``, the condition
guarding the mirrored write ``res[-idx] = ..``, the whole-period tests and the
first component of the returned tuples.  Value computations (exp, sqrt, the
triangle) are not translated here.

Typing: ``width``, ``*_idx``, ``dft_size``, ``*_period`` are Z; frequencies, the
rate and angles are Q.  Angles are expressed in turns: ``lowest_ang`` is
``lo_t * (2 * pi_)`` for a positive rational parameter ``pi_`` standing for pi, so
that ``lowest_ang / (2 * np.pi)`` is a rational expression; coq/C06/GenTie.v proves
the generated definitions equal the hand-written ones of C06/Model.v for every
positive ``pi_``.  A statement of an expected kind that is missing, duplicated or
uses an unsupported construct raises ``Unsupported`` (the check then reports the
tie as broken).
"""

import ast
import os
import sys

sys.path.insert(0, os.path.dirname(os.path.abspath(__file__)))
from pyexpr import Unsupported  # noqa: E402

Z, Q, B = "Z", "Q", "bool"


class E:
    """Typed expression translator (Z / Q / bool)."""

    def __init__(self, env):
        self.env = dict(env)  # python name or 'self.x' -> (coq term, type)

    def toQ(self, tv):
        t, ty = tv
        if ty == Q:
            return t
        if ty == Z:
            return "(inject_Z %s)" % t
        raise Unsupported("boolean used as a number")

    def num(self, e):
        if isinstance(e, ast.Constant) and isinstance(e.value, int) and not isinstance(e.value, bool):
            return ("(%d)" % e.value if e.value < 0 else "%d" % e.value, Z)
        if isinstance(e, ast.Name):
            if e.id in self.env:
                return self.env[e.id]
            raise Unsupported("free name %s" % e.id)
        if isinstance(e, ast.Attribute):
            if isinstance(e.value, ast.Name) and e.value.id == "self" and ("self." + e.attr) in self.env:
                return self.env["self." + e.attr]
            if isinstance(e.value, ast.Name) and e.value.id == "np" and e.attr == "pi":
                return ("pi_", Q)
            raise Unsupported("attribute %s" % ast.dump(e))
        if isinstance(e, ast.Subscript):
            # self._x[filt_idx] -> per-filter constant
            v = e.value
            if (isinstance(v, ast.Attribute) and isinstance(v.value, ast.Name) and v.value.id == "self"
                    and isinstance(e.slice, ast.Name) and e.slice.id == "filt_idx" and ("self." + v.attr + "[]") in self.env):
                return self.env["self." + v.attr + "[]"]
            raise Unsupported("subscript %s" % ast.dump(e)[:80])
        if isinstance(e, ast.UnaryOp) and isinstance(e.op, ast.USub):
            t, ty = self.num(e.operand)
            return ("(- %s)" % t, ty)
        if isinstance(e, ast.BinOp):
            a, b = self.num(e.left), self.num(e.right)
            op = e.op
            if isinstance(op, (ast.Add, ast.Sub, ast.Mult)):
                sym = {ast.Add: "+", ast.Sub: "-", ast.Mult: "*"}[type(op)]
                if a[1] == Z and b[1] == Z:
                    return ("(%s %s %s)%%Z" % (a[0], sym, b[0]), Z)
                return ("(%s %s %s)%%Q" % (self.toQ(a), sym, self.toQ(b)), Q)
            if isinstance(op, ast.Div):
                return ("(%s / %s)%%Q" % (self.toQ(a), self.toQ(b)), Q)
            if isinstance(op, ast.FloorDiv):
                if a[1] == Z and b[1] == Z:
                    return ("(%s / %s)%%Z" % (a[0], b[0]), Z)
                raise Unsupported("floor division of non-integers")
            if isinstance(op, ast.Mod):
                if a[1] == Z and b[1] == Z:
                    return ("(%s mod %s)%%Z" % (a[0], b[0]), Z)
                raise Unsupported("modulo of non-integers")
            raise Unsupported("operator %s" % ast.dump(op))
        if isinstance(e, ast.Call):
            f = e.func
            if e.keywords:
                raise Unsupported("keyword arguments")
            name = None
            if isinstance(f, ast.Name):
                name = f.id
            elif isinstance(f, ast.Attribute) and isinstance(f.value, ast.Name) and f.value.id in ("np", "math"):
                name = f.value.id + "." + f.attr
            args = [self.num(a) for a in e.args]
            if name == "int" and len(args) == 1:
                if args[0][1] == Z:
                    return args[0]
                return ("(py_int %s)" % args[0][0], Z)
            if name == "np.ceil" and len(args) == 1:
                return ("(inject_Z (Qceiling %s))" % self.toQ(args[0]), Q)
            if name == "math.ceil" and len(args) == 1:
                return ("(Qceiling %s)" % self.toQ(args[0]), Z)
            if name == "math.floor" and len(args) == 1:
                return ("(Qfloor %s)" % self.toQ(args[0]), Z)
            if name == "np.floor" and len(args) == 1:
                return ("(inject_Z (Qfloor %s))" % self.toQ(args[0]), Q)
            if name in ("min", "max") and len(args) == 2:
                if args[0][1] == Z and args[1][1] == Z:
                    return ("(Z.%s %s %s)" % (name, args[0][0], args[1][0]), Z)
                return ("(Q%s %s %s)" % (name, self.toQ(args[0]), self.toQ(args[1])), Q)
            raise Unsupported("call %s" % ast.dump(f))
        raise Unsupported("expression %s" % ast.dump(e)[:80])

    def cond(self, c):
        """Python truthiness of c as a Coq bool."""
        if isinstance(c, ast.Name) and c.id in self.env and self.env[c.id][1] == B:
            return self.env[c.id][0]
        if isinstance(c, ast.Attribute) and isinstance(c.value, ast.Name) and c.value.id == "self" and ("self." + c.attr) in self.env \
                and self.env["self." + c.attr][1] == B:
            return self.env["self." + c.attr][0]
        if isinstance(c, ast.UnaryOp) and isinstance(c.op, ast.Not):
            return "(negb %s)" % self.cond(c.operand)
        if isinstance(c, ast.BoolOp):
            op = "&&" if isinstance(c.op, ast.And) else "||"
            return "(" + (" %s " % op).join(self.cond(v) for v in c.values) + ")"
        if isinstance(c, ast.Compare) and len(c.ops) == 1:
            a, b = self.num(c.left), self.num(c.comparators[0])
            op = c.ops[0]
            if a[1] == Z and b[1] == Z:
                sym = {ast.Lt: "<?", ast.LtE: "<=?", ast.Eq: "=?"}.get(type(op))
                if sym:
                    return "(%s %s %s)%%Z" % (a[0], sym, b[0])
                if isinstance(op, ast.Gt):
                    return "(%s <? %s)%%Z" % (b[0], a[0])
                if isinstance(op, ast.GtE):
                    return "(%s <=? %s)%%Z" % (b[0], a[0])
            else:
                if isinstance(op, ast.LtE):
                    return "(Qle_bool %s %s)" % (self.toQ(a), self.toQ(b))
                if isinstance(op, ast.GtE):
                    return "(Qle_bool %s %s)" % (self.toQ(b), self.toQ(a))
            raise Unsupported("comparison %s" % ast.dump(op))
        # an integer used as a condition: true iff non-zero
        t, ty = self.num(c)
        if ty == Z:
            return "(negb (%s =? 0)%%Z)" % t
        raise Unsupported("condition %s" % ast.dump(c)[:80])


# ---------------------------------------------------------------------------


def walk(stmts):
    for s in stmts:
        yield s
        for f in ("body", "orelse"):
            sub = getattr(s, f, None)
            if isinstance(sub, list) and not isinstance(s, (ast.FunctionDef, ast.ClassDef)):
                yield from walk(sub)


def assigns(body, name):
    return [s for s in walk(body) if isinstance(s, ast.Assign) and len(s.targets) == 1
            and isinstance(s.targets[0], ast.Name) and s.targets[0].id == name]


def one(xs, what):
    if len(xs) != 1:
        raise Unsupported("expected exactly one %s, found %d" % (what, len(xs)))
    return xs[0]


def call_named(e, names):
    if not isinstance(e, ast.Call):
        return False
    f = e.func
    if isinstance(f, ast.Name):
        return f.id in names
    if isinstance(f, ast.Attribute) and isinstance(f.value, ast.Name):
        return (f.value.id + "." + f.attr) in names
    return False


def range_bounds(tr, call):
    """range(a, b) / range(b) / np.arange(a, b, dtype=..) / np.arange(b, dtype=..) -> (lo, hi) as Z terms."""
    args = list(call.args)
    for kw in call.keywords:
        if kw.arg != "dtype":
            raise Unsupported("keyword %s in range" % kw.arg)
    if len(args) == 1:
        lo, hi = ("0", Z), tr.num(args[0])
    elif len(args) == 2:
        lo, hi = tr.num(args[0]), tr.num(args[1])
    else:
        raise Unsupported("range with a step")
    if lo[1] != Z or hi[1] != Z:
        raise Unsupported("non-integer range bound")
    return "(%s, %s)" % (lo[0], hi[0])


def dft_size_term(tr, body):
    """The statements that compute dft_size, as one expression."""
    def touches(s):
        return any(isinstance(x, ast.Assign) and isinstance(x.targets[0], ast.Name) and x.targets[0].id == "dft_size" for x in walk([s]))

    def block(stmts, cur):
        for s in stmts:
            if isinstance(s, ast.Assign) and len(s.targets) == 1 and isinstance(s.targets[0], ast.Name) and s.targets[0].id == "dft_size":
                t, ty = tr.num(s.value)
                if ty != Z:
                    raise Unsupported("dft_size is not an integer")
                cur = t
            elif isinstance(s, ast.If) and touches(s):
                c = tr.cond(s.test)
                a = block(s.body, cur)
                b = block(s.orelse, cur)
                if a is None or b is None:
                    raise Unsupported("dft_size undefined on a branch")
                cur = "(if %s then %s else %s)" % (c, a, b)
            elif touches(s):
                raise Unsupported("dft_size assigned inside %s" % type(s).__name__)
        return cur

    t = block(body, None)
    if t is None:
        raise Unsupported("dft_size never assigned")
    return t


def loops(body, var):
    return [s for s in walk(body) if isinstance(s, ast.For) and isinstance(s.target, ast.Name) and s.target.id == var]


def zeros_size(tr, body):
    zs = [s for s in assigns(body, "res") if call_named(s.value, {"np.zeros"})]
    z = one(zs, "res = np.zeros(..)")
    t, ty = tr.num(z.value.args[0])
    if ty != Z:
        raise Unsupported("np.zeros size is not an integer")
    return t


def return_starts(tr, body):
    """First components of the returned tuples, in source order."""
    out = []
    for s in walk(body):
        if isinstance(s, ast.Return):
            if not (isinstance(s.value, ast.Tuple) and len(s.value.elts) == 2):
                raise Unsupported("return of something else than a pair")
            t, ty = tr.num(s.value.elts[0])
            if ty != Z:
                raise Unsupported("start index is not an integer")
            out.append((t, s))
    return out


CLASSES = {
    "TriangularOverlappingFilterBank": "tri",
    "Fbank": "fbank",
    "GaborFilterBank": "gabor",
    "ComplexGammatoneFilterBank": "gt",
}


def translate(src):
    tree = ast.parse(src)
    out = [
        "(* GENERATED by /verif/gen/filters_c06.py from src/pydrobert/speech/filters.py - do not edit *)",
        "From Coq Require Import ZArith QArith Qround Qminmax Bool.",
        "From Verif Require Import C06.Model.",
        "",
        "Module Ix.",
        "",
    ]
    found = set()
    for node in tree.body:
        if not (isinstance(node, ast.ClassDef) and node.name in CLASSES):
            continue
        p = CLASSES[node.name]
        found.add(p)
        meths = {m.name: m for m in node.body if isinstance(m, ast.FunctionDef)}
        for mname in ("get_frequency_response", "get_truncated_response"):
            if mname not in meths:
                raise Unsupported("%s lacks %s" % (node.name, mname))
        full, trunc = meths["get_frequency_response"].body, meths["get_truncated_response"].body
        fa = [a.arg for a in meths["get_frequency_response"].args.args]
        ta = [a.arg for a in meths["get_truncated_response"].args.args]
        if fa != ["self", "filt_idx", "width", "half"] or ta != ["self", "filt_idx", "width"]:
            raise Unsupported("signature of %s methods" % node.name)

        def d(name, binders, ty, term):
            out.append("Definition %s_%s %s : %s :=\n  %s." % (p, name, binders, ty, term))

        idx_env = {"width": ("width", Z), "left_idx": ("left_idx", Z), "right_idx": ("right_idx", Z),
                   "dft_size": ("dft_size", Z), "half": ("half", B), "self._analytic": ("analytic", B),
                   "left_period": ("left_period", Z), "right_period": ("right_period", Z)}
        if p in ("tri", "fbank"):
            ln, rn = ("left", "right") if p == "tri" else ("left_hz", "right_hz")
            fenv = dict(idx_env)
            fenv.update({ln: ("left", Q), rn: ("right", Q), "self._rate": ("rate", Q)})
            for tag, body in (("full", full), ("trunc", trunc)):
                tr = E(fenv)
                li = one(assigns(body, "left_idx"), "left_idx assignment")
                ri = one(assigns(body, "right_idx"), "right_idx assignment")
                t, ty = tr.num(li.value)
                d(tag + "_left_idx", "(width : Z) (left rate : Q)", "Z", t)
                t, ty = tr.num(ri.value)
                d(tag + "_right_idx", "(width : Z) (right rate : Q)", "Z", t)
                lp = one(loops(body, "idx"), "loop over idx")
                if not call_named(lp.iter, {"range"}):
                    raise Unsupported("idx loop is not over range()")
                if tag == "full":
                    d("full_dft_size", "(width : Z) (half : bool)", "Z", dft_size_term(tr, body))
                    d("full_zeros", "(dft_size : Z)", "Z", zeros_size(tr, body))
                    d("full_range", "(left_idx right_idx dft_size : Z)", "(Z * Z)", range_bounds(tr, lp.iter))
                    # the mirrored write res[-idx] = ..
                    mir = [s for s in walk(lp.body) if isinstance(s, ast.If) and any(
                        isinstance(x, ast.Assign) and isinstance(x.targets[0], ast.Subscript)
                        and isinstance(x.targets[0].slice, ast.UnaryOp) and isinstance(x.targets[0].slice.op, ast.USub)
                        and isinstance(x.targets[0].slice.operand, ast.Name) and x.targets[0].slice.operand.id == "idx"
                        for x in s.body)]
                    m = one(mir, "guarded mirrored write res[-idx]")
                    d("full_mirror", "(half analytic : bool)", "bool", tr.cond(m.test))
                    direct = [x for x in lp.body if isinstance(x, ast.Assign) and isinstance(x.targets[0], ast.Subscript)
                              and isinstance(x.targets[0].slice, ast.Name) and x.targets[0].slice.id == "idx"]
                    one(direct, "direct write res[idx]")
                else:
                    d("trunc_zeros", "(width left_idx right_idx : Z)", "Z", zeros_size(tr, body))
                    d("trunc_range", "(width left_idx right_idx : Z)", "(Z * Z)", range_bounds(tr, lp.iter))
                    writes = [x for x in walk(lp.body) if isinstance(x, ast.Assign) and isinstance(x.targets[0], ast.Subscript)]
                    tr2 = E(dict(fenv, idx=("idx", Z)))
                    offs = {tr2.num(x.targets[0].slice)[0] for x in writes}
                    if len(offs) != 1:
                        raise Unsupported("truncated response written at several offsets")
                    d("trunc_offset", "(idx left_idx : Z)", "Z", offs.pop())
                    rs = return_starts(tr, body)
                    t, _ = one(rs, "return")
                    d("trunc_start", "(width left_idx : Z)", "Z", t)
        else:
            # support edges in turns
            if p == "gabor":
                names = ("lowest_ang", "highest_ang")
            else:
                names = ("left_sup", "right_sup")
            cenv = dict(idx_env)
            cenv.update({names[0]: ("(lo_t * (2 * pi_))%Q", Q), names[1]: ("(hi_t * (2 * pi_))%Q", Q),
                         "self._wrap_supports_ang[]": ("wrap", Q), "wrap_ang": ("wrap", Q)})
            trf, trt = E(cenv), E(cenv)
            d("full_dft_size", "(width : Z) (half : bool)", "Z", dft_size_term(trf, full))
            if p == "gabor":
                d("full_zeros", "(dft_size : Z)", "Z", zeros_size(trf, full))
                lp = one(loops(full, "idx"), "loop over idx")
                d("full_bins", "(dft_size : Z)", "(Z * Z)", range_bounds(trf, lp.iter))
                pp = one(loops(full, "period"), "loop over period")
                d("full_periods", "(lo_t hi_t pi_ : Q)", "(Z * Z)", range_bounds(trf, pp.iter))
            else:
                lpd = one(assigns(full, "left_period"), "left_period")
                rpd = one(assigns(full, "right_period"), "right_period")
                d("full_left_period", "(lo_t pi_ : Q)", "Z", trf.num(lpd.value)[0])
                d("full_right_period", "(hi_t pi_ : Q)", "Z", trf.num(rpd.value)[0])
                pp = one(loops(full, "period"), "loop over period")
                d("full_periods", "(left_period right_period : Z)", "(Z * Z)", range_bounds(trf, pp.iter))
                def leftmost(e):
                    while isinstance(e, ast.BinOp):
                        e = e.left
                    return e

                om = [s for s in assigns(full, "omega") if call_named(leftmost(s.value), {"np.arange"})]
                o = one(om, "omega = np.arange(..)")
                call = leftmost(o.value)
                d("full_bins", "(dft_size : Z)", "(Z * Z)", range_bounds(trf, call))
            # truncated response
            li = one(assigns(trunc, "left_idx"), "left_idx assignment")
            ri = one(assigns(trunc, "right_idx"), "right_idx assignment")
            d("trunc_left_idx", "(width : Z) (lo_t pi_ : Q)", "Z", trt.num(li.value)[0])
            d("trunc_right_idx", "(width : Z) (hi_t pi_ : Q)", "Z", trt.num(ri.value)[0])
            if p == "gabor":
                d("trunc_zeros", "(left_idx right_idx : Z)", "Z", zeros_size(trt, trunc))
                lp = one(loops(trunc, "idx"), "loop over idx")
                d("trunc_bins", "(left_idx right_idx : Z)", "(Z * Z)", range_bounds(trt, lp.iter))
                pp = one(loops(trunc, "period"), "loop over period")
                d("trunc_periods", "(lo_t hi_t pi_ : Q)", "(Z * Z)", range_bounds(trt, pp.iter))
            else:
                om = [s for s in assigns(trunc, "omega") if call_named(s.value, {"np.arange"})]
                o = one(om, "omega = np.arange(..)")
                d("trunc_bins", "(left_idx right_idx : Z)", "(Z * Z)", range_bounds(trt, o.value))
            # whole-period test and the two returns
            ifs = [s for s in trunc if isinstance(s, ast.If)]
            ifs = [s for s in ifs if any(isinstance(x, ast.Return) for x in s.body)]
            w = one(ifs, "whole-period test")
            d("whole_period", "(lo_t hi_t wrap pi_ : Q)", "bool", trt.cond(w.test))
            rs = return_starts(trt, trunc)
            if len(rs) != 2 or rs[0][1] not in w.body:
                raise Unsupported("expected the whole-period return followed by the normal return")
            call = rs[0][1].value.elts[1]
            if not (isinstance(call, ast.Call) and isinstance(call.func, ast.Attribute) and call.func.attr == "get_frequency_response"
                    and [getattr(a, "id", None) for a in call.args] == ["filt_idx", "width"] and not call.keywords):
                raise Unsupported("whole-period branch does not return the full response")
            d("trunc_whole_start", "", "Z", rs[0][0])
            d("trunc_start", "(width left_idx : Z)", "Z", rs[1][0])
        out.append("")
    missing = set(CLASSES.values()) - found
    if missing:
        raise Unsupported("missing classes %s" % sorted(missing))
    out.append("End Ix.")
    return "\n".join(out) + "\n"


def main(src_path, out_path):
    text = translate(open(src_path).read())
    if not os.path.exists(out_path) or open(out_path).read() != text:
        os.makedirs(os.path.dirname(out_path), exist_ok=True)
        open(out_path, "w").write(text)
    return text


if __name__ == "__main__":
    print(main(sys.argv[1], sys.argv[2]))
