"""Translate the integer bookkeeping of Deltas / Stack (pydrobert/speech/post.py)
into coq/gen/PostC15.v (definitions over Z), fail closed.

What is regenerated from the source on every run: the length and shift of the
base delta filter, the axis normalisation, the padding widths and crop bounds
of the per-slice correlation, Stack's constructor guard, remainder, padding
widths, frame counts and strided-slice arguments.  The statements *around*
those expressions (which NumPy primitive is called on what) are compared with
the expected statement text; any difference raises ``Unsupported`` and the
check reports the tie as broken.

coq/C15/Model.v is written in terms of the generated ``g_*`` functions and
coq/C15/ProofsGen.v proves what the theorems need about them, so an edit of
one of these expressions is re-proved (or refuted) for all inputs.
"""

import ast
import os
import sys

sys.path.insert(0, os.path.dirname(os.path.abspath(__file__)))
from pyexpr import Unsupported  # noqa: E402


def dump(node):
    return ast.dump(node, annotate_fields=False)


def parse_stmt(src):
    return ast.parse(src).body[0]


def parse_expr(src):
    return ast.parse(src, mode="eval").body


class ZTr:
    """Integer expressions -> Coq terms over Z (Python // and % are floor
    division / modulo with the sign of the divisor, as Z.div / Z.modulo)."""

    def __init__(self, env):
        self.env = dict(env)  # source text of a sub-expression -> Coq identifier

    def key(self, e):
        return ast.unparse(e)

    def expr(self, e):
        k = self.key(e)
        if k in self.env:
            return self.env[k]
        if isinstance(e, ast.Constant) and isinstance(e.value, int) and not isinstance(e.value, bool):
            return "(%d)" % e.value if e.value < 0 else "%d" % e.value
        if isinstance(e, ast.UnaryOp) and isinstance(e.op, ast.USub):
            return "(- %s)" % self.expr(e.operand)
        if isinstance(e, ast.BinOp):
            ops = {ast.Add: "+", ast.Sub: "-", ast.Mult: "*", ast.FloorDiv: "/", ast.Mod: "mod"}
            sym = ops.get(type(e.op))
            if sym is None:
                raise Unsupported("operator in %s" % k)
            return "(%s %s %s)" % (self.expr(e.left), sym, self.expr(e.right))
        raise Unsupported("integer expression %s" % k)

    def cond(self, c):
        if isinstance(c, ast.Compare) and len(c.ops) == 1:
            sym = {ast.Lt: "<?", ast.LtE: "<=?", ast.Gt: ">?", ast.GtE: ">=?", ast.Eq: "=?"}.get(type(c.ops[0]))
            if sym is None:
                raise Unsupported("comparison %s" % self.key(c))
            return "(%s %s %s)" % (self.expr(c.left), sym, self.expr(c.comparators[0]))
        raise Unsupported("condition %s" % self.key(c))


def ordered(node):
    """All nodes below ``node`` in source order."""
    out = []

    def go(n):
        out.append(n)
        for c in ast.iter_child_nodes(n):
            go(c)

    go(node)
    return out


def method(cls, name):
    for item in cls.body:
        if isinstance(item, ast.FunctionDef) and item.name == name:
            return item
    raise Unsupported("method %s.%s not found" % (cls.name, name))


def where(node):
    return getattr(node, "name", None) or "the %s at line %s" % (type(node).__name__, getattr(node, "lineno", "?"))


def expect_stmt(fn, src, what):
    want = dump(parse_stmt(src))
    for n in ordered(fn):
        if isinstance(n, ast.stmt) and dump(n) == want:
            return n
    raise Unsupported("%s: statement `%s` not found in %s" % (what, src.strip().split("\n")[0], where(fn)))


def find_one(fn, pred, what):
    hits = [n for n in ordered(fn) if pred(n)]
    if len(hits) != 1:
        raise Unsupported("%s: expected exactly one match in %s, found %d" % (what, where(fn), len(hits)))
    return hits[0]


def is_call(n, dotted):
    return isinstance(n, ast.Call) and ast.unparse(n.func) == dotted


def translate(src):
    tree = ast.parse(src)
    classes = {n.name: n for n in tree.body if isinstance(n, ast.ClassDef)}
    for c in ("Deltas", "Stack"):
        if c not in classes:
            raise Unsupported("class %s not found" % c)
    defs = []

    def emit(name, params, body, ty="Z", comment=""):
        ps = " ".join("(%s : Z)" % p for p in params)
        comment = comment.replace("(*", "( *").replace("*)", "* )")
        defs.append("(* %s *)\nDefinition %s %s : %s := %s." % (comment, name, ps, ty, body))

    # ------------------------------------------------------------ Deltas.__init__
    init = method(classes["Deltas"], "__init__")
    expect_stmt(init, "self._filts = [np.ones(1, dtype=np.float64)]", "first filter")
    a = find_one(init, lambda n: isinstance(n, ast.Assign) and ast.unparse(n.targets[0]) == "delta_filter",
                 "delta_filter assignment")
    if not (is_call(a.value, "np.arange") and len(a.value.args) == 1
            and [k.arg for k in a.value.keywords] == ["dtype"]):
        raise Unsupported("delta_filter is not np.arange(<len>, dtype=..)")
    t = ZTr({"context_window": "W"})
    emit("g_base_len", ["W"], t.expr(a.value.args[0]), comment="np.arange(%s)" % ast.unparse(a.value.args[0]))
    augs = [n for n in ordered(init) if isinstance(n, ast.AugAssign) and ast.unparse(n.target) == "delta_filter"]
    if len(augs) != 2 or not isinstance(augs[0].op, ast.Sub) or not isinstance(augs[1].op, ast.Div):
        raise Unsupported("delta_filter is not updated by exactly `-= shift` then `/= norm`")
    emit("g_base_shift", ["W"], t.expr(augs[0].value), comment="delta_filter -= %s" % ast.unparse(augs[0].value))
    if dump(augs[1].value) != dump(parse_expr("np.sum(delta_filter ** 2)")):
        raise Unsupported("delta_filter normaliser is not np.sum(delta_filter ** 2)")
    order = [n for n in ordered(init) if n is a or n in augs]
    if order != [a] + augs:
        raise Unsupported("delta_filter statements out of order")
    expect_stmt(init, "for idx in range(num_deltas):\n    self._filts.append(np.convolve(self._filts[idx], delta_filter))",
                "filter recursion")
    expect_stmt(init, "self.num_deltas = num_deltas", "num_deltas attribute")
    expect_stmt(init, "self._target_axis = target_axis", "target_axis attribute")
    expect_stmt(init, "self._pad_mode = pad_mode", "pad_mode attribute")
    expect_stmt(init, "self.concatenate = bool(concatenate)", "concatenate attribute")

    # ------------------------------------------------------------ Deltas.apply
    app = method(classes["Deltas"], "apply")
    names = [n for n in ordered(app) if isinstance(n, ast.Name) and n.id == "axis"]
    m = find_one(app, lambda n: isinstance(n, ast.BinOp) and isinstance(n.op, ast.Mod)
                 and ast.unparse(n.left) == "axis", "axis normalisation")
    if len(names) != 1:
        raise Unsupported("`axis` is used %d times in Deltas.apply, expected only inside its normalisation" % len(names))
    emit("g_axis_mod", ["axis", "nd"], ZTr({"axis": "axis", "features.ndim": "nd"}).expr(m),
         comment=ast.unparse(m))
    expect_stmt(app, "other_axes = tuple(idx for idx in range(features.ndim) if idx != %s)" % ast.unparse(m),
                "other axes")
    expect_stmt(app, "other_shapes = tuple(features.shape[idx] for idx in other_axes)", "other shapes")
    expect_stmt(app, "delta_feats = [features]", "result list starts with the input")
    expect_stmt(app, "feat_slice = [slice(None)] * features.ndim", "slice template")
    expect_stmt(app, "delta_feat = np.empty(features.shape, dtype=features.dtype)", "block allocation")
    expect_stmt(app, "delta_feats.append(delta_feat)", "block appended")
    floop = find_one(app, lambda n: isinstance(n, ast.For) and ast.unparse(n.target) == "filt", "filter loop")
    if ast.unparse(floop.iter) != "self._filts[1:]":
        raise Unsupported("filter loop does not run over self._filts[1:]")
    lloop = find_one(floop, lambda n: isinstance(n, ast.For) and ast.unparse(n.target) == "other_indices", "lane loop")
    if ast.unparse(lloop.iter) != "np.ndindex(other_shapes)":
        raise Unsupported("lane loop does not run over np.ndindex(other_shapes)")
    expect_stmt(lloop, "for axis_idx, idx in zip(other_axes, other_indices):\n    feat_slice[axis_idx] = idx", "lane selection")
    env = {"len(filt)": "lf"}
    for n in floop.body:
        if isinstance(n, ast.Assign) and len(n.targets) == 1 and isinstance(n.targets[0], ast.Name):
            try:
                env[n.targets[0].id] = ZTr(env).expr(n.value)
            except Unsupported:
                pass
    lt = ZTr(env)
    padc = find_one(lloop, lambda n: is_call(n, "np.pad"), "np.pad call")
    if (len(padc.args) != 3 or not isinstance(padc.args[1], ast.Tuple) or len(padc.args[1].elts) != 2
            or ast.unparse(padc.args[0]) != "features[tuple(feat_slice)].astype(np.float64, copy=False)"
            or ast.unparse(padc.args[2]) != "self._pad_mode"
            or [(k.arg, ast.unparse(k.value)) for k in padc.keywords] != [(None, "self._pad_kwargs")]):
        raise Unsupported("np.pad call of Deltas.apply has an unexpected form")
    emit("g_pad_before", ["lf"], lt.expr(padc.args[1].elts[0]), comment="np.pad width before (lf = len(filt))")
    emit("g_pad_after", ["lf"], lt.expr(padc.args[1].elts[1]), comment="np.pad width after")
    corr = find_one(lloop, lambda n: is_call(n, "np.correlate"), "np.correlate call")
    if (len(corr.args) != 3 or corr.args[0] is not padc or ast.unparse(corr.args[1]) != "filt"
            or ast.unparse(corr.args[2]) != "'full'" or corr.keywords):
        raise Unsupported("np.correlate call has an unexpected form")
    sub = find_one(lloop, lambda n: isinstance(n, ast.Subscript) and n.value is corr, "crop of the correlation")
    sl = sub.slice
    if not isinstance(sl, ast.Slice) or sl.step is not None or sl.lower is None or sl.upper is None:
        raise Unsupported("crop is not [lo:hi]")
    emit("g_crop_lo", ["lf"], lt.expr(sl.lower), comment="crop lower bound " + ast.unparse(sl.lower))
    emit("g_crop_hi", ["lf"], lt.expr(sl.upper), comment="crop upper bound " + ast.unparse(sl.upper))
    asg = find_one(lloop, lambda n: isinstance(n, ast.Assign) and ast.unparse(n.targets[0]) == "delta_feat[tuple(feat_slice)]",
                   "lane assignment")
    if not (is_call(asg.value, ast.unparse(sub) + ".astype") and ast.unparse(asg.value.args[0]) == "features.dtype"):
        raise Unsupported("lane result is not cast back with .astype(features.dtype, ..)")
    expect_stmt(app, "if self.concatenate:\n    return np.concatenate(delta_feats, self._target_axis)\n"
                     "else:\n    return np.stack(delta_feats, self._target_axis)", "concatenate / stack")

    # ------------------------------------------------------------ Stack.__init__
    sinit = method(classes["Stack"], "__init__")
    g = find_one(sinit, lambda n: isinstance(n, ast.If), "constructor guard")
    if not (len(g.body) == 1 and isinstance(g.body[0], ast.Raise) and not g.orelse
            and ast.unparse(g.body[0].exc.func) == "ValueError"):
        raise Unsupported("Stack.__init__ guard is not `if ..: raise ValueError`")
    emit("g_stack_reject", ["n"], ZTr({"num_vectors": "n"}).cond(g.test), ty="bool", comment="raise ValueError if " + ast.unparse(g.test))
    for s in ("self.num_vectors = num_vectors", "self.time_axis = time_axis", "self._pad_mode = pad_mode"):
        expect_stmt(sinit, s, "Stack attribute")

    # ------------------------------------------------------------ Stack.apply
    sapp = method(classes["Stack"], "apply")
    body = [s for s in sapp.body if not (isinstance(s, ast.Expr) and isinstance(s.value, ast.Constant))]

    def take(pred, what):
        if not body or not pred(body[0]):
            raise Unsupported("Stack.apply: expected %s, found `%s`" % (what, ast.unparse(body[0]).split("\n")[0] if body else "end"))
        return body.pop(0)

    def assign_to(name):
        return lambda s: isinstance(s, ast.Assign) and len(s.targets) == 1 and ast.unparse(s.targets[0]) == name

    base = {"features.ndim": "nd", "self.num_vectors": "n"}
    s = take(assign_to("axis"), "axis normalisation")
    emit("g_stack_axis_mod", ["axis", "nd"], ZTr(dict(base, axis="axis")).expr(s.value), comment="axis = " + ast.unparse(s.value))
    s = take(assign_to("time_axis"), "time axis normalisation")
    emit("g_stack_time_mod", ["time_axis", "nd"], ZTr(dict(base, **{"self.time_axis": "time_axis"})).expr(s.value),
         comment="time_axis = " + ast.unparse(s.value))
    s = take(lambda s: isinstance(s, ast.If), "equal-axes guard")
    if not (dump(s.test) == dump(parse_expr("axis == time_axis")) and len(s.body) == 1 and isinstance(s.body[0], ast.Raise)
            and ast.unparse(s.body[0].exc.func) == "RuntimeError" and not s.orelse):
        raise Unsupported("Stack.apply: equal-axes guard has an unexpected form")
    take(lambda s: dump(s) == dump(parse_stmt("shape = list(features.shape)")), "shape = list(features.shape)")
    take(lambda s: dump(s) == dump(parse_stmt("T, F = shape[time_axis], shape[axis]")), "T, F = shape[time_axis], shape[axis]")
    p = take(lambda s: isinstance(s, ast.If) and dump(s.test) == dump(parse_expr("self._pad_mode is not None")) and not s.orelse,
             "padding branch")
    if len(p.body) != 2 or not assign_to("rem")(p.body[0]) or not isinstance(p.body[1], ast.If):
        raise Unsupported("Stack.apply: padding branch is not `rem = ..; if rem: ..`")
    tz = ZTr(dict(base, T="T", F="F", rem="rem", nT="nT", i="i"))
    emit("g_stack_rem", ["T", "n"], tz.expr(p.body[0].value), comment="rem = " + ast.unparse(p.body[0].value))
    r = p.body[1]
    if ast.unparse(r.test) != "rem" or r.orelse or len(r.body) != 5:
        raise Unsupported("Stack.apply: `if rem:` block has an unexpected form")
    if dump(r.body[0]) != dump(parse_stmt("padding = [(0, 0)] * features.ndim")):
        raise Unsupported("Stack.apply: padding template")
    pw = r.body[1]
    if not (assign_to("padding[time_axis]")(pw) and isinstance(pw.value, ast.Tuple) and len(pw.value.elts) == 2):
        raise Unsupported("Stack.apply: padding[time_axis] = (before, after)")
    emit("g_stack_pad_before", ["n", "rem"], tz.expr(pw.value.elts[0]), comment="padding before")
    emit("g_stack_pad_after", ["n", "rem"], tz.expr(pw.value.elts[1]), comment="padding after: " + ast.unparse(pw.value.elts[1]))
    if dump(r.body[2]) != dump(parse_stmt("features = np.pad(features, padding, self._pad_mode, **self._pad_kwargs)")):
        raise Unsupported("Stack.apply: np.pad call")
    if dump(r.body[3]) != dump(parse_stmt("in_place = True")):
        raise Unsupported("Stack.apply: in_place = True after padding")
    tp = r.body[4]
    if not (isinstance(tp, ast.AugAssign) and ast.unparse(tp.target) == "T" and isinstance(tp.op, ast.Add)):
        raise Unsupported("Stack.apply: T += ..")
    emit("g_stack_T_padded", ["T", "n", "rem"], "(T + %s)" % tz.expr(tp.value), comment="T += " + ast.unparse(tp.value))
    s = take(assign_to("(nT, nF)"), "nT, nF = ..")
    if not (isinstance(s.value, ast.Tuple) and len(s.value.elts) == 2):
        raise Unsupported("Stack.apply: nT, nF = a, b")
    emit("g_stack_nT", ["T", "n"], tz.expr(s.value.elts[0]), comment="nT = " + ast.unparse(s.value.elts[0]))
    emit("g_stack_nF", ["F", "n"], tz.expr(s.value.elts[1]), comment="nF = " + ast.unparse(s.value.elts[1]))
    s = take(assign_to("T"), "T = nT * n")
    emit("g_stack_T2", ["nT", "n"], tz.expr(s.value), comment="T = " + ast.unparse(s.value))
    br = take(lambda s: isinstance(s, ast.If) and dump(s.test) == dump(parse_expr("features.ndim == 2")), "2-D / N-D branch")
    want2d = ["if not in_place:\n    features = features.copy()", "if time_axis:\n    features = features.T",
              "features = features[:T]", "features = features.reshape(nT, nF)", "if time_axis:\n    features = features.T"]
    if [dump(x) for x in br.body] != [dump(parse_stmt(x)) for x in want2d]:
        raise Unsupported("Stack.apply: the 2-D branch changed")
    if len(br.orelse) != 4:
        raise Unsupported("Stack.apply: the N-D branch changed")
    if dump(br.orelse[0]) != dump(parse_stmt("feat_slice = [slice(None)] * features.ndim")) or \
            dump(br.orelse[1]) != dump(parse_stmt("buffs = []")) or \
            dump(br.orelse[3]) != dump(parse_stmt("features = np.concatenate(buffs, axis)")):
        raise Unsupported("Stack.apply: the N-D branch changed")
    lp = br.orelse[2]
    if not (isinstance(lp, ast.For) and ast.unparse(lp.target) == "i" and is_call(lp.iter, "range") and len(lp.iter.args) == 1
            and len(lp.body) == 2 and assign_to("feat_slice[time_axis]")(lp.body[0]) and is_call(lp.body[0].value, "slice")
            and len(lp.body[0].value.args) == 3
            and dump(lp.body[1]) == dump(parse_stmt("buffs.append(features[tuple(feat_slice)])"))):
        raise Unsupported("Stack.apply: the strided-slice loop changed")
    emit("g_stack_count", ["n"], tz.expr(lp.iter.args[0]), comment="for i in range(%s)" % ast.unparse(lp.iter.args[0]))
    for nm, e in zip(("start", "stop", "step"), lp.body[0].value.args):
        emit("g_stack_slice_" + nm, ["i", "T", "n"], tz.expr(e), comment="slice %s: %s" % (nm, ast.unparse(e)))
    take(lambda s: dump(s) == dump(parse_stmt("return features")), "return features")
    if body:
        raise Unsupported("Stack.apply: trailing statements")

    head = [
        "(* GENERATED by /verif/gen/post_c15.py from src/pydrobert/speech/post.py - do not edit *)",
        "From Coq Require Import ZArith.",
        "Open Scope Z_scope.",
        "",
    ]
    return "\n".join(head + defs) + "\n"


def main(src_path, out_path):
    text = translate(open(src_path).read())
    os.makedirs(os.path.dirname(out_path), exist_ok=True)
    old = open(out_path).read() if os.path.exists(out_path) else None
    if old != text:
        with open(out_path, "w") as fo:
            fo.write(text)
    return text


if __name__ == "__main__":
    print(main(sys.argv[1], sys.argv[2]))
