"""Translate the pre-processors into programs of the array language of
coq/C18/Model.v (-> coq/gen/Pre.v).

From ``pre.py``: the bodies of ``Dither.apply`` and ``Preemphasize.apply``, one
``stmt`` per Python statement, the defaults of ``coeff`` / ``axis`` /
``in_place``.  From ``torch.py``: ``pytorch_preemphasize`` and ``pytorch_dither``
as ``tprog`` terms, after checking that the two ``torch.nn.Module`` wrappers just
forward ``self.coeff`` to them.

Fail closed: any construct that is not recognised raises ``Unsupported`` and the
check treats the tie as broken.
"""

import ast
import os
import sys
from fractions import Fraction

sys.path.insert(0, os.path.dirname(os.path.abspath(__file__)))
from pyexpr import Unsupported  # noqa: E402

DTYPES = {
    "float16": "F16", "float32": "F32", "float64": "F64",
    "int8": "I8", "int16": "I16", "int32": "I32", "int64": "I64",
    "uint8": "U8", "uint16": "U16", "uint32": "U32", "uint64": "U64",
}


def bad(what, node=None):
    where = ""
    if node is not None and hasattr(node, "lineno"):
        where = " (line %d)" % node.lineno
    d = ast.dump(node)[:160] if isinstance(node, ast.AST) else ""
    raise Unsupported("%s%s %s" % (what, where, d))


def is_name(e, name):
    return isinstance(e, ast.Name) and e.id == name


def is_attr(e, obj, attr):
    return isinstance(e, ast.Attribute) and is_name(e.value, obj) and e.attr == attr


def zopt(e):
    """Slice bound: None or an integer literal -> Coq option Z."""
    if e is None:
        return "None"
    v = intlit(e)
    if v is None:
        bad("slice bound", e)
    return "(Some (%d))" % v


def intlit(e):
    if isinstance(e, ast.Constant) and isinstance(e.value, int) and not isinstance(e.value, bool):
        return e.value
    if isinstance(e, ast.UnaryOp) and isinstance(e.op, ast.USub):
        v = intlit(e.operand)
        return None if v is None else -v
    return None


def np_dtype(e):
    if isinstance(e, ast.Attribute) and is_name(e.value, "np") and e.attr in DTYPES:
        return DTYPES[e.attr]
    bad("dtype", e)


class NpTr:
    """Statements of an ``apply(self, signal, axis, in_place)`` body."""

    def sig_slice(self, e):
        """signal | signal[lo:hi] | signal[..., lo:hi]  ->  (lo, hi)"""
        if is_name(e, "signal"):
            return "None", "None"
        if isinstance(e, ast.Subscript) and is_name(e.value, "signal"):
            s = e.slice
            if isinstance(s, ast.Tuple):
                if len(s.elts) != 2 or not (isinstance(s.elts[0], ast.Constant) and s.elts[0].value is Ellipsis):
                    bad("subscript", e)
                s = s.elts[1]
            if isinstance(s, ast.Slice) and s.step is None:
                return zopt(s.lower), zopt(s.upper)
        bad("signal slice", e)

    def aexp(self, e):
        if is_name(e, "signal") or isinstance(e, ast.Subscript):
            lo, hi = self.sig_slice(e)
            return "(ESig %s %s)" % (lo, hi)
        if isinstance(e, ast.BinOp) and isinstance(e.op, ast.Mult):
            # IEEE multiplication is commutative: coeff may stand on either side
            if is_attr(e.left, "self", "coeff"):
                return "(EMulCoeff %s)" % self.aexp(e.right)
            if is_attr(e.right, "self", "coeff"):
                return "(EMulCoeff %s)" % self.aexp(e.left)
            bad("product without self.coeff", e)
        if isinstance(e, ast.Call):
            f = e.func
            if (isinstance(f, ast.Attribute) and f.attr == "normal" and is_attr(f.value, "np", "random")
                    and not e.keywords and len(e.args) == 3):
                loc, scale, shape = e.args
                if not (isinstance(loc, ast.Constant) and type(loc.value) in (int, float) and loc.value == 0
                        and str(loc.value)[0] != "-"):
                    bad("normal(): loc is not the literal 0", loc)
                if not is_attr(scale, "self", "coeff"):
                    bad("normal(): scale is not self.coeff", scale)
                if is_attr(shape, "signal", "shape"):
                    return "(ENormal ShSignal)"
                if is_name(shape, "random_shape"):
                    return "(ENormal ShRandom)"
                bad("normal(): shape", shape)
        bad("array expression", e)

    def bexp(self, e):
        if isinstance(e, ast.UnaryOp) and isinstance(e.op, ast.Not):
            return "(BNot %s)" % self.bexp(e.operand)
        if isinstance(e, ast.BoolOp):
            k = "BOr" if isinstance(e.op, ast.Or) else "BAnd"
            vals = [self.bexp(v) for v in e.values]
            r = vals[-1]
            for v in reversed(vals[:-1]):
                r = "(%s %s %s)" % (k, v, r)
            return r
        if is_name(e, "in_place"):
            return "BInPlace"
        if is_attr(e, "signal", "shape"):
            return "(BNot BShapeEmpty)"
        if isinstance(e, ast.Compare) and len(e.ops) == 1:
            a, op, b = e.left, e.ops[0], e.comparators[0]
            if is_name(a, "axis") and isinstance(b, ast.Constant) and b.value is None:
                if isinstance(op, ast.Is):
                    return "BAxisNone"
                if isinstance(op, ast.IsNot):
                    return "(BNot BAxisNone)"
            if is_name(a, "axis") and isinstance(b, (ast.Set, ast.Tuple, ast.List)):
                items = []
                for x in b.elts:
                    if isinstance(x, ast.Constant) and x.value is None:
                        items.append("None")
                    elif intlit(x) is not None:
                        items.append("Some (%d)" % intlit(x))
                    else:
                        bad("axis set element", x)
                t = "(BAxisIn [%s])" % "; ".join(items)
                if isinstance(op, ast.In):
                    return t
                if isinstance(op, ast.NotIn):
                    return "(BNot %s)" % t
            which = None
            if is_attr(a, "signal", "dtype"):
                which = "DCur"
            elif is_name(a, "signal_dtype"):
                which = "DSaved"
            if which:
                t = "(BDtypeNe %s %s)" % (which, np_dtype(b))
                if isinstance(op, ast.NotEq):
                    return t
                if isinstance(op, ast.Eq):
                    return "(BNot %s)" % t
        if (isinstance(e, ast.Call) and is_attr(e.func, "np", "issubdtype") and len(e.args) == 2 and not e.keywords
                and is_attr(e.args[1], "np", "integer")):
            if is_name(e.args[0], "signal_dtype"):
                return "(BIsInt DSaved)"
            if is_attr(e.args[0], "signal", "dtype"):
                return "(BIsInt DCur)"
            bad("issubdtype argument", e)
        if isinstance(e, ast.Compare) and len(e.ops) == 1:
            a, op, b = e.left, e.ops[0], e.comparators[0]
            if (isinstance(a, ast.Call) and is_name(a.func, "len") and len(a.args) == 1
                    and is_attr(a.args[0], "signal", "shape") and isinstance(op, ast.Eq)
                    and intlit(b) is not None):
                return "(BNdimEq (%d))" % intlit(b)
        bad("condition", e)

    def stmt(self, s):
        if isinstance(s, ast.If):
            return "SIf %s [%s] [%s]" % (self.bexp(s.test), self.block(s.body), self.block(s.orelse))
        if isinstance(s, ast.Expr) and isinstance(s.value, ast.Call):
            f = s.value.func
            if is_attr(f, "warnings", "warn"):
                return "SWarn"
            c = s.value
            if (is_attr(f, "np", "rint") and len(c.args) == 1 and is_name(c.args[0], "signal")
                    and len(c.keywords) == 1 and c.keywords[0].arg == "out" and is_name(c.keywords[0].value, "signal")):
                return "SRint"
            bad("call statement", s)
        if isinstance(s, ast.Assign) and len(s.targets) == 1:
            t, v = s.targets[0], s.value
            if is_name(t, "signal_dtype") and is_attr(v, "signal", "dtype"):
                return "SSaveDtype"
            if is_name(t, "signal") and isinstance(v, ast.Call):
                f = v.func
                if (isinstance(f, ast.Attribute) and f.attr == "astype" and is_name(f.value, "signal")
                        and len(v.args) == 1 and not v.keywords):
                    return "SAstype %s" % np_dtype(v.args[0])
                if is_attr(f, "np", "moveaxis") and len(v.args) == 3 and not v.keywords and is_name(v.args[0], "signal"):
                    if is_name(v.args[1], "axis") and intlit(v.args[2]) == -1:
                        return "SMoveAxis true"
                    if intlit(v.args[1]) == -1 and is_name(v.args[2], "axis"):
                        return "SMoveAxis false"
            if is_name(t, "random_shape"):
                # [1] * len(signal.shape)
                if (isinstance(v, ast.BinOp) and isinstance(v.op, ast.Mult) and isinstance(v.left, ast.List)
                        and len(v.left.elts) == 1 and intlit(v.left.elts[0]) == 1
                        and isinstance(v.right, ast.Call) and is_name(v.right.func, "len")
                        and len(v.right.args) == 1 and is_attr(v.right.args[0], "signal", "shape")):
                    return "SRandShapeInit"
            if (isinstance(t, ast.Subscript) and is_name(t.value, "random_shape") and is_name(t.slice, "axis")
                    and isinstance(v, ast.Subscript) and is_attr(v.value, "signal", "shape") and is_name(v.slice, "axis")):
                return "SRandShapeSet"
            bad("assignment", s)
        if isinstance(s, ast.AugAssign):
            if isinstance(s.op, ast.Add):
                op = "OAdd"
            elif isinstance(s.op, ast.Sub):
                op = "OSub"
            else:
                bad("augmented operator", s)
            lo, hi = self.sig_slice(s.target)
            return "SAug %s %s %s %s" % (op, lo, hi, self.aexp(s.value))
        if isinstance(s, ast.Return):
            v = s.value
            if (isinstance(v, ast.Call) and isinstance(v.func, ast.Attribute) and v.func.attr == "astype"
                    and is_name(v.func.value, "signal") and len(v.args) == 1 and is_name(v.args[0], "signal_dtype")
                    and len(v.keywords) == 1 and v.keywords[0].arg == "copy"
                    and isinstance(v.keywords[0].value, ast.Constant) and v.keywords[0].value.value is False):
                return "SReturnAstypeSaved"
            bad("return", s)
        bad("statement", s)

    def block(self, body):
        return ";\n    ".join(self.stmt(s) for s in body)


def default_of(fn, name):
    a = fn.args
    if a.vararg or a.kwarg or a.kwonlyargs or a.posonlyargs:
        bad("signature", fn)
    names = [x.arg for x in a.args]
    if name not in names:
        bad("no parameter %s" % name, fn)
    i = names.index(name) - (len(names) - len(a.defaults))
    if i < 0:
        bad("parameter %s has no default" % name, fn)
    return a.defaults[i]


def ratio(e):
    if isinstance(e, ast.Constant) and type(e.value) in (int, float):
        fr = Fraction(repr(e.value))
        return "(%d, %d)" % (fr.numerator, fr.denominator)
    bad("numeric default", e)


def np_class(cls, tag, out):
    methods = {}
    for item in cls.body:
        if isinstance(item, ast.FunctionDef):
            methods[item.name] = item
        elif isinstance(item, (ast.Assign, ast.AnnAssign)) or (
                isinstance(item, ast.Expr) and isinstance(item.value, ast.Constant)):
            continue
        else:
            bad("class item", item)
    if set(methods) != {"__init__", "apply"}:
        bad("methods of %s: %s" % (cls.name, sorted(methods)), cls)
    init = methods["__init__"]
    if [x.arg for x in init.args.args] != ["self", "coeff"]:
        bad("__init__ signature", init)
    stored = False
    for s in init.body:
        if isinstance(s, ast.Expr) and isinstance(s.value, ast.Call):
            continue  # super().__init__()
        if (isinstance(s, ast.Assign) and len(s.targets) == 1 and is_attr(s.targets[0], "self", "coeff")
                and is_name(s.value, "coeff")):
            stored = True
            continue
        bad("__init__ statement", s)
    if not stored:
        bad("__init__ does not store coeff", init)
    out.append("Definition %s_default_coeff : Z * Z := %s." % (tag, ratio(default_of(init, "coeff"))))
    ap = methods["apply"]
    if [x.arg for x in ap.args.args] != ["self", "signal", "axis", "in_place"]:
        bad("apply signature", ap)
    ax, ip = default_of(ap, "axis"), default_of(ap, "in_place")
    if not (isinstance(ax, ast.Constant) and ax.value is None):
        bad("default of axis", ax)
    if not (isinstance(ip, ast.Constant) and isinstance(ip.value, bool)):
        bad("default of in_place", ip)
    out.append("Definition %s_default_in_place : bool := %s." % (tag, "true" if ip.value else "false"))
    body = [s for s in ap.body if not (isinstance(s, ast.Expr) and isinstance(s.value, ast.Constant))]
    out.append("Definition %s_prog : list stmt :=\n  [ %s ]." % (tag, NpTr().block(body).replace("\n    ", "\n    ")))
    out.append("")


class TorchTr:
    def __init__(self, sig, coeff):
        self.sig, self.coeff = sig, coeff

    def exp(self, e):
        if is_name(e, self.sig):
            return "TSig"
        if isinstance(e, ast.Subscript):
            s = e.slice
            if isinstance(s, ast.Slice) and s.step is None:
                return "(TSlice %s %s %s)" % (zopt(s.lower), zopt(s.upper), self.exp(e.value))
            bad("tensor subscript", e)
        if isinstance(e, ast.BinOp):
            if isinstance(e.op, ast.Sub):
                return "(TSub %s %s)" % (self.exp(e.left), self.exp(e.right))
            if isinstance(e.op, ast.Add):
                return "(TAdd %s %s)" % (self.exp(e.left), self.exp(e.right))
            if isinstance(e.op, ast.Mult):
                if is_name(e.left, self.coeff):
                    return "(TMulCoeff %s)" % self.exp(e.right)
                if is_name(e.right, self.coeff):
                    return "(TMulCoeff %s)" % self.exp(e.left)
            bad("tensor operator", e)
        if isinstance(e, ast.Call) and not e.keywords:
            f = e.func
            if isinstance(f, ast.Attribute) and f.attr == "new_zeros" and is_name(f.value, self.sig) and len(e.args) == 1:
                n = intlit(e.args[0])
                if n is None or n < 0:
                    bad("new_zeros size", e)
                return "(TNewZeros %d)" % n
            if is_attr(f, "torch", "randn_like") and len(e.args) == 1:
                return "(TRandnLike %s)" % self.exp(e.args[0])
            if (is_attr(f, "torch", "concatenate") or is_attr(f, "torch", "cat")) and len(e.args) == 1 \
                    and isinstance(e.args[0], (ast.List, ast.Tuple)):
                return "(TConcat [%s])" % "; ".join(self.exp(x) for x in e.args[0].elts)
        bad("tensor expression", e)


def torch_fn(fn, tag, out):
    names = [x.arg for x in fn.args.args]
    if len(names) != 2 or names[1] != "coeff":
        bad("signature of %s" % fn.name, fn)
    t = TorchTr(names[0], "coeff")
    out.append("Definition %s_default_coeff : Z * Z := %s." % (tag, ratio(default_of(fn, "coeff"))))
    assigns, ret = [], None
    for s in fn.body:
        if isinstance(s, ast.Expr) and isinstance(s.value, ast.Constant):
            continue
        if ret is not None:
            bad("statement after return", s)
        if isinstance(s, ast.Assign) and len(s.targets) == 1 and is_name(s.targets[0], names[0]):
            assigns.append(t.exp(s.value))
        elif isinstance(s, ast.Return) and s.value is not None:
            ret = t.exp(s.value)
        else:
            bad("statement of %s" % fn.name, s)
    if ret is None:
        bad("no return in %s" % fn.name, fn)
    out.append("Definition %s_prog : tprog :=\n  {| t_assigns := [%s];\n     t_ret := %s |}." % (tag, "; ".join(assigns), ret))
    out.append("")


def torch_module(cls, fname, from_name, arg):
    """The Module only stores coeff and forwards it to the functional form."""
    methods = {i.name: i for i in cls.body if isinstance(i, ast.FunctionDef)}
    for need in ("__init__", "forward", from_name):
        if need not in methods:
            bad("%s lacks %s" % (cls.name, need), cls)
    fw = [s for s in methods["forward"].body if not (isinstance(s, ast.Expr) and isinstance(s.value, ast.Constant))]
    ok = (len(fw) == 1 and isinstance(fw[0], ast.Return) and isinstance(fw[0].value, ast.Call)
          and is_name(fw[0].value.func, fname) and len(fw[0].value.args) == 2 and not fw[0].value.keywords
          and is_name(fw[0].value.args[0], methods["forward"].args.args[1].arg)
          and is_attr(fw[0].value.args[1], "self", "coeff"))
    if not ok:
        bad("%s.forward does not forward to %s(sig, self.coeff)" % (cls.name, fname), methods["forward"])
    stored = any(isinstance(s, ast.Assign) and len(s.targets) == 1 and is_attr(s.targets[0], "self", "coeff")
                 and is_name(s.value, "coeff") for s in methods["__init__"].body)
    if not stored:
        bad("%s.__init__ does not store coeff" % cls.name, methods["__init__"])
    fr = [s for s in methods[from_name].body if not (isinstance(s, ast.Expr) and isinstance(s.value, ast.Constant))]
    ok = (len(fr) == 1 and isinstance(fr[0], ast.Return) and isinstance(fr[0].value, ast.Call)
          and is_name(fr[0].value.func, "cls") and len(fr[0].value.args) == 1 and not fr[0].value.keywords
          and is_attr(fr[0].value.args[0], arg, "coeff"))
    if not ok:
        bad("%s.%s does not pass .coeff on" % (cls.name, from_name), methods[from_name])
    return ratio(default_of(methods["__init__"], "coeff"))


def translate(pre_src, torch_src):
    out = [
        "(* GENERATED by /verif/gen/pre.py from src/pydrobert/speech/pre.py and torch.py - do not edit *)",
        "From Coq Require Import ZArith List.",
        "From Verif Require Import C18.Model.",
        "Import ListNotations.",
        "Open Scope Z_scope.",
        "",
    ]
    tree = ast.parse(pre_src)
    classes = {n.name: n for n in tree.body if isinstance(n, ast.ClassDef)}
    for name, tag in (("Dither", "dither"), ("Preemphasize", "preemph")):
        if name not in classes:
            raise Unsupported("class %s not found in pre.py" % name)
        np_class(classes[name], tag, out)
    ttree = ast.parse(torch_src)
    fns = {n.name: n for n in ttree.body if isinstance(n, ast.FunctionDef)}
    tcls = {n.name: n for n in ttree.body if isinstance(n, ast.ClassDef)}
    for name, tag in (("pytorch_preemphasize", "torch_preemph"), ("pytorch_dither", "torch_dither")):
        if name not in fns:
            raise Unsupported("function %s not found in torch.py" % name)
        torch_fn(fns[name], tag, out)
    for cname, fname, frm, arg, tag in (
            ("PyTorchPreemphasize", "pytorch_preemphasize", "from_preemphasize", "preemphasize", "torch_preemph_module"),
            ("PyTorchDither", "pytorch_dither", "from_dither", "dither", "torch_dither_module")):
        if cname not in tcls:
            raise Unsupported("class %s not found in torch.py" % cname)
        out.append("Definition %s_default_coeff : Z * Z := %s." % (tag, torch_module(tcls[cname], fname, frm, arg)))
    return "\n".join(out) + "\n"


def main(pre_path, torch_path, out_path):
    text = translate(open(pre_path).read(), open(torch_path).read())
    os.makedirs(os.path.dirname(out_path), exist_ok=True)
    if not os.path.exists(out_path) or open(out_path).read() != text:
        with open(out_path, "w") as fo:
            fo.write(text)
    return text


if __name__ == "__main__":
    src = sys.argv[1] if len(sys.argv) > 1 else "/repo/src/pydrobert/speech"
    sys.stdout.write(main(os.path.join(src, "pre.py"), os.path.join(src, "torch.py"),
                          sys.argv[2] if len(sys.argv) > 2 else "/verif/coq/gen/Pre.v"))
