"""Fail-closed translation of a small arithmetic subset of Python (via ``ast``)
into Coq terms over R.  Used by the per-file translators (scales, guards).

Recognised: float/int literals (as exact decimals), names, ``self.attr``,
``+ - * / **`` (``**`` with base 2 or a positive literal base -> Rpower; an
integer literal exponent -> pow), unary minus, ``np.exp np.log np.log2``,
``max(a, b) min(a, b)``, comparisons ``< <= > >=``, ``and``/``or``/``not`` in
conditions, chained comparisons, statement lists made of assignments,
``if/elif/else`` and ``return``.  Anything else raises ``Unsupported``.
"""

import ast
from fractions import Fraction


class Unsupported(Exception):
    pass


def lit(v):
    if isinstance(v, bool):
        raise Unsupported("bool literal")
    if isinstance(v, int):
        return "(%d)" % v if v < 0 else "%d" % v
    if isinstance(v, float):
        fr = Fraction(repr(v))  # the decimal the source spells, exactly
        if fr.denominator == 1:
            return lit(int(fr.numerator))
        n, d = fr.numerator, fr.denominator
        return "(%s / %d)" % (lit(n), d)
    raise Unsupported("literal %r" % (v,))


class Tr:
    def __init__(self, env):
        # env maps python names / 'self.x' to Coq identifiers
        self.env = dict(env)

    def expr(self, e):
        if isinstance(e, ast.Constant):
            return lit(e.value)
        if isinstance(e, ast.Name):
            if e.id in self.env:
                return self.env[e.id]
            raise Unsupported("free name %s" % e.id)
        if isinstance(e, ast.Attribute):
            if isinstance(e.value, ast.Name) and e.value.id == "self":
                k = "self." + e.attr
                if k in self.env:
                    return self.env[k]
            raise Unsupported("attribute %s" % ast.dump(e))
        if isinstance(e, ast.UnaryOp) and isinstance(e.op, ast.USub):
            return "(- %s)" % self.expr(e.operand)
        if isinstance(e, ast.BinOp):
            a, b = e.left, e.right
            if isinstance(e.op, ast.Add):
                return "(%s + %s)" % (self.expr(a), self.expr(b))
            if isinstance(e.op, ast.Sub):
                return "(%s - %s)" % (self.expr(a), self.expr(b))
            if isinstance(e.op, ast.Mult):
                return "(%s * %s)" % (self.expr(a), self.expr(b))
            if isinstance(e.op, ast.Div):
                return "(%s / %s)" % (self.expr(a), self.expr(b))
            if isinstance(e.op, ast.Pow):
                if isinstance(b, ast.Constant) and isinstance(b.value, int) and b.value >= 0:
                    return "(%s ^ %d)" % (self.expr(a), b.value)
                if isinstance(a, ast.Constant) and isinstance(a.value, (int, float)) and a.value > 0:
                    return "(Rpower %s %s)" % (self.expr(a), self.expr(b))
                raise Unsupported("power %s" % ast.dump(e))
            raise Unsupported("binop %s" % ast.dump(e.op))
        if isinstance(e, ast.Call):
            f = e.func
            name = None
            if isinstance(f, ast.Attribute) and isinstance(f.value, ast.Name) and f.value.id in ("np", "math"):
                name = f.attr
            elif isinstance(f, ast.Name):
                name = f.id
            if e.keywords:
                raise Unsupported("keywords in call")
            args = [self.expr(a) for a in e.args]
            if name == "exp" and len(args) == 1:
                return "(exp %s)" % args[0]
            if name == "log" and len(args) == 1:
                return "(ln %s)" % args[0]
            if name == "log2" and len(args) == 1:
                return "(ln %s / ln 2)" % args[0]
            if name == "max" and len(args) == 2:
                return "(Rmax %s %s)" % tuple(args)
            if name == "min" and len(args) == 2:
                return "(Rmin %s %s)" % tuple(args)
            raise Unsupported("call %s" % ast.dump(f))
        raise Unsupported("expression %s" % ast.dump(e))

    def cond(self, c):
        """A decidable condition as a Coq sumbool/bool-like term usable in ``if``."""
        if isinstance(c, ast.Compare):
            if len(c.ops) == 1:
                a, b = self.expr(c.left), self.expr(c.comparators[0])
                op = c.ops[0]
                if isinstance(op, ast.Lt):
                    return "(Rlt_dec %s %s)" % (a, b)
                if isinstance(op, ast.LtE):
                    return "(Rle_dec %s %s)" % (a, b)
                if isinstance(op, ast.Gt):
                    return "(Rgt_dec %s %s)" % (a, b)
                if isinstance(op, ast.GtE):
                    return "(Rge_dec %s %s)" % (a, b)
            raise Unsupported("comparison %s" % ast.dump(c))
        raise Unsupported("condition %s" % ast.dump(c))

    def prop(self, c):
        """A condition as a Prop (for guards)."""
        if isinstance(c, ast.Compare):
            terms = [c.left] + list(c.comparators)
            parts = []
            for a, op, b in zip(terms, c.ops, terms[1:]):
                A, B = self.pexpr(a), self.pexpr(b)
                sym = {ast.Lt: "<", ast.LtE: "<=", ast.Gt: ">", ast.GtE: ">="}.get(type(op))
                if sym is None:
                    raise Unsupported("comparison op %s" % ast.dump(op))
                parts.append("(%s %s %s)" % (A, sym, B))
            return "(" + " /\\ ".join(parts) + ")"
        if isinstance(c, ast.BoolOp):
            j = " /\\ " if isinstance(c.op, ast.And) else " \\/ "
            return "(" + j.join(self.prop(v) for v in c.values) + ")"
        if isinstance(c, ast.UnaryOp) and isinstance(c.op, ast.Not):
            return "(~ %s)" % self.prop(c.operand)
        if isinstance(c, ast.Name) and ("truthy:" + c.id) in self.env:
            return self.env["truthy:" + c.id]
        raise Unsupported("prop %s" % ast.dump(c))

    def pexpr(self, e):
        # integer floor division by a positive literal, used by one guard
        if isinstance(e, ast.BinOp) and isinstance(e.op, ast.FloorDiv):
            if isinstance(e.right, ast.Constant) and isinstance(e.right.value, int) and e.right.value > 0:
                return "(IZR (Int_part (%s / %d)))" % (self.expr(e.left), e.right.value)
            raise Unsupported("floordiv")
        return self.expr(e)

    def block(self, stmts):
        """Statement list ending in returns -> Coq expression."""
        if not stmts:
            raise Unsupported("fell off the end of a function")
        s, rest = stmts[0], stmts[1:]
        if isinstance(s, ast.Expr) and isinstance(s.value, ast.Constant) and isinstance(s.value.value, str):
            return self.block(rest)  # docstring
        if isinstance(s, ast.Return):
            if s.value is None:
                raise Unsupported("bare return")
            return self.expr(s.value)
        if isinstance(s, ast.Assign):
            if len(s.targets) != 1 or not isinstance(s.targets[0], ast.Name):
                raise Unsupported("assignment target")
            name = s.targets[0].id
            if isinstance(s.value, ast.Constant) and s.value.value is None:
                return self.block(rest)  # 'x = None' only declares
            val = self.expr(s.value)
            sub = Tr(self.env)
            coqname = "v_" + name
            sub.env[name] = coqname
            return "(let %s := %s in %s)" % (coqname, val, sub.block(rest))
        if isinstance(s, ast.If):
            c = self.cond(s.test)
            return "(if %s then %s else %s)" % (
                c,
                self.block(list(s.body) + rest),
                self.block(list(s.orelse) + rest),
            )
        raise Unsupported("statement %s" % ast.dump(s)[:80])
