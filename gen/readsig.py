"""Translate the decision logic of read_signal (pydrobert/speech/util.py) and the
literal type set of config.py into coq/gen/ReadSignal.v.

What is translated (Python ``ast`` -> Gallina over lib/C11_Base.v), fail closed:

* ``_infer_force_as_from_rfilename``: the whole ``if/elif/else`` chain ->
  ``infer w sf rfilename : res str`` (tests: the table regex, membership of the
  last dot-segment in SOUNDFILE_SUPPORTED_FILE_TYPES, ``endswith`` literals;
  the ``else`` must raise IOError) and the same chain as data
  (``infer_suffix_rules``).
* ``read_signal``: the statements before the dispatch -> ``resolve`` (stream
  without force_as / with a Kaldi force_as raises ValueError, a str without
  force_as is inferred), the dispatch chain -> ``dispatch sf force_as : res
  reader`` (the ``else`` must raise ValueError) and ``dispatch_literals``.
* ``_soundfile_read_signal``: the subtype chain -> ``soundfile_dtype``, and the
  rest of the body as glue around the codec.
* the bodies of the npy / npz / pt / file readers and the trailing cast of the
  wav reader: recognised statement by statement (local names alpha-normalised)
  and emitted as glue around codec oracles.
* ``wds_read_signal``: must be ``try: infer; return read_signal(BytesIO(data),
  force_as=..) except <everything>: return None`` -> ``wds_glue``.
* config.py: ``_BASE_SOUNDFILE_SUPPORTED_TYPES`` -> ``base_soundfile_types`` and
  the way SOUNDFILE_SUPPORTED_FILE_TYPES is formed (intersection with what
  libsndfile offers).

Anything not recognised raises ``Unsupported``; the check then reports the tie
as broken and searches for a concrete failing input.
"""

import ast
import os
import sys

sys.path.insert(0, os.path.dirname(os.path.abspath(__file__)))
from pyexpr import Unsupported  # noqa: E402

TABLE_REGEX = r"^(ark|scp)(,\w+)*:"

READERS = {
    "_kaldi_table_read_signal": "RTable",
    "_hdf5_read_signal": "RHdf5",
    "_numpy_binary_read_signal": "RNpy",
    "_numpy_archive_read_signal": "RNpz",
    "_torch_read_signal": "RPt",
    "sphere_read_signal": "RSph",
    "_kaldi_input_read_signal": "RKaldi",
    "_numpy_fromfile_read_signal": "RFile",
    "_soundfile_read_signal": "RSoundfile",
}

NP_DTYPES = {
    "float32": "F32", "float64": "F64", "int8": "I8", "uint8": "U8", "int16": "I16",
    "uint16": "U16", "int32": "I32", "uint32": "U32", "int64": "I64", "uint64": "U64",
}


def slit(s):
    """A Python str literal as a Coq [str] (list of code points), with a comment."""
    if "*)" in s or "(*" in s:
        raise Unsupported("literal %r cannot be shown in a comment" % s)
    return "((* %s *) [%s])" % (repr(s).replace("\\\\", "\\"), "; ".join(str(ord(c)) for c in s))


def dump(n):
    return ast.dump(n)


def is_name(n, name):
    return isinstance(n, ast.Name) and n.id == name


def is_attr(n, base, attr):
    return isinstance(n, ast.Attribute) and n.attr == attr and is_name(n.value, base)


def is_str(n):
    return isinstance(n, ast.Constant) and isinstance(n.value, str)


def body_of(fn):
    """Function body without docstring and imports."""
    out = []
    for st in fn.body:
        if isinstance(st, ast.Expr) and is_str(st.value):
            continue
        if isinstance(st, (ast.Import, ast.ImportFrom)):
            continue
        out.append(st)
    return out


def exc_name(st):
    if not isinstance(st, ast.Raise) or st.exc is None:
        return None
    e = st.exc
    if isinstance(e, ast.Call):
        e = e.func
    return e.id if isinstance(e, ast.Name) else None


class Renamer(ast.NodeTransformer):
    """Alpha-normalise local variable names (not the parameters)."""

    def __init__(self, params):
        self.map = {p: p for p in params}
        self.n = 0

    def visit_Name(self, node):
        if isinstance(node.ctx, ast.Store) and node.id not in self.map:
            self.map[node.id] = "v%d" % self.n
            self.n += 1
        return ast.copy_location(ast.Name(id=self.map.get(node.id, node.id), ctx=node.ctx), node)

    def visit_withitem(self, node):
        node.context_expr = self.visit(node.context_expr)
        if node.optional_vars is not None:
            node.optional_vars = self.visit(node.optional_vars)
        return node


def normalised(fn):
    params = [a.arg for a in fn.args.args] + ([fn.args.kwarg.arg] if fn.args.kwarg else [])
    stmts = body_of(fn)
    mod = ast.Module(body=stmts, type_ignores=[])
    # stores are visited in source order for straight-line code because
    # assignments put the value first: visit targets before values explicitly
    r = Renamer(params)

    class Pre(ast.NodeVisitor):
        def visit_Assign(self, node):
            for t in node.targets:
                r.visit(t)
            self.generic_visit(node)

        def visit_withitem(self, node):
            if node.optional_vars is not None:
                r.visit(node.optional_vars)
            self.generic_visit(node)

    Pre().visit(mod)
    mod = r.visit(mod)
    return mod.body, r.map


def p(src):
    """Parse one statement / expression pattern."""
    return ast.parse(src).body


def same(a, b):
    if isinstance(a, list):
        return isinstance(b, list) and len(a) == len(b) and all(same(x, y) for x, y in zip(a, b))
    return dump(a) == dump(b)


def cast_tail(stmts, var):
    """Recognise ``if dtype[ is not None]: var = var.astype(dtype)`` ; ``return var``."""
    if len(stmts) != 2:
        raise Unsupported("expected '<cast>; return' at the end, got %d statements" % len(stmts))
    c, r = stmts
    ok1 = same([c], p("if dtype:\n    %s = %s.astype(dtype)" % (var, var)))
    ok2 = same([c], p("if dtype is not None:\n    %s = %s.astype(dtype)" % (var, var)))
    if not (ok1 or ok2):
        raise Unsupported("trailing cast not recognised: %s" % ast.unparse(c))
    if not same([r], p("return %s" % var)):
        raise Unsupported("return not recognised: %s" % ast.unparse(r))
    return "truthy" if ok1 else "not_none"


# --------------------------------------------------------------------------
# _infer_force_as_from_rfilename


def tr_infer(fn):
    args = [a.arg for a in fn.args.args]
    if len(args) != 1:
        raise Unsupported("signature of _infer_force_as_from_rfilename")
    nm = args[0]
    stmts = body_of(fn)
    if len(stmts) != 2 or not isinstance(stmts[0], ast.If) or not isinstance(stmts[1], ast.Return):
        raise Unsupported("_infer_force_as_from_rfilename is not 'if-chain; return'")
    out_var = stmts[1].value.id if isinstance(stmts[1].value, ast.Name) else None
    if out_var is None:
        raise Unsupported("return value of _infer_force_as_from_rfilename")

    def sexpr(e):
        # rfilename.rsplit(".", maxsplit=1)[-1]
        if (
            isinstance(e, ast.Subscript)
            and isinstance(e.slice, ast.UnaryOp)
            and isinstance(e.slice.op, ast.USub)
            and isinstance(e.slice.operand, ast.Constant)
            and e.slice.operand.value == 1
            and isinstance(e.value, ast.Call)
            and is_attr(e.value.func, nm, "rsplit")
            and len(e.value.args) == 1
            and is_str(e.value.args[0])
            and len(e.value.args[0].value) == 1
            and len(e.value.keywords) == 1
            and e.value.keywords[0].arg == "maxsplit"
            and isinstance(e.value.keywords[0].value, ast.Constant)
            and e.value.keywords[0].value.value == 1
        ):
            return "(last_seg %d %s)" % (ord(e.value.args[0].value), "rfilename")
        if is_str(e):
            return slit(e.value)
        raise Unsupported("string expression %s" % ast.unparse(e))

    def test(t):
        if isinstance(t, ast.Call) and is_name(t.func, "match") and len(t.args) == 2 and not t.keywords:
            if not (is_str(t.args[0]) and is_name(t.args[1], nm)):
                raise Unsupported("match(...) arguments")
            if t.args[0].value != TABLE_REGEX:
                raise Unsupported("regular expression %r is not the modelled one %r" % (t.args[0].value, TABLE_REGEX))
            return "re_table w rfilename", ("regex", TABLE_REGEX)
        if (
            isinstance(t, ast.Compare)
            and len(t.ops) == 1
            and isinstance(t.ops[0], ast.In)
            and is_attr(t.comparators[0], "config", "SOUNDFILE_SUPPORTED_FILE_TYPES")
        ):
            return "mem_str %s sf" % sexpr(t.left), ("sf", None)
        if (
            isinstance(t, ast.Call)
            and is_attr(t.func, nm, "endswith")
            and len(t.args) == 1
            and is_str(t.args[0])
            and not t.keywords
        ):
            return "ends_with rfilename %s" % slit(t.args[0].value), ("suffix", t.args[0].value)
        raise Unsupported("test %s" % ast.unparse(t))

    chain, rules = [], []
    cur = stmts[0]
    while True:
        c, kind = test(cur.test)
        if len(cur.body) != 1 or not isinstance(cur.body[0], ast.Assign) or not is_name(cur.body[0].targets[0], out_var):
            raise Unsupported("branch body %s" % ast.unparse(cur.body[0]))
        val = cur.body[0].value
        chain.append((c, sexpr(val)))
        if kind[0] == "suffix":
            if not is_str(val):
                raise Unsupported("suffix rule with a computed result")
            rules.append((kind[1], val.value))
        else:
            rules.append(None)
        if len(cur.orelse) == 1 and isinstance(cur.orelse[0], ast.If):
            cur = cur.orelse[0]
            continue
        if len(cur.orelse) == 1 and exc_name(cur.orelse[0]) in ("IOError", "OSError"):
            break
        raise Unsupported("the chain does not end in 'raise IOError'")
    kinds = [r is None for r in rules]
    # the data form assumes: regex rule, set rule, then only suffix rules
    if kinds[:2] != [True, True] or any(kinds[2:]):
        raise Unsupported("order of rules changed (expected regex, type set, suffixes)")
    if "re_table" not in chain[0][0] or "mem_str" not in chain[1][0]:
        raise Unsupported("order of rules changed (expected regex first, type set second)")
    if chain[0][1] != slit("table") or "last_seg 46" not in chain[1][1] or "last_seg 46" not in chain[1][0]:
        raise Unsupported("first two rules are not the modelled ones")
    lines = ["Definition infer (w : Z -> bool) (sf : list str) (rfilename : str) : res str :="]
    for i, (c, v) in enumerate(chain):
        lines.append("  %s %s then Ok %s" % ("if" if i == 0 else "else if", c, v))
    lines.append("  else Err EIO.")
    out = "\n".join(lines) + "\n\n"
    out += "(* the endswith rules of the chain, in order: (suffix, result) *)\n"
    out += "Definition infer_suffix_rules : list (str * str) :=\n  [%s].\n" % ";\n   ".join(
        "(%s, %s)" % (slit(a), slit(b)) for a, b in rules[2:]
    )
    return out


# --------------------------------------------------------------------------
# read_signal


def tr_read_signal(fn):
    stmts = body_of(fn)
    if len(stmts) != 3:
        raise Unsupported("read_signal is not 'pre-check if; dispatch if; return'")
    pre, disp, ret = stmts
    if not same([ret], p("return data")):
        raise Unsupported("read_signal does not return data")
    # ---- pre-check
    if not (isinstance(pre, ast.If) and same([pre.test], [p("not isinstance(rfilename, str)")[0].value])):
        raise Unsupported("pre-check test")
    b = pre.body
    if len(b) != 2 or not all(isinstance(x, ast.If) and not x.orelse for x in b):
        raise Unsupported("pre-check body")
    if not same([b[0].test], [p("force_as is None")[0].value]) or exc_name(b[0].body[0]) != "ValueError" or len(b[0].body) != 1:
        raise Unsupported("stream without force_as must raise ValueError")
    t = b[1].test
    if not (
        isinstance(t, ast.Compare)
        and is_name(t.left, "force_as")
        and len(t.ops) == 1
        and isinstance(t.ops[0], ast.In)
        and isinstance(t.comparators[0], (ast.Set, ast.Tuple, ast.List))
        and all(is_str(e) for e in t.comparators[0].elts)
    ):
        raise Unsupported("stream force_as exclusion test")
    if exc_name(b[1].body[0]) != "ValueError" or len(b[1].body) != 1:
        raise Unsupported("stream with kaldi force_as must raise ValueError")
    excl = sorted(e.value for e in t.comparators[0].elts)
    o = pre.orelse
    if not (
        len(o) == 1
        and isinstance(o[0], ast.If)
        and not o[0].orelse
        and same([o[0].test], [p("force_as is None")[0].value])
        and same(o[0].body, p("force_as = _infer_force_as_from_rfilename(rfilename)"))
    ):
        raise Unsupported("inference branch of the pre-check")
    out = "(* read_signal, the statements before the dispatch: which force_as is used *)\n"
    out += "Definition stream_excluded : list str := [%s].\n" % "; ".join(slit(s) for s in excl)
    out += (
        "Definition resolve (w : Z -> bool) (sf : list str) (is_str : bool) (rfilename : str)\n"
        "    (force_as : option str) : res str :=\n"
        "  if negb is_str then\n"
        "    match force_as with\n"
        "    | None => Err EValue\n"
        "    | Some fa => if mem_str fa stream_excluded then Err EValue else Ok fa\n"
        "    end\n"
        "  else match force_as with\n"
        "       | None => infer w sf rfilename\n"
        "       | Some fa => Ok fa\n"
        "       end.\n\n"
    )
    # ---- dispatch
    chain, lits = [], []
    cur = disp

    def dtest(t):
        if isinstance(t, ast.BoolOp) and isinstance(t.op, ast.Or):
            return "(%s)" % " || ".join(dtest(v) for v in t.values)
        if isinstance(t, ast.Compare) and is_name(t.left, "force_as") and len(t.ops) == 1:
            if isinstance(t.ops[0], ast.Eq) and is_str(t.comparators[0]):
                lits.append(t.comparators[0].value)
                return "eqb_str force_as %s" % slit(t.comparators[0].value)
            if isinstance(t.ops[0], ast.In) and is_attr(t.comparators[0], "config", "SOUNDFILE_SUPPORTED_FILE_TYPES"):
                return "mem_str force_as sf"
        raise Unsupported("dispatch test %s" % ast.unparse(t))

    def reader_call(st):
        if not (isinstance(st, ast.Assign) and is_name(st.targets[0], "data") and isinstance(st.value, ast.Call)):
            return None
        c = st.value
        if not isinstance(c.func, ast.Name):
            return None
        a = c.args
        if not (len(a) == 3 and is_name(a[0], "rfilename") and is_name(a[1], "dtype") and is_name(a[2], "key")):
            raise Unsupported("reader arguments in %s" % ast.unparse(st))
        return c.func.id

    while True:
        c = dtest(cur.test)
        body = [s for s in cur.body if not isinstance(s, (ast.ImportFrom, ast.Import, ast.Assert))]
        if len(body) != 1:
            raise Unsupported("dispatch branch body %s" % ast.unparse(cur.body[0]))
        st = body[0]
        if isinstance(st, ast.Try):
            # scipy first, the wave module when scipy cannot be imported
            if not (
                len(st.body) == 1
                and reader_call(st.body[0]) == "_scipy_io_read_signal"
                and len(st.handlers) == 1
                and is_name(st.handlers[0].type, "ImportError")
                and len(st.handlers[0].body) == 1
                and reader_call(st.handlers[0].body[0]) == "_wave_read_signal"
                and not st.orelse
                and not st.finalbody
            ):
                raise Unsupported("wav branch")
            rd = "RWav"
        else:
            name = reader_call(st)
            if name not in READERS:
                raise Unsupported("reader %s" % name)
            rd = READERS[name]
        chain.append((c, rd))
        if len(cur.orelse) == 1 and isinstance(cur.orelse[0], ast.If):
            cur = cur.orelse[0]
            continue
        if cur.orelse and exc_name(cur.orelse[-1]) == "ValueError":
            # the statements before the raise only build the message
            for s in cur.orelse[:-1]:
                if not isinstance(s, (ast.Assign, ast.AugAssign, ast.If)):
                    raise Unsupported("else branch statement %s" % ast.unparse(s)[:60])
                for n in ast.walk(s):
                    if isinstance(n, (ast.Raise, ast.Return)):
                        raise Unsupported("else branch escapes before its raise")
                    if isinstance(n, ast.Name) and isinstance(n.ctx, ast.Store) and n.id not in ("msg", "avail_force_as"):
                        raise Unsupported("else branch assigns %s" % n.id)
            break
        raise Unsupported("the dispatch chain does not end in 'raise ValueError'")
    out += "(* read_signal, the dispatch chain *)\n"
    out += "Definition dispatch (sf : list str) (force_as : str) : res reader :=\n"
    for i, (c, rd) in enumerate(chain):
        out += "  %s %s then Ok %s\n" % ("if" if i == 0 else "else if", c, rd)
    out += "  else Err EValue.\n\n"
    out += "Definition dispatch_literals : list str :=\n  [%s].\n\n" % "; ".join(slit(s) for s in lits)
    return out


# --------------------------------------------------------------------------
# simple readers (glue around a codec)


def tr_npy(fn, name, codec_pat, coqname, what):
    stmts, _ = normalised(fn)
    if not stmts or not same([stmts[0]], p("v0 = " + codec_pat)):
        raise Unsupported("%s: first statement %s" % (name, ast.unparse(stmts[0]) if stmts else ""))
    cast_tail(stmts[1:], "v0")
    return (
        "(* %s: %s; if dtype: astype; return *)\n"
        "Definition %s (load : res arr) (dtype : option dtype) (key : option str) : res arr :=\n"
        "  bind load (fun data => Ok (cast_opt dtype data)).\n\n" % (name, what, coqname)
    )


def tr_npz(fn):
    stmts, _ = normalised(fn)
    if len(stmts) != 4 or not same([stmts[0]], p("v0 = np.load(rfilename, **kwargs)")):
        raise Unsupported("_numpy_archive_read_signal: load statement")
    s = stmts[1]
    if not (
        isinstance(s, ast.If)
        and is_name(s.test, "key")
        and same(s.body, p("v1 = v0[key]"))
        and len(s.orelse) == 1
        and isinstance(s.orelse[0], ast.Assign)
        and is_name(s.orelse[0].targets[0], "v1")
        and isinstance(s.orelse[0].value, ast.Subscript)
        and is_name(s.orelse[0].value.value, "v0")
        and is_str(s.orelse[0].value.slice)
    ):
        raise Unsupported("_numpy_archive_read_signal: key selection")
    default = s.orelse[0].value.slice.value
    cast_tail(stmts[2:], "v1")
    return (
        "(* _numpy_archive_read_signal: np.load; archive[key] if key else archive[default]; cast *)\n"
        "Definition npz_default_key : str := %s.\n"
        "Definition glue_npz (load : res (list (str * arr))) (dtype : option dtype) (key : option str) : res arr :=\n"
        "  bind load (fun archive =>\n"
        "  let k := if truthy_str key then match key with Some k => k | None => [] end else npz_default_key in\n"
        "  match assoc k archive with\n"
        "  | Some data => Ok (cast_opt dtype data)\n"
        "  | None => Err EKey\n"
        "  end).\n\n" % slit(default)
    )


def tr_fromfile(fn):
    stmts, _ = normalised(fn)
    pat = p(
        "if dtype:\n    v0 = np.fromfile(rfilename, dtype=dtype, **kwargs)\n"
        "else:\n    v0 = np.fromfile(rfilename, **kwargs)\nreturn v0"
    )
    if not same(stmts, pat):
        raise Unsupported("_numpy_fromfile_read_signal body")
    return (
        "(* _numpy_fromfile_read_signal: dtype is the element type the bytes are read as\n"
        "   (np.fromfile's default, float64, without it); there is no second-stage cast *)\n"
        "Definition glue_file (fromfile : dtype -> res arr) (dtype : option dtype) (key : option str) : res arr :=\n"
        "  match dtype with Some d => fromfile d | None => fromfile F64 end.\n\n"
    )


def tr_soundfile(fn):
    stmts, _ = normalised(fn)
    if len(stmts) != 3 or not isinstance(stmts[0], ast.With):
        raise Unsupported("_soundfile_read_signal: expected 'with ..; cast; return'")
    wi = stmts[0]
    if not (
        len(wi.items) == 1
        and same([wi.items[0].context_expr], [p("soundfile.SoundFile(rfilename, **kwargs)")[0].value])
        and is_name(wi.items[0].optional_vars, "v0")
    ):
        raise Unsupported("_soundfile_read_signal: with item")
    if len(wi.body) != 2 or not isinstance(wi.body[0], ast.If):
        raise Unsupported("_soundfile_read_signal: with body")
    if not same([wi.body[1]], p("v2 = v0.read(dtype=v1)")):
        raise Unsupported("_soundfile_read_signal: read call %s" % ast.unparse(wi.body[1]))
    cast_tail(stmts[1:], "v2")

    def npdt(e):
        if isinstance(e, ast.Attribute) and is_name(e.value, "np") and e.attr in NP_DTYPES:
            return NP_DTYPES[e.attr]
        raise Unsupported("dtype expression %s" % ast.unparse(e))

    def stest(t):
        if not (isinstance(t, ast.Compare) and is_attr(t.left, "v0", "subtype") and len(t.ops) == 1):
            raise Unsupported("subtype test %s" % ast.unparse(t))
        c = t.comparators[0]
        if isinstance(t.ops[0], ast.Eq) and is_str(c):
            return "eqb_str subtype %s" % slit(c.value)
        if isinstance(t.ops[0], ast.Eq) and isinstance(c, (ast.Set, ast.List, ast.Tuple, ast.Dict)):
            # a str never equals a set/list/tuple/dict object
            return "(* subtype == %s : a str never equals a container *) false" % ast.unparse(c).replace("*)", "")
        if isinstance(t.ops[0], ast.In) and isinstance(c, (ast.Set, ast.List, ast.Tuple)) and all(is_str(e) for e in c.elts):
            return "mem_str subtype [%s]" % "; ".join(slit(e.value) for e in sorted(c.elts, key=lambda e: e.value))
        raise Unsupported("subtype test %s" % ast.unparse(t))

    chain = []
    cur = wi.body[0]
    while True:
        if not (len(cur.body) == 1 and isinstance(cur.body[0], ast.Assign) and is_name(cur.body[0].targets[0], "v1")):
            raise Unsupported("subtype branch body")
        chain.append((stest(cur.test), npdt(cur.body[0].value)))
        if len(cur.orelse) == 1 and isinstance(cur.orelse[0], ast.If):
            cur = cur.orelse[0]
            continue
        if len(cur.orelse) == 1 and isinstance(cur.orelse[0], ast.Assign) and is_name(cur.orelse[0].targets[0], "v1"):
            default = npdt(cur.orelse[0].value)
            break
        raise Unsupported("subtype chain end")
    out = "(* _soundfile_read_signal: element type of the first-stage sf.read by subtype *)\n"
    out += "Definition soundfile_dtype (subtype : str) : dtype :=\n"
    for i, (c, d) in enumerate(chain):
        out += "  %s %s then %s\n" % ("if" if i == 0 else "else if", c, d)
    out += "  else %s.\n\n" % default
    out += (
        "(* _soundfile_read_signal: open; dtype_ by subtype; sf.read(dtype=dtype_); cast; return *)\n"
        "Definition glue_soundfile (opened : res (str * (dtype -> res arr))) (dtype : option dtype)\n"
        "    (key : option str) : res arr :=\n"
        "  bind opened (fun sf => bind (snd sf (soundfile_dtype (fst sf))) (fun data => Ok (cast_opt dtype data))).\n\n"
    )
    return out


def tr_wave_tail(fn):
    """Only the shape 'open; try: ... finally: close; cast; return' is checked here;
    the decoding in the try block is modelled by hand (C11/Model.v) and tied by
    the correspondence."""
    stmts, _ = normalised(fn)
    # (since /repo 2399cdc) the data is opened with mode "rb" unless the caller names one: a statement that only
    # affects which streams wave.open accepts, not the decoding
    if stmts and ast.unparse(stmts[0]).replace('"', "'") == "kwargs.setdefault('mode', 'rb')":
        stmts = stmts[1:]
    if len(stmts) != 4 or not isinstance(stmts[1], ast.Try) or not stmts[1].finalbody or stmts[1].handlers:
        raise Unsupported("_wave_read_signal: expected 'open; try/finally; cast; return'")
    # the variable that holds the data is the one returned
    r = stmts[3]
    if not (isinstance(r, ast.Return) and isinstance(r.value, ast.Name)):
        raise Unsupported("_wave_read_signal: return")
    cast_tail(stmts[2:], r.value.id)
    return ""


def tr_wds(fn):
    args = [a.arg for a in fn.args.args]
    if len(args) != 2:
        raise Unsupported("wds_read_signal signature")
    stmts = body_of(fn)
    if len(stmts) != 1 or not isinstance(stmts[0], ast.Try):
        raise Unsupported("wds_read_signal is not a single try statement")
    t = stmts[0]
    pat = p(
        "v = _infer_force_as_from_rfilename(%s)\nreturn read_signal(io.BytesIO(%s), force_as=v)" % (args[0], args[1])
    )
    body, _ = None, None
    b = ast.Module(body=t.body, type_ignores=[])
    r = Renamer(args)
    r.map.update({})
    # rename the single local to v
    for n in ast.walk(b):
        if isinstance(n, ast.Name) and isinstance(n.ctx, ast.Store):
            loc = n.id
            break
    else:
        raise Unsupported("wds_read_signal body")
    for n in ast.walk(b):
        if isinstance(n, ast.Name) and n.id == loc:
            n.id = "v"
    if not same(b.body, pat):
        raise Unsupported("wds_read_signal try body: %s" % ast.unparse(b)[:100])
    if t.orelse or t.finalbody or len(t.handlers) != 1:
        raise Unsupported("wds_read_signal handlers")
    h = t.handlers[0]
    catches_all = h.type is None or (isinstance(h.type, ast.Name) and h.type.id in ("BaseException", "Exception"))
    if not catches_all:
        raise Unsupported("wds_read_signal no longer catches every exception (except %s)" % ast.unparse(h.type))
    if not same(h.body, p("return None")) and not same(h.body, p("return")):
        raise Unsupported("wds_read_signal handler does not return None")
    return (
        "(* wds_read_signal: try: infer(key); return read_signal(BytesIO(data), force_as=..)\n"
        "   except <everything>: return None *)\n"
        "Definition wds_glue (w : Z -> bool) (sf : list str) (read_stream : str -> res arr) (key : str)\n"
        "    : option arr :=\n"
        "  match infer w sf key with\n"
        "  | Err _ => None\n"
        "  | Ok fa => match read_stream fa with Ok a => Some a | Err _ => None end\n"
        "  end.\n\n"
    )


# --------------------------------------------------------------------------
# config.py


def tr_config(src):
    tree = ast.parse(src)
    base = None
    inter_ok = False
    for node in ast.walk(tree):
        if isinstance(node, ast.Assign) and len(node.targets) == 1 and is_name(node.targets[0], "_BASE_SOUNDFILE_SUPPORTED_TYPES"):
            if not (isinstance(node.value, ast.Set) and all(is_str(e) for e in node.value.elts)):
                raise Unsupported("_BASE_SOUNDFILE_SUPPORTED_TYPES is not a set literal of strings")
            base = sorted(e.value for e in node.value.elts)
        if isinstance(node, ast.Assign) and len(node.targets) == 1 and is_name(node.targets[0], "SOUNDFILE_SUPPORTED_FILE_TYPES"):
            v = node.value
            if isinstance(v, ast.BinOp) and isinstance(v.op, ast.BitAnd):
                names = {v.left.id if isinstance(v.left, ast.Name) else None, v.right.id if isinstance(v.right, ast.Name) else None}
                if names == {"_BASE_SOUNDFILE_SUPPORTED_TYPES", "_FULL_SOUNDFILE_SUPPORTED_TYPES"}:
                    inter_ok = True
    if base is None:
        raise Unsupported("config._BASE_SOUNDFILE_SUPPORTED_TYPES not found")
    if not inter_ok:
        raise Unsupported("SOUNDFILE_SUPPORTED_FILE_TYPES is no longer base & full")
    for s in base:
        if "." in s:
            raise Unsupported("soundfile type %r contains a dot" % s)
    return (
        "(* config._BASE_SOUNDFILE_SUPPORTED_TYPES; SOUNDFILE_SUPPORTED_FILE_TYPES is its intersection\n"
        "   with what libsndfile offers, i.e. some subset of it (the [sf] parameter below) *)\n"
        "Definition base_soundfile_types : list str :=\n  [%s].\n\n" % "; ".join(slit(s) for s in base)
    )


def translate(util_src, config_src):
    tree = ast.parse(util_src)
    fns = {n.name: n for n in tree.body if isinstance(n, ast.FunctionDef)}
    need = [
        "_infer_force_as_from_rfilename", "read_signal", "wds_read_signal", "_numpy_binary_read_signal",
        "_numpy_archive_read_signal", "_torch_read_signal", "_numpy_fromfile_read_signal",
        "_soundfile_read_signal", "_wave_read_signal", "_hdf5_read_signal",
    ]
    for n in need:
        if n not in fns:
            raise Unsupported("function %s not found in util.py" % n)
    out = [
        "(* GENERATED by /verif/gen/readsig.py from src/pydrobert/speech/util.py and config.py - do not edit *)",
        "From Coq Require Import ZArith List Bool.",
        "From Verif Require Import lib.C11_Base.",
        "Import ListNotations.",
        "Open Scope Z_scope.",
        "",
        tr_config(config_src),
        "(* _infer_force_as_from_rfilename *)",
        tr_infer(fns["_infer_force_as_from_rfilename"]),
        tr_read_signal(fns["read_signal"]),
        tr_npy(fns["_numpy_binary_read_signal"], "_numpy_binary_read_signal", "np.load(rfilename, **kwargs)", "glue_npy", "np.load"),
        tr_npy(fns["_torch_read_signal"], "_torch_read_signal", "torch.load(rfilename, map_location='cpu', **kwargs).numpy()", "glue_pt", "torch.load(..).numpy()"),
        tr_npz(fns["_numpy_archive_read_signal"]),
        tr_fromfile(fns["_numpy_fromfile_read_signal"]),
        tr_soundfile(fns["_soundfile_read_signal"]),
        tr_wave_tail(fns["_wave_read_signal"]),
        tr_wds(fns["wds_read_signal"]),
    ]
    return "\n".join(out)


def main(util_path, config_path, out_path):
    text = translate(open(util_path).read(), open(config_path).read())
    if not os.path.exists(out_path) or open(out_path).read() != text:
        os.makedirs(os.path.dirname(out_path), exist_ok=True)
        open(out_path, "w").write(text)
    return text


if __name__ == "__main__":
    print(main(sys.argv[1], sys.argv[2], sys.argv[3]))
