"""Translate the class/alias registry of pydrobert/speech into coq/gen/C08_Registry.v.

What is extracted from the sources (Python ``ast``, nothing is imported or run):

* every class that derives (transitively) from ``alias.AliasedFactory``, with its base,
  in *registration order*: the order in which the class statements execute when
  the package and then its modules are imported in the order ``module_order``
  returns (a simulation of Python's import of top-level ``import`` statements);
  the identity of a class is its index in that order (0 = AliasedFactory), so a
  larger identity means "registered later";
* its ``aliases`` attribute (own literal, else inherited);
* whether it is abstract (abstract methods not yet overridden);
* the keyword-bindable parameters of its ``__init__`` (own or inherited), which are
  required, whether there is a ``**kwargs``;
* which parameters its ``__init__`` passes through
  ``alias_factory_subclass_from_arg(Family, param)``, in source order, whether
  the call is guarded by ``if param is None: ... else: <call>``, and which
  registry class the parameter's type annotation names.

* the text of ``class AliasedFactory`` itself is PINNED (``PINNED_ALIASED_FACTORY``): the
  Coq model ``C08/Model.v`` (``run``: stack, ``seen``, ``match``, comparison of
  ``_registration_index``; the hypothesis "registration indices are distinct and grow with
  every class creation") was written for exactly these statements.  Docstrings aside, the
  class body must be the pinned one statement for statement (``ast.dump`` equality), and
  nothing else in the package may assign ``_registration_index`` / ``_num_registered`` or
  define ``__init_subclass__``.  Differences are returned as ``reg["pin_problems"]``.  A textual
  difference is not by itself a defect (behaviour-preserving rewrites exist): harness/c08.py logs
  and counts it, doubles the correspondence on run-time class hierarchies (which then is the
  only tie of from_alias to the model) and reports it as a broken tie only when its switch
  ``PIN_IS_FATAL`` is set.

Fail closed: any construct that is not recognised raises ``Unsupported`` and the
check treats the tie as broken.
"""

import ast
import os
import sys

sys.path.insert(0, os.path.dirname(os.path.abspath(__file__)))
from pyexpr import Unsupported  # noqa: E402

PKG = "pydrobert.speech"
ROOT = ("alias", "AliasedFactory")
FROM_ARG = ("alias", "alias_factory_subclass_from_arg")
MUTATORS = {"add", "update", "discard", "remove", "clear", "pop", "difference_update",
            "intersection_update", "symmetric_difference_update"}


# The source text of alias.AliasedFactory that coq/C08/Model.v models (docstrings removed).
PINNED_ALIASED_FACTORY = '''
class AliasedFactory(abc.ABC):
    aliases: Set[str] = set()

    _num_registered: int = 0
    _registration_index: int = 0

    def __init_subclass__(cls, **kwargs):
        super().__init_subclass__(**kwargs)
        AliasedFactory._num_registered += 1
        cls._registration_index = AliasedFactory._num_registered

    @classmethod
    def from_alias(cls: Type[T], alias: str, *args, **kwargs) -> T:
        match = None
        stack = [cls]
        seen = set()
        while stack:
            subclass = stack.pop()
            if subclass in seen:
                continue
            seen.add(subclass)
            stack.extend(subclass.__subclasses__())
            if alias in subclass.aliases and (
                match is None
                or subclass._registration_index > match._registration_index
            ):
                match = subclass
        if match is None:
            raise ValueError(f"Cannot find subclass with alias '{alias}'")
        return match(*args, **kwargs)
'''
PINNED_ATTRS = ("_num_registered", "_registration_index")


def _strip_docstrings(body):
    """Statements of a class / function body without bare string expressions (docstrings,
    attribute docstrings); function bodies are stripped recursively."""
    out = []
    for st in body:
        if isinstance(st, ast.Expr) and isinstance(st.value, ast.Constant) and isinstance(st.value.value, str):
            continue
        if isinstance(st, (ast.FunctionDef, ast.AsyncFunctionDef)):
            st = type(st)(**{f: getattr(st, f, None) for f in st._fields})
            st.body = _strip_docstrings(st.body) or [ast.Pass()]
        out.append(st)
    return out


def _item_name(st):
    if isinstance(st, (ast.FunctionDef, ast.AsyncFunctionDef, ast.ClassDef)):
        return st.name
    if isinstance(st, ast.AnnAssign) and isinstance(st.target, ast.Name):
        return st.target.id
    if isinstance(st, ast.Assign) and len(st.targets) == 1 and isinstance(st.targets[0], ast.Name):
        return st.targets[0].id
    return type(st).__name__


def pin_problems(mods):
    """Differences between alias.AliasedFactory and the text the Coq model was written for."""
    problems = []
    pinned = ast.parse(PINNED_ALIASED_FACTORY).body[0]
    actual = None
    for st in mods["alias"].tree.body:
        if isinstance(st, ast.ClassDef) and st.name == ROOT[1]:
            actual = st
    if actual is None:
        return ["class AliasedFactory not found at the top level of alias.py"]
    head = lambda c: (ast.dump(ast.Tuple(elts=c.bases)), [ast.dump(k) for k in c.keywords], [ast.dump(d) for d in c.decorator_list])  # noqa: E731
    if head(actual) != head(pinned):
        problems.append("the class statement of AliasedFactory (bases / keywords / decorators) differs from the pinned one")
    want = {_item_name(st): ast.dump(st) for st in _strip_docstrings(pinned.body)}
    order = [_item_name(st) for st in _strip_docstrings(pinned.body)]
    got_items = _strip_docstrings(actual.body)
    got = {}
    for st in got_items:
        n = _item_name(st)
        if n in got:
            problems.append("AliasedFactory defines %s twice" % n)
        got[n] = ast.dump(st)
    for n in order:
        if n not in got:
            problems.append("AliasedFactory.%s is missing (the model relies on it)" % n)
        elif got[n] != want[n]:
            problems.append("AliasedFactory.%s differs from the source text the model was written for" % n)
    for n in got:
        if n not in want:
            problems.append("AliasedFactory has an additional member %s that the model does not know" % n)
    if not problems and [_item_name(st) for st in got_items] != order:
        problems.append("the members of AliasedFactory are not in the pinned order")
    # nobody else may touch the registration counter / index
    for m in mods.values():
        for node in ast.walk(m.tree):
            inside_root = False
            if isinstance(node, (ast.Attribute, ast.Name)):
                name = node.attr if isinstance(node, ast.Attribute) else node.id
                if name in PINNED_ATTRS and isinstance(node.ctx, (ast.Store, ast.Del)):
                    if m.name == "alias" and any(node is x for x in ast.walk(actual)):
                        inside_root = True
                    if not inside_root:
                        problems.append("%s is assigned outside class AliasedFactory (line %d of %s)" % (name, node.lineno, m.name or "__init__"))
            if isinstance(node, ast.Constant) and node.value in PINNED_ATTRS:
                problems.append("the string %r occurs in %s (line %d): possible indirect access" % (node.value, m.name or "__init__", node.lineno))
    return problems


class Module:
    def __init__(self, name, tree):
        self.name = name  # "" for the package __init__
        self.tree = tree
        self.names = {}  # local name -> (module, original name) for package-internal objects
        self.mod_alias = {}  # local name -> module (import pydrobert.speech.x as y)


def _internal(modname, level, cur):
    """Resolve an import target to a package-internal module name ("" = package) or None."""
    if level:
        # relative import from module cur (all modules live directly in the package)
        if level == 2:
            # `from .. import speech`, `from ..speech.x import y`
            leaf = PKG.split(".")[-1]
            if modname is None:
                return "<parent>"
            if modname == leaf:
                return ""
            if modname.startswith(leaf + "."):
                return modname[len(leaf) + 1:]
            return None
        if level != 1:
            raise Unsupported("relative import level %d in %s" % (level, cur))
        return modname or ""
    if modname == PKG:
        return ""
    if modname and modname.startswith(PKG + "."):
        return modname[len(PKG) + 1:]
    return None


def _toplevel_stmts(body):
    """Statements executed at import: module body, descending into try/if/with blocks."""
    for st in body:
        if isinstance(st, ast.Try):
            yield from _toplevel_stmts(st.body)
            for h in st.handlers:
                # handlers run only on failure; imports there are fallbacks
                pass
            yield from _toplevel_stmts(st.orelse)
            yield from _toplevel_stmts(st.finalbody)
        elif isinstance(st, ast.If):
            # e.g. `if config.USE_FFTPACK:` - a class statement under a condition cannot
            # be placed statically
            for sub in ast.walk(st):
                if isinstance(sub, ast.ClassDef):
                    raise Unsupported("class statement under a condition (line %d)" % sub.lineno)
            yield st
        elif isinstance(st, ast.With):
            yield from _toplevel_stmts(st.body)
        else:
            yield st


def load(src_dir):
    mods = {}
    for fn in sorted(os.listdir(src_dir)):
        if not fn.endswith(".py"):
            continue
        name = "" if fn == "__init__.py" else fn[:-3]
        with open(os.path.join(src_dir, fn)) as f:
            mods[name] = Module(name, ast.parse(f.read(), fn))
    if "" not in mods or "alias" not in mods:
        raise Unsupported("package __init__.py / alias.py not found in %s" % src_dir)
    for m in mods.values():
        for st in _toplevel_stmts(m.tree.body):
            if isinstance(st, ast.ImportFrom):
                tgt = _internal(st.module, st.level, m.name)
                if tgt is None:
                    continue
                if tgt == "<parent>":
                    for a in st.names:
                        if a.name == PKG.split(".")[-1]:
                            m.mod_alias[a.asname or a.name] = ""
                    continue
                for a in st.names:
                    if a.name == "*":
                        raise Unsupported("star import in %s" % m.name)
                    local = a.asname or a.name
                    if tgt == "" and a.name in mods:
                        m.mod_alias[local] = a.name  # from pydrobert.speech import config
                    else:
                        m.names[local] = (tgt, a.name)
            elif isinstance(st, ast.Import):
                for a in st.names:
                    tgt = _internal(a.name, 0, m.name)
                    if tgt is not None and a.asname:
                        m.mod_alias[a.asname] = tgt
            elif isinstance(st, ast.ClassDef):
                m.names[st.name] = (m.name, st.name)
            elif isinstance(st, ast.FunctionDef):
                m.names.setdefault(st.name, (m.name, st.name))
    return mods


def resolve(mods, m, node, depth=0):
    """Resolve an expression naming a package-internal object to (module, name) or None."""
    if depth > 10:
        return None
    if isinstance(node, ast.Name):
        if node.id in m.names:
            tgt, orig = m.names[node.id]
            if tgt == m.name:
                return (tgt, orig)
            if tgt not in mods:
                return None
            # follow re-exports
            m2 = mods[tgt]
            if orig in m2.names and m2.names[orig] != (tgt, orig):
                return resolve(mods, m2, ast.Name(id=orig), depth + 1)
            return (tgt, orig)
        return None
    if isinstance(node, ast.Attribute):
        # module.attr
        if isinstance(node.value, ast.Name) and node.value.id in m.mod_alias:
            tgt = m.mod_alias[node.value.id]
            return resolve(mods, mods[tgt], ast.Name(id=node.attr), depth + 1) if tgt in mods else None
        # pydrobert.speech.x.attr
        parts = []
        n = node
        while isinstance(n, ast.Attribute):
            parts.append(n.attr)
            n = n.value
        if isinstance(n, ast.Name):
            parts.append(n.id)
            parts.reverse()
            dotted = ".".join(parts[:-1])
            tgt = _internal(dotted, 0, m.name)
            if tgt is not None and tgt in mods:
                return resolve(mods, mods[tgt], ast.Name(id=parts[-1]), depth + 1)
        return None
    return None


def module_order(mods):
    """Entry order in which the harness imports the modules (package first, then
    ``__all__`` of the package, then the remaining modules alphabetically)."""
    entry = [""]
    allv = None
    for st in mods[""].tree.body:
        if isinstance(st, ast.Assign) and len(st.targets) == 1 and isinstance(st.targets[0], ast.Name) \
                and st.targets[0].id == "__all__" and isinstance(st.value, (ast.List, ast.Tuple)):
            allv = [e.value for e in st.value.elts if isinstance(e, ast.Constant) and isinstance(e.value, str)]
    for n in (allv or []):
        if n in mods and n not in entry:
            entry.append(n)
    for n in sorted(mods):
        if n not in entry:
            entry.append(n)
    return entry


def class_statements(mods, entry):
    """All top-level class statements in execution order of a simulated import."""
    done, order = set(), []

    def run(name):
        if name in done or name not in mods:
            return
        done.add(name)
        if name != "":
            run("")  # importing a submodule imports the package first
        m = mods[name]
        for st in _toplevel_stmts(m.tree.body):
            if isinstance(st, ast.ImportFrom):
                tgt = _internal(st.module, st.level, m.name)
                if tgt is None:
                    continue
                if tgt == "<parent>":
                    run("")
                    continue
                run(tgt)
                if tgt == "":
                    for a in st.names:
                        if a.name in mods:
                            run(a.name)
            elif isinstance(st, ast.Import):
                for a in st.names:
                    tgt = _internal(a.name, 0, m.name)
                    if tgt is not None:
                        run(tgt)
            elif isinstance(st, ast.ClassDef):
                order.append((m, st))

    for n in entry:
        run(n)
    return order


def _is_abstract_decorated(fn):
    for d in fn.decorator_list:
        name = d.attr if isinstance(d, ast.Attribute) else d.id if isinstance(d, ast.Name) else None
        if name in ("abstractmethod", "abstractproperty", "abstractclassmethod", "abstractstaticmethod"):
            return True
    return False


def _alias_literal(node):
    """A literal set/list/tuple of strings, ``set()`` or ``frozenset(..)`` -> sorted list."""
    if isinstance(node, (ast.Set, ast.List, ast.Tuple)):
        vals = []
        for e in node.elts:
            if not (isinstance(e, ast.Constant) and isinstance(e.value, str)):
                raise Unsupported("non-literal alias (line %d)" % node.lineno)
            vals.append(e.value)
        return sorted(set(vals))
    if isinstance(node, ast.Call) and isinstance(node.func, ast.Name) and node.func.id in ("set", "frozenset"):
        if not node.args and not node.keywords:
            return []
        if len(node.args) == 1 and not node.keywords:
            return _alias_literal(node.args[0])
    raise Unsupported("aliases is not a literal set of strings (line %d)" % node.lineno)


class Cls:
    pass


def extract(src_dir):
    mods = load(src_dir)
    entry = module_order(mods)
    stmts = class_statements(mods, entry)
    # nested class statements deriving from the registry cannot be placed: detect below
    toplevel = {id(st) for _, st in stmts}
    classes = {}  # (module, name) -> Cls
    order = []
    for m, st in stmts:
        key = (m.name, st.name)
        regbases = []
        for b in st.bases:
            r = resolve(mods, m, b)
            if r is not None and (r in classes):
                regbases.append(r)
        is_root = key == ROOT
        if not is_root and not regbases:
            continue
        if key in classes:
            raise Unsupported("class %s.%s defined twice" % key)
        if len(st.bases) != 1 and not is_root:
            raise Unsupported("multiple inheritance in the registry: %s.%s" % key)
        if st.keywords:
            raise Unsupported("class keywords (metaclass) on %s.%s" % key)
        c = Cls()
        c.key, c.module, c.name, c.node = key, m, st.name, st
        c.base = None if is_root else regbases[0]
        c.id = len(order)
        order.append(c)
        classes[key] = c
    if ROOT not in classes or classes[ROOT].id != 0:
        raise Unsupported("AliasedFactory is not the first registered class")
    # classes defined anywhere else (inside functions/classes) deriving from the registry
    names = {c.name for c in order}
    for m in mods.values():
        for node in ast.walk(m.tree):
            if isinstance(node, ast.ClassDef) and id(node) not in toplevel:
                for b in node.bases:
                    bn = b.id if isinstance(b, ast.Name) else b.attr if isinstance(b, ast.Attribute) else None
                    if bn in names:
                        raise Unsupported("class %s (line %d of %s) is defined in a nested scope" % (node.name, node.lineno, m.name))
            # run-time manipulation of the alias sets
            if isinstance(node, ast.Attribute) and node.attr == "aliases" and isinstance(node.ctx, (ast.Store, ast.Del)):
                raise Unsupported("assignment to .aliases (line %d of %s)" % (node.lineno, m.name))
            if isinstance(node, ast.Call) and isinstance(node.func, ast.Attribute) and node.func.attr in MUTATORS \
                    and isinstance(node.func.value, ast.Attribute) and node.func.value.attr == "aliases":
                raise Unsupported("mutation of .aliases (line %d of %s)" % (node.lineno, m.name))
            if isinstance(node, ast.AugAssign) and isinstance(node.target, ast.Attribute) and node.target.attr == "aliases":
                raise Unsupported("augmented assignment to .aliases (line %d of %s)" % (node.lineno, m.name))
            if isinstance(node, ast.Call) and isinstance(node.func, ast.Name) and node.func.id in ("setattr", "delattr"):
                raise Unsupported("setattr/delattr (line %d of %s)" % (node.lineno, m.name))
    # per class: aliases, abstractness, __init__
    for c in order:
        base = classes[c.base] if c.base else None
        own_aliases = None
        abstract = set(base.abstract) if base else set()
        init = None
        for item in c.node.body:
            if isinstance(item, (ast.FunctionDef, ast.AsyncFunctionDef)):
                if _is_abstract_decorated(item):
                    abstract.add(item.name)
                else:
                    abstract.discard(item.name)
                if item.name == "__init__":
                    init = item
                if item.name in ("__new__", "__init_subclass__", "__class_getitem__", "__subclasshook__"):
                    # AliasedFactory.__init_subclass__ hands out the registration indices: its text is
                    # pinned (pin_problems); no other class may interfere with class creation
                    if not (c.key == ROOT and item.name == "__init_subclass__"):
                        raise Unsupported("%s defines %s" % (c.name, item.name))
            elif isinstance(item, ast.Assign):
                for t in item.targets:
                    if isinstance(t, ast.Name):
                        abstract.discard(t.id)
                        if t.id == "aliases":
                            own_aliases = _alias_literal(item.value)
                        if t.id in ("__init__", "__new__", "from_alias", "__subclasses__"):
                            raise Unsupported("%s assigns %s" % (c.name, t.id))
                    else:
                        raise Unsupported("class-level assignment target in %s" % c.name)
            elif isinstance(item, ast.AnnAssign):
                if isinstance(item.target, ast.Name) and item.value is not None:
                    abstract.discard(item.target.id)
                    if item.target.id == "aliases":
                        own_aliases = _alias_literal(item.value)
            elif isinstance(item, (ast.Expr, ast.Pass)):
                pass
            else:
                raise Unsupported("class body statement in %s: %s" % (c.name, type(item).__name__))
        c.own_aliases = own_aliases
        c.aliases = own_aliases if own_aliases is not None else (base.aliases if base else [])
        c.abstract = sorted(abstract)
        c.own_init = init
        c.init_owner = c if init is not None else (base.init_owner if base else None)
    # from_alias overridden?  (the deprecated wrapper in __init__.py delegates to super())
    for c in order:
        for item in c.node.body:
            if isinstance(item, ast.FunctionDef) and item.name == "from_alias" and c.key != ROOT:
                ok = False
                for st in item.body:
                    if isinstance(st, ast.Return) and isinstance(st.value, ast.Call):
                        f = st.value.func
                        if isinstance(f, ast.Attribute) and f.attr == "from_alias" and isinstance(f.value, ast.Call) \
                                and isinstance(f.value.func, ast.Name) and f.value.func.id == "super":
                            ok = True
                if not ok:
                    raise Unsupported("%s overrides from_alias" % c.name)
    for c in order:
        o = c.init_owner
        c.params, c.varkw, c.nested = [], False, []
        if o is None:
            continue
        fn, m = o.own_init, o.module
        a = fn.args
        if a.posonlyargs:
            raise Unsupported("positional-only parameters in %s.__init__" % o.name)
        pos = a.args[1:]
        nd = len(a.defaults)
        ann = {}
        for i, p in enumerate(pos):
            c.params.append((p.arg, i < len(pos) - nd))
            ann[p.arg] = p.annotation
        for p, d in zip(a.kwonlyargs, a.kw_defaults):
            c.params.append((p.arg, d is None))
            ann[p.arg] = p.annotation
        defaults = {}
        for p, d in zip(pos[len(pos) - nd:], a.defaults):
            defaults[p.arg] = d
        for p, d in zip(a.kwonlyargs, a.kw_defaults):
            if d is not None:
                defaults[p.arg] = d
        c.varkw = a.kwarg is not None
        pnames = [p for p, _ in c.params]
        # nested alias calls
        calls = []

        def is_from_arg(call):
            return isinstance(call, ast.Call) and resolve(mods, m, call.func) == FROM_ARG

        def scan(body, guard, ifnode=None):
            for st in body:
                found = [n for n in ast.walk(st) if is_from_arg(n)]
                if not found:
                    continue
                if isinstance(st, ast.Assign) and is_from_arg(st.value) and len(found) == 1:
                    calls.append((st, guard, ifnode))
                elif isinstance(st, ast.If) and guard is None and not any(is_from_arg(n) for n in ast.walk(st.test)):
                    t = st.test
                    if isinstance(t, ast.Compare) and isinstance(t.left, ast.Name) and len(t.ops) == 1 \
                            and isinstance(t.ops[0], ast.Is) and isinstance(t.comparators[0], ast.Constant) \
                            and t.comparators[0].value is None:
                        if any(is_from_arg(n) for s2 in st.body for n in ast.walk(s2)):
                            raise Unsupported("alias call in the `is None` branch of %s.__init__" % o.name)
                        scan(st.orelse, t.left.id, st)
                    else:
                        raise Unsupported("alias call under an unrecognised condition in %s.__init__ (line %d)" % (o.name, st.lineno))
                else:
                    raise Unsupported("unrecognised use of alias_factory_subclass_from_arg in %s.__init__ (line %d)" % (o.name, st.lineno))

        scan(fn.body, None)
        for st, guard, ifnode in calls:
            call = st.value
            if len(call.args) != 2 or call.keywords:
                raise Unsupported("alias call arguments in %s.__init__" % o.name)
            fam = resolve(mods, m, call.args[0])
            if fam is None or fam not in classes:
                raise Unsupported("alias call family in %s.__init__ (line %d)" % (o.name, st.lineno))
            if not isinstance(call.args[1], ast.Name) or call.args[1].id not in pnames:
                raise Unsupported("alias call on something else than a parameter in %s.__init__ (line %d)" % (o.name, st.lineno))
            p = call.args[1].id
            if guard is not None and guard != p:
                raise Unsupported("alias call guarded by another name in %s.__init__" % o.name)
            # the parameter must not have been rebound before the call
            exempt = set()
            if ifnode is not None:
                exempt = {id(x) for s2 in ifnode.body for x in ast.walk(s2)}
            for n in ast.walk(fn):
                if isinstance(n, ast.Name) and n.id == p and isinstance(n.ctx, ast.Store) and n.lineno < st.lineno \
                        and id(n) not in exempt:
                    raise Unsupported("parameter %s rebound before the alias call in %s.__init__" % (p, o.name))
            required = dict(c.params)[p]
            if guard is None and not required:
                raise Unsupported("unguarded alias parameter %s of %s has a default" % (p, o.name))
            if guard is not None:
                d = defaults.get(p)
                if required or not (isinstance(d, ast.Constant) and d.value is None):
                    raise Unsupported("guarded alias parameter %s of %s must default to None" % (p, o.name))
            annfam = None
            if ann.get(p) is not None:
                cands = []
                for n in ast.walk(ann[p]):
                    if isinstance(n, (ast.Name, ast.Attribute)):
                        r = resolve(mods, m, n)
                        if r in classes and r not in cands:
                            cands.append(r)
                if len(cands) == 1:
                    annfam = cands[0]
            c.nested.append((p, classes[fam].id, guard is not None, None if annfam is None else classes[annfam].id))
        steps = [(st.lineno, x) for (st, _, _), x in zip(calls, c.nested)]
        # super().__init__(..) forwarding parameters to a base __init__ that resolves aliases:
        # the base's resolutions happen again, on whatever the forwarded name is bound to
        for n in ast.walk(fn):
            if isinstance(n, ast.Call) and isinstance(n.func, ast.Attribute) and n.func.attr == "__init__":
                f = n.func.value
                if not (isinstance(f, ast.Call) and isinstance(f.func, ast.Name) and f.func.id == "super"):
                    raise Unsupported("explicit base __init__ call in %s.__init__" % o.name)
                b = classes[o.base] if o.base else None
                if b is None or not b.nested:
                    continue
                bparams = [p for p, _ in b.params]
                bound = {}
                for i, e in enumerate(n.args):
                    if isinstance(e, ast.Starred) or i >= len(bparams):
                        raise Unsupported("super().__init__ arguments in %s.__init__" % o.name)
                    bound[bparams[i]] = e
                for kw in n.keywords:
                    if kw.arg is None:
                        raise Unsupported("super().__init__(**..) in %s.__init__" % o.name)
                    bound[kw.arg] = kw.value
                for (bp, bfam, bg, ban) in b.nested:
                    e = bound.get(bp)
                    if e is None:
                        if bg:
                            continue
                        raise Unsupported("%s.__init__ does not pass %s to its base" % (o.name, bp))
                    if not (isinstance(e, ast.Name) and e.id in pnames):
                        raise Unsupported("%s.__init__ forwards a computed value as %s" % (o.name, bp))
                    # the forwarded name must still hold the parameter or its resolution
                    for x in ast.walk(fn):
                        if isinstance(x, ast.Name) and x.id == e.id and isinstance(x.ctx, ast.Store) and x.lineno < n.lineno:
                            ok = any(x in st.targets for (st, _, _) in calls) or any(
                                ifn is not None and id(x) in {id(y) for s2 in ifn.body for y in ast.walk(s2)} for (_, _, ifn) in calls)
                            if not ok:
                                raise Unsupported("%s rebound before being forwarded in %s.__init__" % (e.id, o.name))
                    steps.append((n.lineno, (e.id, bfam, bg, ban)))
        steps.sort(key=lambda t: t[0])
        c.nested = [x for _, x in steps]
    # display names (qualified when ambiguous)
    count = {}
    for c in order:
        count[c.name] = count.get(c.name, 0) + 1
    for c in order:
        c.display = c.name if count[c.name] == 1 or c.key == ROOT else "%s.%s" % (PKG + ("." + c.key[0] if c.key[0] else ""), c.name)
        c.qualname = PKG + ("." + c.key[0] if c.key[0] else "") + ":" + c.name
    children = {c.id: [] for c in order}
    for c in order:
        if c.base:
            children[classes[c.base].id].append(c.id)
    reg = dict(
        entry=entry,
        pin_problems=pin_problems(mods),
        classes=[
            dict(id=c.id, name=c.display, qualname=c.qualname, base=(classes[c.base].id if c.base else None),
                 aliases=c.aliases, own_aliases=c.own_aliases, abstract=bool(c.abstract),
                 params=[[p, r] for p, r in c.params], varkw=c.varkw,
                 nested=[dict(param=p, family=f, guarded=g, annotated=an) for p, f, g, an in c.nested],
                 children=children[c.id])
            for c in order
        ],
    )
    return reg


def cstr(s):
    if '"' in s or "\\" in s or any(ord(ch) < 32 or ord(ch) > 126 for ch in s):
        raise Unsupported("alias/parameter name with characters outside printable ASCII: %r" % s)
    return '"%s"' % s


def clist(xs):
    return "[" + "; ".join(xs) + "]"


def to_coq(reg):
    cl = {c["id"]: c for c in reg["classes"]}

    def tree(i, ind):
        c = cl[i]
        kids = [tree(k, ind + 2) for k in c["children"]]
        head = "%sNode %d %s" % (" " * ind, i, clist(cstr(a) for a in c["aliases"]))
        if not kids:
            return head + " []"
        return head + "\n" + " " * ind + " [" + ";\n".join(k.lstrip() if n == 0 else k for n, k in enumerate(kids)) + "]"

    out = [
        "(* GENERATED by /verif/gen/registry.py from src/pydrobert/speech/*.py - do not edit *)",
        "From Coq Require Import String.",
        "From Coq Require Import ZArith List.",
        "From Verif Require Import C08.Model.",
        "Import ListNotations.",
        "Local Open Scope string_scope.",
        "Local Open Scope Z_scope.",
        "",
        "(* class identities = registration order *)",
        "Definition reg_names : list (Z * string) :=",
        "  " + clist("(%d, %s)" % (c["id"], cstr(c["name"])) for c in reg["classes"]) + ".",
        "",
        "Definition reg_tree : ctree :=",
        tree(0, 2) + ".",
        "",
        "Definition reg_info : list cinfo :=",
        "  [" + ";\n   ".join(
            "{| ci_id := %d; ci_abstract := %s; ci_params := %s; ci_varkw := %s;\n      ci_nested := %s |}" % (
                c["id"], "true" if c["abstract"] else "false",
                clist("(%s, %s)" % (cstr(p), "true" if r else "false") for p, r in c["params"]),
                "true" if c["varkw"] else "false",
                clist("{| n_param := %s; n_family := %d; n_guarded := %s |}" % (cstr(n["param"]), n["family"], "true" if n["guarded"] else "false") for n in c["nested"]))
            for c in reg["classes"]) + "].",
        "",
        "Definition reg : registry := {| r_tree := reg_tree; r_info := reg_info |}.",
        "",
        "(* families: the direct subclasses of AliasedFactory that have subclasses *)",
        "Definition reg_families : list Z := " + clist(str(c["id"]) for c in reg["classes"] if c["base"] == 0 and c["children"]) + ".",
        "",
        "(* (class, parameter, family in the alias call, family named by the annotation) *)",
        "Definition reg_annotated : list (Z * string * Z * option Z) :=",
        "  " + clist("(%d, %s, %d, %s)" % (c["id"], cstr(n["param"]), n["family"], "None" if n["annotated"] is None else "Some %d" % n["annotated"])
                     for c in reg["classes"] for n in c["nested"]) + ".",
        "",
    ]
    return "\n".join(out)


def main(src_dir, out_path):
    if src_dir.endswith(".py"):
        src_dir = os.path.dirname(src_dir)
    reg = extract(src_dir)
    text = to_coq(reg)
    if not os.path.exists(out_path) or open(out_path).read() != text:
        os.makedirs(os.path.dirname(out_path), exist_ok=True)
        open(out_path, "w").write(text)
    return reg


if __name__ == "__main__":
    import json
    print(json.dumps(main(sys.argv[1], sys.argv[2]), indent=1))
