"""Translate the literal part of pydrobert/speech/_sphere.py that the shorten
decoder depends on into coq/gen/Shorten.v.

Generated (all over Z):

* every module-level integer constant spelled in upper case (chained and tuple
  assignments, ``<<`` ``+`` ``-`` ``*`` of earlier constants), as ``c_<NAME>``;
* ``MAGIC`` as a list of byte values;
* the tables ``ULAW_OUTWARD`` (rows of 256) and ``ULAW2PCM``;
* from the body of ``copy_shortened_samples``: the set of block commands
  (``if cmd in {...}``), the file-type bound (``if ftype >= N: raise``), the
  initial running mean per file type (the ``if ftype in {...}: mean = ..`` chain),
  the set of types that are mu-law codes (``convert = ... ftype in {...}``), and
  the accepted versions (``version == A`` / ``LO <= version <= HI``);
* from ``fix_bitshift``: the two offsets added before the table lookup.

Fail closed: anything unrecognised raises ``Unsupported`` and the check treats
the tie as broken.
"""

import ast
import os
import sys

sys.path.insert(0, os.path.dirname(os.path.abspath(__file__)))
from pyexpr import Unsupported  # noqa: E402

NEEDED = [
    "NBITPERLONG", "BUFSIZ", "POSITIVE_ULAW_ZERO", "NEGATIVE_ULAW_ZERO", "MASKTABSIZE",
    "DEFAULT_V0NMEAN", "DEFAULT_V2NMEAN", "MIN_SUPPORTED_VERSION", "MAX_SUPPORTED_VERSION",
    "FN_DIFF0", "FN_DIFF1", "FN_DIFF2", "FN_DIFF3", "FN_QUIT", "FN_BLOCKSIZE", "FN_BITSHIFT",
    "FN_QLPC", "FN_ZERO", "TYPE_AU1", "TYPE_S8", "TYPE_U8", "TYPE_S16HL", "TYPE_U16HL",
    "TYPE_S16LH", "TYPE_U16LH", "TYPE_ULAW", "TYPE_AU2", "ULONGSIZE", "LPCQSIZE", "ENERGYSIZE",
    "NWRAP", "LPCQUANT", "BITSHIFTSIZE", "FNSIZE", "XBITESIZE", "V2LPCQOFFSET",
]


def z(v):
    return "(%d)" % v if v < 0 else "%d" % v


def ev(e, env):
    if isinstance(e, ast.Constant) and isinstance(e.value, int) and not isinstance(e.value, bool):
        return e.value
    if isinstance(e, ast.Name):
        if e.id in env:
            return env[e.id]
        raise Unsupported("name %s is not an integer constant" % e.id)
    if isinstance(e, ast.UnaryOp) and isinstance(e.op, ast.USub):
        return -ev(e.operand, env)
    if isinstance(e, ast.BinOp):
        a, b = ev(e.left, env), ev(e.right, env)
        if isinstance(e.op, ast.LShift):
            return a << b
        if isinstance(e.op, ast.Add):
            return a + b
        if isinstance(e.op, ast.Sub):
            return a - b
        if isinstance(e.op, ast.Mult):
            return a * b
    raise Unsupported("constant expression %s" % ast.dump(e)[:80])


def int_set(e, env):
    if not isinstance(e, ast.Set):
        raise Unsupported("expected a set literal, got %s" % ast.dump(e)[:60])
    return sorted(set(ev(x, env) for x in e.elts))


def table(e, env):
    """np.array(<nested list of ints>, dtype=np.<t>) -> (nested list, dtype name)"""
    if not (isinstance(e, ast.Call) and isinstance(e.func, ast.Attribute) and e.func.attr == "array"
            and len(e.args) == 1):
        raise Unsupported("table is not np.array(literal)")
    dt = None
    for kw in e.keywords:
        if kw.arg == "dtype" and isinstance(kw.value, ast.Attribute):
            dt = kw.value.attr
        else:
            raise Unsupported("table keyword %s" % kw.arg)

    def rec(x):
        if isinstance(x, ast.List):
            return [rec(y) for y in x.elts]
        return ev(x, env)

    return rec(e.args[0]), dt


def collect_module(tree):
    env, tables, magic = {}, {}, None
    for node in tree.body:
        if not isinstance(node, ast.Assign):
            continue
        names = []
        for t in node.targets:
            if isinstance(t, ast.Name):
                names.append([t.id])
            elif isinstance(t, ast.Tuple) and all(isinstance(x, ast.Name) for x in t.elts):
                names.append([x.id for x in t.elts])
            else:
                names = None
                break
        if not names:
            continue
        if len(names[0]) > 1:
            # tuple assignment: A, B, C = a, b, c
            if len(names) != 1 or not isinstance(node.value, ast.Tuple) or len(node.value.elts) != len(names[0]):
                raise Unsupported("tuple assignment shape")
            for nm, v in zip(names[0], node.value.elts):
                if isinstance(v, ast.Constant) and isinstance(v.value, bytes):
                    if nm == "MAGIC":
                        magic = list(v.value)
                    continue
                if isinstance(v, ast.Constant) and isinstance(v.value, (str, float)):
                    continue
                if nm.isupper() or "_" in nm:
                    env[nm] = ev(v, env)
            continue
        flat = [n[0] for n in names]
        if isinstance(node.value, ast.Call):
            if flat[0] in ("ULAW_OUTWARD", "ULAW2PCM"):
                tables[flat[0]] = table(node.value, env)
            continue
        if isinstance(node.value, ast.Constant) and isinstance(node.value.value, bytes):
            if "MAGIC" in flat:
                magic = list(node.value.value)
            continue
        if all(n.upper() == n for n in flat):
            try:
                v = ev(node.value, env)
            except Unsupported:
                if any(n in NEEDED for n in flat):
                    raise
                continue
            for n in flat:
                env[n] = v
    return env, tables, magic


def find_func(tree, name):
    for node in tree.body:
        if isinstance(node, ast.FunctionDef) and node.name == name:
            return node
    raise Unsupported("function %s not found" % name)


def is_name(e, n):
    return isinstance(e, ast.Name) and e.id == n


def raises(body):
    return len(body) == 1 and isinstance(body[0], ast.Raise)


def collect_decoder(fn, env):
    out = {}
    block_sets, ftype_bounds, au_sets, mean_chain, versions = [], [], [], None, None
    for node in ast.walk(fn):
        if isinstance(node, ast.If):
            t = node.test
            # if cmd in {...}:
            if isinstance(t, ast.Compare) and is_name(t.left, "cmd") and len(t.ops) == 1 and isinstance(t.ops[0], ast.In):
                block_sets.append(int_set(t.comparators[0], env))
            # if ftype >= N: raise
            if (isinstance(t, ast.Compare) and is_name(t.left, "ftype") and len(t.ops) == 1
                    and isinstance(t.ops[0], ast.GtE) and raises(node.body)):
                ftype_bounds.append(ev(t.comparators[0], env))
            # if ftype in {...}: mean = v  elif ... else: raise
            if (isinstance(t, ast.Compare) and is_name(t.left, "ftype") and len(t.ops) == 1
                    and isinstance(t.ops[0], ast.In) and mean_chain is None):
                chain, cur = [], node
                while True:
                    tt = cur.test
                    if not (isinstance(tt, ast.Compare) and is_name(tt.left, "ftype") and len(tt.ops) == 1):
                        raise Unsupported("mean chain test")
                    if isinstance(tt.ops[0], ast.In):
                        s = int_set(tt.comparators[0], env)
                    elif isinstance(tt.ops[0], ast.Eq):
                        s = [ev(tt.comparators[0], env)]
                    else:
                        raise Unsupported("mean chain operator")
                    b = cur.body
                    if not (len(b) == 1 and isinstance(b[0], ast.Assign) and len(b[0].targets) == 1
                            and is_name(b[0].targets[0], "mean")):
                        raise Unsupported("mean chain body")
                    chain.append((s, ev(b[0].value, env)))
                    if len(cur.orelse) == 1 and isinstance(cur.orelse[0], ast.If):
                        cur = cur.orelse[0]
                        continue
                    if not raises(cur.orelse):
                        raise Unsupported("mean chain does not end in raise")
                    break
                mean_chain = chain
            # if version == A: .. elif LO <= version <= HI: .. else: raise
            if (isinstance(t, ast.Compare) and is_name(t.left, "version") and len(t.ops) == 1
                    and isinstance(t.ops[0], ast.Eq) and versions is None
                    and len(node.orelse) == 1 and isinstance(node.orelse[0], ast.If)):
                a = ev(t.comparators[0], env)
                t2 = node.orelse[0].test
                if not (isinstance(t2, ast.Compare) and len(t2.ops) == 2 and all(isinstance(o, ast.LtE) for o in t2.ops)
                        and is_name(t2.comparators[0], "version") and raises(node.orelse[0].orelse)):
                    raise Unsupported("version test shape")
                lo, hi = ev(t2.left, env), ev(t2.comparators[1], env)
                versions = sorted(set([a] + list(range(lo, hi + 1))))
        if isinstance(node, ast.Assign) and len(node.targets) == 1 and is_name(node.targets[0], "convert"):
            for sub in ast.walk(node.value):
                if isinstance(sub, ast.Compare) and is_name(sub.left, "ftype") and isinstance(sub.ops[0], ast.In):
                    au_sets.append(int_set(sub.comparators[0], env))
    if len(block_sets) != 1:
        raise Unsupported("expected exactly one 'cmd in {..}' test, found %d" % len(block_sets))
    if len(ftype_bounds) != 1:
        raise Unsupported("expected exactly one 'ftype >= N: raise', found %d" % len(ftype_bounds))
    if len(au_sets) != 1:
        raise Unsupported("expected exactly one 'ftype in {..}' in convert")
    if mean_chain is None:
        raise Unsupported("initial-mean chain not found")
    if versions is None:
        raise Unsupported("version test not found")
    out["block_cmds"] = block_sets[0]
    out["ftype_bound"] = ftype_bounds[0]
    out["au_types"] = au_sets[0]
    out["mean_chain"] = mean_chain
    out["versions"] = versions
    return out


def collect_fix(fn, env):
    """offsets added to the sample before indexing ULAW_OUTWARD, in source order."""
    offs = []
    for node in ast.walk(fn):
        if isinstance(node, ast.Subscript) and is_name(node.value, "ULAW_OUTWARD"):
            sl = node.slice
            if not (isinstance(sl, ast.Tuple) and len(sl.elts) == 2 and is_name(sl.elts[0], "bitshift")):
                raise Unsupported("ULAW_OUTWARD index shape")
            idx = sl.elts[1]
            if not (isinstance(idx, ast.BinOp) and isinstance(idx.op, ast.Add)):
                raise Unsupported("ULAW_OUTWARD column expression")
            offs.append(ev(idx.right, env))
    if len(offs) != 3:
        raise Unsupported("expected three ULAW_OUTWARD lookups in fix_bitshift, found %d" % len(offs))
    return offs


def zl(xs):
    return "[" + "; ".join(z(x) for x in xs) + "]"


def translate(src):
    tree = ast.parse(src)
    env, tables, magic = collect_module(tree)
    for n in NEEDED:
        if n not in env:
            raise Unsupported("constant %s not found" % n)
    if magic is None:
        raise Unsupported("MAGIC not found")
    for t in ("ULAW_OUTWARD", "ULAW2PCM"):
        if t not in tables:
            raise Unsupported("table %s not found" % t)
    outward, dt1 = tables["ULAW_OUTWARD"]
    pcm, dt2 = tables["ULAW2PCM"]
    if dt1 != "uint8" or dt2 != "int16":
        raise Unsupported("table dtypes %s %s" % (dt1, dt2))
    if not outward or any((not isinstance(r, list)) or any(not isinstance(v, int) for v in r) for r in outward):
        raise Unsupported("ULAW_OUTWARD is not a 2-d integer table")
    if any(not isinstance(v, int) for v in pcm):
        raise Unsupported("ULAW2PCM is not a 1-d integer table")
    if any(not (0 <= v < 256) for r in outward for v in r) or any(not (-32768 <= v < 32768) for v in pcm):
        raise Unsupported("table value does not fit its dtype")
    dec = collect_decoder(find_func(tree, "copy_shortened_samples"), env)
    offs = collect_fix(find_func(tree, "fix_bitshift"), env)
    o = [
        "(* GENERATED by /verif/gen/shorten.py from src/pydrobert/speech/_sphere.py - do not edit *)",
        "From Coq Require Import ZArith List.",
        "Import ListNotations.",
        "Open Scope Z_scope.",
        "",
    ]
    for n in sorted(env):
        o.append("Definition c_%s : Z := %s." % (n, z(env[n])))
    o.append("Definition c_MAGIC : list Z := %s." % zl(magic))
    o.append("Definition g_block_cmds : list Z := %s." % zl(dec["block_cmds"]))
    o.append("Definition g_ftype_bound : Z := %s." % z(dec["ftype_bound"]))
    o.append("Definition g_au_types : list Z := %s." % zl(dec["au_types"]))
    o.append("Definition g_versions : list Z := %s." % zl(dec["versions"]))
    o.append("Definition g_mean_init : list (list Z * Z) := [%s]." % "; ".join(
        "(%s, %s)" % (zl(s), z(v)) for s, v in dec["mean_chain"]))
    o.append("Definition g_fix_offsets : list Z := %s." % zl(offs))
    o.append("Definition t_ULAW2PCM : list Z :=\n  %s." % zl(pcm))
    o.append("Definition t_ULAW_OUTWARD : list (list Z) := [")
    o.append(";\n".join("  " + zl(r) for r in outward))
    o.append("].")
    return "\n".join(o) + "\n"


def main(src_path, out_path):
    text = translate(open(src_path).read())
    os.makedirs(os.path.dirname(out_path), exist_ok=True)
    old = open(out_path).read() if os.path.exists(out_path) else None
    if old != text:
        with open(out_path, "w") as f:
            f.write(text)
    return text


if __name__ == "__main__":
    main(sys.argv[1], sys.argv[2])
