"""Translate the integer bookkeeping of the short-integration frame computer into coq/gen/SiK.v.

Same scheme as gen/stft.py (whose expression translator is reused): from
ShortIntegrationFrameComputer.__init__ / compute_chunk / finalize / _compute_preamble /
_handle_skip / _fill_y_buf / _compute_frame (compute.py) every assignment
`name = <integer expression>`, augmented assignment, assignment to one of the integer state
fields and every `if` / `while` / `assert` test made of integer comparisons is emitted, in
source order, as a Coq definition over Z (or bool) whose parameters are the names the
expression mentions:

    g_si<fn>_<name>_<k>      k-th (augmented) assignment to <name> in <fn>
    g_si<fn>_set<field>_<k>  k-th assignment to self._<field>
    g_si<fn>_test_<k>        k-th translatable `if`/`while`/`assert` test
    g_si<fn>_range_<k>_<j>   arguments of the k-th range(...) call with integer arguments

coq/C03/Tie.v re-assembles the model's compute_chunk / finalize / preamble / _handle_skip /
_fill_y_buf bookkeeping from these and proves it equal to the hand-written model the
theorems are about.  A harmless arithmetic rewrite re-proves (lia); a change of meaning
breaks a lemma; a restructuring changes the numbering and breaks the file (fail closed).
"""

import ast
import os
import sys

sys.path.insert(0, os.path.dirname(os.path.abspath(__file__)))
import stft as G  # noqa: E402

SI_NAMES = {
    "self._frame_shift": "S_",
    "self._max_support": "M_",
    "self._translation": "tr_",
    "self._dft_size": "D_",
    "self._x_rem": "xrem_",
    "self._y_rem": "yrem_",
    "self._skip": "skip_",
    "self._frame_length": "FL_",
}
FIELDS = {"self._x_rem": "xrem_", "self._y_rem": "yrem_", "self._skip": "skip_", "self._frame_length": "FL_",
          "self._translation": "tr_", "self._max_support": "M_", "self._dft_size": "D_"}


class Z(G.Z):
    def expr(self, e):
        if isinstance(e, ast.Attribute):
            k = ast.unparse(e)
            if k in SI_NAMES:
                return self.name(SI_NAMES[k])
            raise G.Skip(k)
        return super().expr(e)

    def test(self, t):
        # truthiness of an integer (`if num_frames:`, `if not self._skip:`, `assert not self._x_rem`)
        if isinstance(t, (ast.Name, ast.Attribute, ast.BinOp)):
            return "(negb (%s =? 0))" % self.expr(t)
        if isinstance(t, ast.UnaryOp) and isinstance(t.op, ast.Not):
            return "(negb %s)" % self.test(t.operand)
        return super().test(t)


def emit_function(prefix, fn, out):
    counts = {}

    def define(kind, rhs_fn, typ):
        z = Z()
        try:
            body = rhs_fn(z)
        except G.Skip:
            return
        k = counts.get(kind, 0)
        counts[kind] = k + 1
        params = "".join(" (%s : Z)" % p for p in z.free)
        out.append("Definition g_%s_%s_%d%s : %s := %s." % (prefix, kind, k, params, typ, body))

    for st in G.walk_stmts(fn.body):
        if isinstance(st, ast.Assign) and len(st.targets) == 1 and isinstance(st.targets[0], ast.Name):
            define(st.targets[0].id, lambda z, st=st: z.expr(st.value), "Z")
        elif isinstance(st, ast.Assign) and len(st.targets) == 1 and isinstance(st.targets[0], ast.Attribute):
            k = ast.unparse(st.targets[0])
            if k in FIELDS:
                define("set" + FIELDS[k], lambda z, st=st: z.expr(st.value), "Z")
        elif isinstance(st, ast.Assign) and len(st.targets) == 1 and isinstance(st.targets[0], ast.Tuple) and isinstance(st.value, ast.Tuple):
            # a, b = e1, e2
            for tg, val in zip(st.targets[0].elts, st.value.elts):
                if isinstance(tg, ast.Name):
                    define(tg.id, lambda z, val=val: z.expr(val), "Z")
                elif isinstance(tg, ast.Attribute) and ast.unparse(tg) in FIELDS:
                    define("set" + FIELDS[ast.unparse(tg)], lambda z, val=val: z.expr(val), "Z")
        elif isinstance(st, ast.AugAssign) and isinstance(st.target, (ast.Name, ast.Attribute)):
            if isinstance(st.target, ast.Name):
                nm, left = st.target.id, ast.Name(id=st.target.id, ctx=ast.Load())
            else:
                k = ast.unparse(st.target)
                if k not in FIELDS:
                    continue
                nm, left = "set" + FIELDS[k], st.target
            fake = ast.BinOp(left=left, op=st.op, right=st.value)
            define(nm, lambda z, fake=fake: z.expr(fake), "Z")
        elif isinstance(st, (ast.If, ast.While, ast.Assert)):
            define("test", lambda z, st=st: z.test(st.test), "bool")
        # range(...) calls with integer arguments anywhere in the statement header
        hdr = None
        if isinstance(st, ast.For):
            hdr = st.iter
        if hdr is not None:
            for node in ast.walk(hdr):
                if isinstance(node, ast.Call) and isinstance(node.func, ast.Name) and node.func.id == "range" and not node.keywords:
                    k = counts.get("range", 0)
                    lines, ok = [], True
                    for j, el in enumerate(node.args):
                        z = Z()
                        try:
                            body = z.expr(el)
                        except G.Skip:
                            ok = False
                            break
                        params = "".join(" (%s : Z)" % p for p in z.free)
                        lines.append("Definition g_%s_range_%d_%d%s : Z := %s." % (prefix, k, j, params, body))
                    if ok:
                        counts["range"] = k + 1
                        out.extend(lines)


FUNCS = (("siinit", "__init__"), ("sicc", "compute_chunk"), ("sifin", "finalize"), ("sipre", "_compute_preamble"),
         ("siskip", "_handle_skip"), ("sifill", "_fill_y_buf"), ("siframe", "_compute_frame"))


def translate(compute_src):
    out = [
        "(* GENERATED by /verif/gen/si.py from compute.py - do not edit *)",
        "From Coq Require Import ZArith Bool.",
        "Open Scope Z_scope.",
        "",
        G.BITLEN,
        "",
    ]
    ct = ast.parse(compute_src)
    for short, nm in FUNCS:
        emit_function(short, G.find(ct, "ShortIntegrationFrameComputer", nm), out)
        out.append("")
    cls = "ShortIntegrationFrameComputer"
    out.append("Definition g_si_xbuf_is_f64_alloc_once : bool := %s." % str(G.alloc_fact(
        ct, cls, "_x_buf", "np.empty(self._dft_size, dtype=np.float64)")).lower())
    out.append("Definition g_si_ybuf_is_f64_alloc_once : bool := %s." % str(G.alloc_fact(
        ct, cls, "_y_buf", "np.empty((y_blocks, 2, len(self._filts)), dtype=np.float64)")).lower())
    return "\n".join(out) + "\n"


def main(src_dir, out_path):
    text = translate(open(os.path.join(src_dir, "compute.py")).read())
    if not os.path.exists(out_path) or open(out_path).read() != text:
        os.makedirs(os.path.dirname(out_path), exist_ok=True)
        open(out_path, "w").write(text)
    return text


if __name__ == "__main__":
    print(main(sys.argv[1], sys.argv[2]))
