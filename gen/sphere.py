"""Translate the literal / decision parts of pydrobert/speech/_sphere.py that the
C12 model (coq/C12/Model.v) is built on into coq/gen/Sphere.v.

Regenerated from the current source on every run of ``./check C12``:

* the G.711 expansion tables ``ULAW2PCM`` and ``ALAW2PCM`` (literal integer lists;
  the dtype must be ``np.int16`` and every entry must fit it);
* constants of ``read_header``: size of the first read, the ``NIST_1A`` magic,
  the minimum header size, the ``end_head`` marker, the ``-i`` format tag, the
  ``"shorten"`` marker and the set of coding prefixes;
* the ``key == "..."`` dispatch of ``read_header`` as an association list
  key -> header variable;
* the two guards that follow the field loop (PCM inference and the
  mandatory-field rejection) as boolean terms over Python truthiness, always
  over all six header variables;
* constants and decisions of ``copy_samples``: the read size ``buf_size``, the
  shorten magic, the ``sampsize -> in_type`` chain as a list (itemsize, (bits,
  signed)), the law set of the two ``samptype in {...}`` tests, the default dtype
  for the laws, the ``convert`` rule, the big-endian tag and the table selection.

Fail closed: when one of these cannot be located or has an unrecognised form,
``Unsupported`` is raised and the check treats the tie as broken.  Statements the
model does not take anything from (the ``try`` around the size line, the
tokenising block, the ``sampsize`` default, the ``return``) are deliberately not
pattern-matched: they and the loop of ``copy_samples`` are modelled by hand and
tied by the correspondence, so refactoring them does not break the translator.
"""

import ast
import os
import sys

sys.path.insert(0, os.path.dirname(os.path.abspath(__file__)))
from pyexpr import Unsupported  # noqa: E402

HVARS = {
    "chancount": ("FChans", "z"),
    "sampcount": ("FCount", "z"),
    "samprate": ("FRate", "z"),
    "sampsize": ("FSize", "z"),
    "inporder": ("FOrder", "s"),
    "samptype": ("FCoding", "c"),
}
CODINGS = {"pcm": "Pcm", "ulaw": "Ulaw", "alaw": "Alaw"}
NP_INT = {
    "uint8": (8, False), "int8": (8, True), "uint16": (16, False), "int16": (16, True),
    "uint32": (32, False), "int32": (32, True), "uint64": (64, False), "int64": (64, True),
}


def zl(xs):
    return "[" + "; ".join("(%d)" % x if x < 0 else "%d" % x for x in xs) + "]"


def bl(b):
    if isinstance(b, str):
        b = b.encode("ascii")
    return zl(list(b))


def one(xs, what):
    xs = list(xs)
    if len(xs) != 1:
        raise Unsupported("expected exactly one %s, found %d" % (what, len(xs)))
    return xs[0]


def func(tree, name):
    return one((n for n in tree.body if isinstance(n, ast.FunctionDef) and n.name == name), "def " + name)


def is_name(e, name=None):
    return isinstance(e, ast.Name) and (name is None or e.id == name)


def const(e, typ):
    if isinstance(e, ast.Constant) and type(e.value) is typ:
        return e.value
    raise Unsupported("expected %s literal, got %s" % (typ.__name__, ast.dump(e)[:60]))


def raises_error(body):
    return len(body) == 1 and isinstance(body[0], ast.Raise) and is_name(body[0].exc, "error")


# ---------------------------------------------------------------- tables


def int_literal(e):
    if isinstance(e, ast.UnaryOp) and isinstance(e.op, ast.USub):
        return -int_literal(e.operand)
    v = const(e, int)
    return v


def table(tree, name):
    node = one(
        (n for n in tree.body if isinstance(n, ast.Assign) and len(n.targets) == 1 and is_name(n.targets[0], name)),
        "assignment of " + name,
    )
    c = node.value
    if not (
        isinstance(c, ast.Call)
        and isinstance(c.func, ast.Attribute)
        and is_name(c.func.value, "np")
        and c.func.attr == "array"
        and len(c.args) == 1
        and isinstance(c.args[0], ast.List)
    ):
        raise Unsupported("%s is not np.array([...])" % name)
    kws = {k.arg: k.value for k in c.keywords}
    if set(kws) != {"dtype"} or not (
        isinstance(kws["dtype"], ast.Attribute) and is_name(kws["dtype"].value, "np") and kws["dtype"].attr == "int16"
    ):
        raise Unsupported("%s: dtype is not np.int16" % name)
    vals = [int_literal(e) for e in c.args[0].elts]
    if len(vals) != 256:
        raise Unsupported("%s has %d entries, expected 256" % (name, len(vals)))
    if any(not -32768 <= v <= 32767 for v in vals):
        raise Unsupported("%s has an entry outside int16" % name)
    return vals


# ---------------------------------------------------------------- guards


def guard(e):
    """Python condition over the header variables -> Coq bool term."""
    if isinstance(e, ast.BoolOp):
        op = " && " if isinstance(e.op, ast.And) else " || "
        return "(" + op.join(guard(v) for v in e.values) + ")"
    if isinstance(e, ast.UnaryOp) and isinstance(e.op, ast.Not):
        return "negb " + guard(e.operand)
    if isinstance(e, ast.Name):
        if e.id not in HVARS:
            raise Unsupported("guard mentions %s" % e.id)
        return "(truthy_%s %s)" % (HVARS[e.id][1], e.id)
    if isinstance(e, ast.Compare) and len(e.ops) == 1 and isinstance(e.ops[0], ast.Eq):
        a, b = e.left, e.comparators[0]
        if is_name(a) and a.id in HVARS and isinstance(b, ast.Constant):
            t = HVARS[a.id][1]
            if t == "z" and type(b.value) is int:
                return "(oz_eqb %s %d)" % (a.id, b.value)
            if t == "c" and b.value in CODINGS:
                return "(oc_eqb %s %s)" % (a.id, CODINGS[b.value])
        if (
            isinstance(a, ast.Call)
            and is_name(a.func, "len")
            and len(a.args) == 1
            and is_name(a.args[0])
            and HVARS.get(a.args[0].id, ("", ""))[1] == "s"
            and isinstance(b, ast.Constant)
            and type(b.value) is int
        ):
            return "(os_len_eqb %s %d)" % (a.args[0].id, b.value)
    raise Unsupported("guard expression %s" % ast.dump(e)[:80])


def used(e):
    return [n.id for n in ast.walk(e) if isinstance(n, ast.Name) and n.id in HVARS]


TYPS = {"z": "option Z", "s": "option bytes", "c": "option coding"}
ORDER = ["samptype", "sampsize", "sampcount", "samprate", "chancount", "inporder"]


def guard_def(name, test):
    vs = list(ORDER)  # always all six variables, so that a guard may mention any of them
    args = " ".join("(%s : %s)" % (v, TYPS[HVARS[v][1]]) for v in vs)
    return "Definition %s %s : bool :=\n  %s.\n(* arguments: %s *)" % (name, args, guard(test), " ".join(vs)), vs


# ---------------------------------------------------------------- read_header


def read_header(fn, out):
    nodes = list(ast.walk(fn))
    # first read
    reads = [
        n.value.args[0]
        for n in nodes
        if isinstance(n, ast.Assign)
        and isinstance(n.value, ast.Call)
        and isinstance(n.value.func, ast.Attribute)
        and n.value.func.attr == "read"
        and len(n.value.args) == 1
        and isinstance(n.value.args[0], ast.Constant)
    ]
    first = const(one(reads, "fixed-size read in read_header"), int)
    # len(inpbuf) != N or inpbuf[:K] != b"..." -> raise error
    magic = None
    for n in nodes:
        if isinstance(n, ast.If) and raises_error(n.body) and isinstance(n.test, ast.BoolOp) and isinstance(n.test.op, ast.Or):
            ok_len = ok_magic = False
            for v in n.test.values:
                if not (isinstance(v, ast.Compare) and len(v.ops) == 1 and isinstance(v.ops[0], ast.NotEq)):
                    break
                a, b = v.left, v.comparators[0]
                if isinstance(a, ast.Call) and is_name(a.func, "len") and is_name(a.args[0], "inpbuf"):
                    if const(b, int) != first:
                        raise Unsupported("length test differs from the read size")
                    ok_len = True
                elif (
                    isinstance(a, ast.Subscript)
                    and is_name(a.value, "inpbuf")
                    and isinstance(a.slice, ast.Slice)
                    and a.slice.lower is None
                    and a.slice.step is None
                ):
                    m = const(b, bytes)
                    if const(a.slice.upper, int) != len(m):
                        raise Unsupported("magic slice length differs from the magic")
                    magic, ok_magic = m, True
            if ok_len and ok_magic and len(n.test.values) == 2:
                break
            magic = None
    if magic is None:
        raise Unsupported("magic/length test of read_header not found")
    # if hdrsize < N: raise error
    mins = [
        n.test.comparators[0]
        for n in nodes
        if isinstance(n, ast.If)
        and raises_error(n.body)
        and isinstance(n.test, ast.Compare)
        and is_name(n.test.left, "hdrsize")
        and len(n.test.ops) == 1
        and isinstance(n.test.ops[0], ast.Lt)
    ]
    hmin = const(one(mins, "hdrsize < N test"), int)
    # the field loop (its tokenising is modelled by hand and tied by the correspondence)
    loop = one((n for n in nodes if isinstance(n, ast.For) and is_name(n.target, "field")), "field loop")
    lnodes = list(ast.walk(loop))
    ends = [
        n.test.comparators[0]
        for n in lnodes
        if isinstance(n, ast.If)
        and isinstance(n.test, ast.Compare)
        and is_name(n.test.left, "field")
        and len(n.test.ops) == 1
        and isinstance(n.test.ops[0], ast.Eq)
        and len(n.body) == 1
        and isinstance(n.body[0], ast.Break)
    ]
    end_marker = const(one(ends, "end_head test of the field loop"), bytes)
    fmts = [
        n.comparators[0]
        for n in lnodes
        if isinstance(n, ast.Compare) and is_name(n.left, "fmt") and len(n.ops) == 1 and isinstance(n.ops[0], ast.Eq)
    ]
    int_fmt = const(one(fmts, "fmt == '-i' test"), str)
    # key dispatch chain: the outermost `if key == ...`
    def is_key_test(t):
        return isinstance(t, ast.Compare) and is_name(t.left, "key") and len(t.ops) == 1 and isinstance(t.ops[0], ast.Eq)

    chained = set()
    for n in lnodes:
        if isinstance(n, ast.If) and is_key_test(n.test) and len(n.orelse) == 1 and isinstance(n.orelse[0], ast.If):
            chained.add(id(n.orelse[0]))
    chain = one((n for n in lnodes if isinstance(n, ast.If) and is_key_test(n.test) and id(n) not in chained), "key dispatch")
    keys, prefixes, marker = [], None, None
    node = chain
    while True:
        t = node.test
        if not (isinstance(t, ast.Compare) and is_name(t.left, "key") and len(t.ops) == 1 and isinstance(t.ops[0], ast.Eq)):
            raise Unsupported("key dispatch test")
        k = const(t.comparators[0], str)
        body = node.body
        if len(body) == 1 and isinstance(body[0], ast.Assign) and is_name(body[0].value, "value") and is_name(body[0].targets[0]):
            var = body[0].targets[0].id
            if var not in HVARS or var == "samptype":
                raise Unsupported("key %s assigns %s" % (k, var))
            keys.append((k, HVARS[var][0]))
        else:
            want = (
                "shortened = 'shorten' in value\n"
                "for prefix in {'alaw', 'ulaw', 'pcm'}:\n"
                "    if value.startswith(prefix):\n        samptype = prefix\n"
            )
            got = ast.Module(body=body, type_ignores=[])
            # the marker and the prefixes are read out; the shape must be the known one
            try:
                m = body[0].value.left
                ps = body[1].iter.elts
                marker = const(m, str)
                prefixes = sorted(const(p, str) for p in ps)
            except (AttributeError, IndexError):
                raise Unsupported("sample_coding branch")
            canon = want.replace("'shorten'", repr(marker)).replace(
                "{'alaw', 'ulaw', 'pcm'}", "{" + ", ".join(repr(const(p, str)) for p in ps) + "}"
            )
            if ast.dump(got) != ast.dump(ast.parse(canon)):
                raise Unsupported("sample_coding branch changed")
            for p in prefixes:
                if p not in CODINGS:
                    raise Unsupported("unknown coding prefix %s" % p)
            for p in prefixes:
                for q in prefixes:
                    if p != q and p.startswith(q):
                        raise Unsupported("coding prefixes overlap (set iteration order would matter)")
            keys.append((k, "FCoding"))
        if not node.orelse:
            break
        if len(node.orelse) != 1 or not isinstance(node.orelse[0], ast.If):
            raise Unsupported("key dispatch has an else branch")
        node = node.orelse[0]
    if prefixes is None:
        raise Unsupported("sample_coding branch not found")
    if len(set(k for k, _ in keys)) != len(keys):
        raise Unsupported("duplicate key in dispatch")
    # the two guards after the loop, located by their shape
    infer = one(
        (
            n
            for n in fn.body
            if isinstance(n, ast.If)
            and not n.orelse
            and ast.dump(ast.Module(body=n.body, type_ignores=[])) == ast.dump(ast.parse("samptype = 'pcm'"))
        ),
        "PCM inference statement",
    )
    i = fn.body.index(loop)
    rejects = [
        n
        for n in fn.body[i + 1:]
        if isinstance(n, ast.If) and raises_error(n.body) and not n.orelse and len(set(used(n.test))) >= 2
    ]
    reject = one(rejects, "mandatory-field rejection")
    if fn.body.index(infer) > fn.body.index(reject) or fn.body.index(infer) < i:
        raise Unsupported("PCM inference no longer precedes the rejection")
    g1, a1 = guard_def("hdr_infer_pcm", infer.test)
    g2, a2 = guard_def("hdr_reject", reject.test)
    out += [
        "(* ---- read_header *)",
        "Definition hdr_first_read : Z := %d." % first,
        "Definition nist_magic : bytes := %s.  (* %r *)" % (bl(magic), magic),
        "Definition hdr_min_size : Z := %d." % hmin,
        "Definition end_marker : bytes := %s.  (* %r *)" % (bl(end_marker), end_marker),
        "Definition int_fmt : bytes := %s.  (* %r *)" % (bl(int_fmt), int_fmt),
        "Definition shorten_marker : bytes := %s.  (* %r *)" % (bl(marker), marker),
        "Definition coding_prefixes : list (bytes * coding) :=\n  [%s]."
        % "; ".join("(%s, %s)" % (bl(p), CODINGS[p]) for p in prefixes),
        "Definition hdr_keys : list (bytes * hfield) :=\n  [%s]." % ";\n   ".join("(%s, %s) (* %s *)" % (bl(k), f, k) for k, f in keys),
        g1,
        g2,
        "",
    ]


# ---------------------------------------------------------------- copy_samples


def copy_samples(fn, out):
    nodes = list(ast.walk(fn))
    bs = one(
        (n.value for n in nodes if isinstance(n, ast.Assign) and len(n.targets) == 1 and is_name(n.targets[0], "buf_size")),
        "buf_size assignment",
    )
    bs = const(bs, int)
    if bs <= 0:
        raise Unsupported("buf_size not positive")
    reads = [
        n
        for n in nodes
        if isinstance(n, ast.Call) and isinstance(n.func, ast.Attribute) and n.func.attr == "read"
    ]
    r = one(reads, "read call in copy_samples")
    if not (len(r.args) == 1 and is_name(r.args[0], "buf_size")):
        raise Unsupported("copy_samples does not read buf_size bytes")
    magics = []
    for n in nodes:
        if isinstance(n, ast.Compare) and len(n.ops) == 1 and isinstance(n.ops[0], ast.Eq):
            a, b = n.left, n.comparators[0]
            if isinstance(a, ast.Subscript) and is_name(a.value, "inpbuf") and isinstance(b, ast.Constant) and type(b.value) is bytes:
                if not (isinstance(a.slice, ast.Slice) and a.slice.lower is None and const(a.slice.upper, int) == len(b.value)):
                    raise Unsupported("shorten magic slice")
                magics.append(b.value)
    magic = one(magics, "shorten magic test")
    # sampsize chain
    chain = one(
        (
            n
            for n in fn.body
            if isinstance(n, ast.If)
            and isinstance(n.test, ast.Compare)
            and is_name(n.test.left, "sampsize")
            and isinstance(n.test.ops[0], ast.Eq)
        ),
        "sampsize chain",
    )
    types = []
    node = chain
    while True:
        k = const(node.test.comparators[0], int)
        b = node.body
        if not (
            len(b) == 1
            and isinstance(b[0], ast.Assign)
            and is_name(b[0].targets[0], "in_type")
            and isinstance(b[0].value, ast.Attribute)
            and is_name(b[0].value.value, "np")
            and b[0].value.attr in NP_INT
        ):
            raise Unsupported("sampsize chain body")
        bits, signed = NP_INT[b[0].value.attr]
        if bits != 8 * k:
            raise Unsupported("in_type %s does not have %d bytes" % (b[0].value.attr, k))
        types.append((k, bits, signed))
        if len(node.orelse) == 1 and isinstance(node.orelse[0], ast.If):
            node = node.orelse[0]
            if not (isinstance(node.test, ast.Compare) and is_name(node.test.left, "sampsize") and isinstance(node.test.ops[0], ast.Eq)):
                raise Unsupported("sampsize chain test")
            continue
        if not raises_error(node.orelse):
            raise Unsupported("sampsize chain does not end in raise error")
        break
    # ---- decisions of copy_samples
    def law_set(e):
        """samptype in {"alaw", "ulaw"} -> sorted codings."""
        if not (
            isinstance(e, ast.Compare)
            and is_name(e.left, "samptype")
            and len(e.ops) == 1
            and isinstance(e.ops[0], ast.In)
            and isinstance(e.comparators[0], (ast.Set, ast.Tuple, ast.List))
        ):
            raise Unsupported("expected `samptype in {...}`: %s" % ast.dump(e)[:60])
        names = sorted(const(x, str) for x in e.comparators[0].elts)
        for nme in names:
            if nme not in CODINGS:
                raise Unsupported("unknown coding %s" % nme)
        return names

    def np_int(e):
        if isinstance(e, ast.Attribute) and is_name(e.value, "np") and e.attr in NP_INT:
            return NP_INT[e.attr]
        raise Unsupported("expected np.<int type>: %s" % ast.dump(e)[:60])

    laws = []
    # if dtype is None: if samptype in {...}: dtype = np.int16 else: dtype = in_type
    dflt = one(
        (
            n
            for n in fn.body
            if isinstance(n, ast.If)
            and isinstance(n.test, ast.Compare)
            and is_name(n.test.left, "dtype")
            and isinstance(n.test.ops[0], ast.Is)
            and isinstance(n.test.comparators[0], ast.Constant)
            and n.test.comparators[0].value is None
        ),
        "`if dtype is None` statement",
    )
    if dflt.orelse or len(dflt.body) != 1 or not isinstance(dflt.body[0], ast.If):
        raise Unsupported("default dtype statement")
    inner = dflt.body[0]
    laws.append(law_set(inner.test))
    if not (
        len(inner.body) == 1
        and isinstance(inner.body[0], ast.Assign)
        and is_name(inner.body[0].targets[0], "dtype")
        and len(inner.orelse) == 1
        and isinstance(inner.orelse[0], ast.Assign)
        and is_name(inner.orelse[0].targets[0], "dtype")
        and is_name(inner.orelse[0].value, "in_type")
    ):
        raise Unsupported("default dtype branches")
    law_bits, law_signed = np_int(inner.body[0].value)
    # if sampsize < dtype.itemsize and samptype in {...}: convert = True
    conv = one(
        (
            n
            for n in fn.body
            if isinstance(n, ast.If)
            and len(n.body) == 1
            and isinstance(n.body[0], ast.Assign)
            and is_name(n.body[0].targets[0], "convert")
        ),
        "convert decision",
    )
    if not (
        not conv.orelse
        and isinstance(conv.body[0].value, ast.Constant)
        and conv.body[0].value.value is True
        and isinstance(conv.test, ast.BoolOp)
        and isinstance(conv.test.op, ast.And)
        and len(conv.test.values) == 2
        and ast.dump(conv.test.values[0]) == ast.dump(ast.parse("sampsize < dtype.itemsize", mode="eval").body)
    ):
        raise Unsupported("convert decision changed")
    laws.append(law_set(conv.test.values[1]))
    inits = [
        n for n in fn.body
        if isinstance(n, ast.Assign) and is_name(n.targets[0], "convert") and isinstance(n.value, ast.Constant) and n.value.value is False
    ]
    one(inits, "convert = False initialisation")
    if laws[0] != laws[1]:
        raise Unsupported("the two law tests differ: %s" % laws)
    # in_type.newbyteorder(">" if (inporder == "10") else "<")
    nbo = one(
        (n for n in nodes if isinstance(n, ast.Call) and isinstance(n.func, ast.Attribute) and n.func.attr == "newbyteorder"),
        "newbyteorder call",
    )
    a = nbo.args[0] if len(nbo.args) == 1 else None
    if not (
        isinstance(a, ast.IfExp)
        and const(a.body, str) == ">"
        and const(a.orelse, str) == "<"
        and isinstance(a.test, ast.Compare)
        and is_name(a.test.left, "inporder")
        and len(a.test.ops) == 1
        and isinstance(a.test.ops[0], ast.Eq)
    ):
        raise Unsupported("byte order decision changed")
    be_tag = const(a.test.comparators[0], str)
    # if convert and samptype == "alaw": inpbuf = ALAW2PCM[inpbuf] elif convert: inpbuf = ULAW2PCM[inpbuf]
    def table_assign(body):
        if not (
            len(body) == 1
            and isinstance(body[0], ast.Assign)
            and is_name(body[0].targets[0], "inpbuf")
            and isinstance(body[0].value, ast.Subscript)
            and is_name(body[0].value.value)
            and is_name(body[0].value.slice, "inpbuf")
        ):
            raise Unsupported("table lookup statement")
        t = body[0].value.value.id
        if t not in ("ULAW2PCM", "ALAW2PCM"):
            raise Unsupported("unknown table %s" % t)
        return t

    sel = one(
        (
            n
            for n in nodes
            if isinstance(n, ast.If)
            and isinstance(n.test, ast.BoolOp)
            and isinstance(n.test.op, ast.And)
            and len(n.test.values) == 2
            and is_name(n.test.values[0], "convert")
        ),
        "table selection",
    )
    t2 = sel.test.values[1]
    if not (isinstance(t2, ast.Compare) and is_name(t2.left, "samptype") and len(t2.ops) == 1 and isinstance(t2.ops[0], ast.Eq)):
        raise Unsupported("table selection test")
    first_coding = const(t2.comparators[0], str)
    if first_coding not in CODINGS:
        raise Unsupported("table selection coding")
    first_table = table_assign(sel.body)
    if not (len(sel.orelse) == 1 and isinstance(sel.orelse[0], ast.If) and is_name(sel.orelse[0].test, "convert") and not sel.orelse[0].orelse):
        raise Unsupported("table selection else branch")
    other_table = table_assign(sel.orelse[0].body)
    out += [
        "(* ---- copy_samples *)",
        "Definition copy_buf_size : Z := %d." % bs,
        "Definition shorten_magic : bytes := %s.  (* %r *)" % (bl(magic), magic),
        "Definition in_types : list (Z * (Z * bool)) :=  (* itemsize, (bits, signed) *)\n  [%s]."
        % "; ".join("(%d, (%d, %s))" % (k, b, "true" if s else "false") for k, b, s in types),
        "(* samptype in {...} *)",
        "Definition law_codings : list coding := [%s]." % "; ".join(CODINGS[x] for x in laws[0]),
        "(* dtype chosen for these codings when none is requested: (bits, signed) *)",
        "Definition law_default_type : Z * bool := (%d, %s)." % (law_bits, "true" if law_signed else "false"),
        "(* convert = sampsize < dtype.itemsize and samptype in {...} *)",
        "Definition convert_rule (sampsize itemsize : Z) (is_law : bool) : bool := (sampsize <? itemsize) && is_law.",
        "(* big endian iff sample_byte_format == this *)",
        "Definition big_endian_tag : bytes := %s.  (* %r *)" % (bl(be_tag), be_tag),
        "(* table used when converting *)",
        "Definition convert_table (c : coding) : list Z := if coding_eqb c %s then %s else %s."
        % (CODINGS[first_coding], first_table, other_table),
        "",
    ]


def translate(src):
    tree = ast.parse(src)
    out = [
        "(* GENERATED by /verif/gen/sphere.py from src/pydrobert/speech/_sphere.py - do not edit *)",
        "From Coq Require Import ZArith List Bool.",
        "From Verif Require Import lib.C12_Py.",
        "Import ListNotations.",
        "Open Scope Z_scope.",
        "",
    ]
    for name in ("ULAW2PCM", "ALAW2PCM"):
        vals = table(tree, name)
        lines = []
        for i in range(0, 256, 16):
            lines.append("   " + "; ".join("(%d)" % v if v < 0 else "%d" % v for v in vals[i:i + 16]))
        out.append("Definition %s : list Z :=\n  [\n%s\n  ]." % (name, ";\n".join(lines)))
        out.append("")
    read_header(func(tree, "read_header"), out)
    copy_samples(func(tree, "copy_samples"), out)
    return "\n".join(out) + "\n"


def main(src_path, out_path):
    text = translate(open(src_path).read())
    if not os.path.exists(out_path) or open(out_path).read() != text:
        os.makedirs(os.path.dirname(out_path), exist_ok=True)
        open(out_path, "w").write(text)
    return text


if __name__ == "__main__":
    print(main(sys.argv[1], sys.argv[2]))
