"""Translate the literal / decision parts of pydrobert/speech/_sphere.py that the
C12 model (coq/C12/Model.v) is built on into coq/gen/Sphere.v.

Regenerated from the current source on every run of ``./check C12``:

* the G.711 expansion tables ``ULAW2PCM`` and ``ALAW2PCM`` (literal integer lists;
  the dtype must be ``np.int16`` and every entry must fit it);
* constants of ``read_header``: size of the first read, the ``NIST_1A`` magic,
  the minimum header size, the ``end_head`` marker, the ``-i`` format tag, the
  ``"shorten"`` marker and the set of coding prefixes;
* the ``key == "..."`` dispatch of ``read_header`` as an association list
  key -> header variable;
* the two guards that follow the field loop (PCM inference and the
  mandatory-field rejection) as boolean terms over Python truthiness;
* constants of ``copy_samples``: the read size ``buf_size``, the shorten magic,
  the ``sampsize -> in_type`` chain as a list (itemsize, (bits, signed)).

Fail closed: any construct that is not recognised raises ``Unsupported`` and
the check treats the tie as broken.  The loop of ``copy_samples`` and the
tokenising of the header are modelled by hand and tied by the correspondence.
"""

import ast
import os
import sys

sys.path.insert(0, os.path.dirname(os.path.abspath(__file__)))
from pyexpr import Unsupported  # noqa: E402

HVARS = {
    "chancount": ("FChans", "z"),
    "sampcount": ("FCount", "z"),
    "samprate": ("FRate", "z"),
    "sampsize": ("FSize", "z"),
    "inporder": ("FOrder", "s"),
    "samptype": ("FCoding", "c"),
}
CODINGS = {"pcm": "Pcm", "ulaw": "Ulaw", "alaw": "Alaw"}
NP_INT = {
    "uint8": (8, False), "int8": (8, True), "uint16": (16, False), "int16": (16, True),
    "uint32": (32, False), "int32": (32, True), "uint64": (64, False), "int64": (64, True),
}


def zl(xs):
    return "[" + "; ".join("(%d)" % x if x < 0 else "%d" % x for x in xs) + "]"


def bl(b):
    if isinstance(b, str):
        b = b.encode("ascii")
    return zl(list(b))


def one(xs, what):
    xs = list(xs)
    if len(xs) != 1:
        raise Unsupported("expected exactly one %s, found %d" % (what, len(xs)))
    return xs[0]


def func(tree, name):
    return one((n for n in tree.body if isinstance(n, ast.FunctionDef) and n.name == name), "def " + name)


def is_name(e, name=None):
    return isinstance(e, ast.Name) and (name is None or e.id == name)


def const(e, typ):
    if isinstance(e, ast.Constant) and type(e.value) is typ:
        return e.value
    raise Unsupported("expected %s literal, got %s" % (typ.__name__, ast.dump(e)[:60]))


def raises_error(body):
    return len(body) == 1 and isinstance(body[0], ast.Raise) and is_name(body[0].exc, "error")


# ---------------------------------------------------------------- tables


def int_literal(e):
    if isinstance(e, ast.UnaryOp) and isinstance(e.op, ast.USub):
        return -int_literal(e.operand)
    v = const(e, int)
    return v


def table(tree, name):
    node = one(
        (n for n in tree.body if isinstance(n, ast.Assign) and len(n.targets) == 1 and is_name(n.targets[0], name)),
        "assignment of " + name,
    )
    c = node.value
    if not (
        isinstance(c, ast.Call)
        and isinstance(c.func, ast.Attribute)
        and is_name(c.func.value, "np")
        and c.func.attr == "array"
        and len(c.args) == 1
        and isinstance(c.args[0], ast.List)
    ):
        raise Unsupported("%s is not np.array([...])" % name)
    kws = {k.arg: k.value for k in c.keywords}
    if set(kws) != {"dtype"} or not (
        isinstance(kws["dtype"], ast.Attribute) and is_name(kws["dtype"].value, "np") and kws["dtype"].attr == "int16"
    ):
        raise Unsupported("%s: dtype is not np.int16" % name)
    vals = [int_literal(e) for e in c.args[0].elts]
    if len(vals) != 256:
        raise Unsupported("%s has %d entries, expected 256" % (name, len(vals)))
    if any(not -32768 <= v <= 32767 for v in vals):
        raise Unsupported("%s has an entry outside int16" % name)
    return vals


# ---------------------------------------------------------------- guards


def guard(e):
    """Python condition over the header variables -> Coq bool term."""
    if isinstance(e, ast.BoolOp):
        op = " && " if isinstance(e.op, ast.And) else " || "
        return "(" + op.join(guard(v) for v in e.values) + ")"
    if isinstance(e, ast.UnaryOp) and isinstance(e.op, ast.Not):
        return "negb " + guard(e.operand)
    if isinstance(e, ast.Name):
        if e.id not in HVARS:
            raise Unsupported("guard mentions %s" % e.id)
        return "(truthy_%s %s)" % (HVARS[e.id][1], e.id)
    if isinstance(e, ast.Compare) and len(e.ops) == 1 and isinstance(e.ops[0], ast.Eq):
        a, b = e.left, e.comparators[0]
        if is_name(a) and a.id in HVARS and isinstance(b, ast.Constant):
            t = HVARS[a.id][1]
            if t == "z" and type(b.value) is int:
                return "(oz_eqb %s %d)" % (a.id, b.value)
            if t == "c" and b.value in CODINGS:
                return "(oc_eqb %s %s)" % (a.id, CODINGS[b.value])
        if (
            isinstance(a, ast.Call)
            and is_name(a.func, "len")
            and len(a.args) == 1
            and is_name(a.args[0])
            and HVARS.get(a.args[0].id, ("", ""))[1] == "s"
            and isinstance(b, ast.Constant)
            and type(b.value) is int
        ):
            return "(os_len_eqb %s %d)" % (a.args[0].id, b.value)
    raise Unsupported("guard expression %s" % ast.dump(e)[:80])


def used(e):
    return [n.id for n in ast.walk(e) if isinstance(n, ast.Name) and n.id in HVARS]


TYPS = {"z": "option Z", "s": "option bytes", "c": "option coding"}
ORDER = ["samptype", "sampsize", "sampcount", "samprate", "chancount", "inporder"]


def guard_def(name, test):
    vs = list(ORDER)  # always all six variables, so that a guard may mention any of them
    args = " ".join("(%s : %s)" % (v, TYPS[HVARS[v][1]]) for v in vs)
    return "Definition %s %s : bool :=\n  %s.\n(* arguments: %s *)" % (name, args, guard(test), " ".join(vs)), vs


# ---------------------------------------------------------------- read_header


def read_header(fn, out):
    nodes = list(ast.walk(fn))
    # first read
    reads = [
        n.value.args[0]
        for n in nodes
        if isinstance(n, ast.Assign)
        and isinstance(n.value, ast.Call)
        and isinstance(n.value.func, ast.Attribute)
        and n.value.func.attr == "read"
        and len(n.value.args) == 1
        and isinstance(n.value.args[0], ast.Constant)
    ]
    first = const(one(reads, "fixed-size read in read_header"), int)
    # len(inpbuf) != N or inpbuf[:K] != b"..." -> raise error
    magic = None
    for n in nodes:
        if isinstance(n, ast.If) and raises_error(n.body) and isinstance(n.test, ast.BoolOp) and isinstance(n.test.op, ast.Or):
            ok_len = ok_magic = False
            for v in n.test.values:
                if not (isinstance(v, ast.Compare) and len(v.ops) == 1 and isinstance(v.ops[0], ast.NotEq)):
                    break
                a, b = v.left, v.comparators[0]
                if isinstance(a, ast.Call) and is_name(a.func, "len") and is_name(a.args[0], "inpbuf"):
                    if const(b, int) != first:
                        raise Unsupported("length test differs from the read size")
                    ok_len = True
                elif (
                    isinstance(a, ast.Subscript)
                    and is_name(a.value, "inpbuf")
                    and isinstance(a.slice, ast.Slice)
                    and a.slice.lower is None
                    and a.slice.step is None
                ):
                    m = const(b, bytes)
                    if const(a.slice.upper, int) != len(m):
                        raise Unsupported("magic slice length differs from the magic")
                    magic, ok_magic = m, True
            if ok_len and ok_magic and len(n.test.values) == 2:
                break
            magic = None
    if magic is None:
        raise Unsupported("magic/length test of read_header not found")
    # hdrsize = int(inpbuf.split(b"\n")[1]) inside try/except (ValueError, IndexError): raise error
    found = False
    for n in nodes:
        if isinstance(n, ast.Try) and len(n.body) == 1 and isinstance(n.body[0], ast.Assign) and is_name(n.body[0].targets[0], "hdrsize"):
            v = n.body[0].value
            if ast.dump(v) != ast.dump(ast.parse('int(inpbuf.split(b"\\n")[1])', mode="eval").body):
                raise Unsupported("hdrsize expression changed")
            if len(n.handlers) != 1 or not raises_error(n.handlers[0].body) or n.orelse or n.finalbody:
                raise Unsupported("hdrsize handler changed")
            t = n.handlers[0].type
            names = sorted(x.id for x in (t.elts if isinstance(t, ast.Tuple) else [t]) if isinstance(x, ast.Name))
            if names != ["IndexError", "ValueError"]:
                raise Unsupported("hdrsize handler catches %s" % names)
            found = True
    if not found:
        raise Unsupported("guarded hdrsize parse not found")
    # if hdrsize < N: raise error
    mins = [
        n.test.comparators[0]
        for n in nodes
        if isinstance(n, ast.If)
        and raises_error(n.body)
        and isinstance(n.test, ast.Compare)
        and is_name(n.test.left, "hdrsize")
        and len(n.test.ops) == 1
        and isinstance(n.test.ops[0], ast.Lt)
    ]
    hmin = const(one(mins, "hdrsize < N test"), int)
    # the field loop: try/except ValueError -> error around the tokenising
    loop = one((n for n in nodes if isinstance(n, ast.For) and is_name(n.target, "field")), "field loop")
    if ast.dump(loop.iter) != ast.dump(ast.parse('inpbuf.split(b"\\n")[2:]', mode="eval").body):
        raise Unsupported("field loop iterates over something else")
    st = loop.body
    if not (
        isinstance(st[0], ast.If)
        and isinstance(st[0].test, ast.Compare)
        and is_name(st[0].test.left, "field")
        and isinstance(st[0].test.ops[0], ast.Eq)
        and len(st[0].body) == 1
        and isinstance(st[0].body[0], ast.Break)
    ):
        raise Unsupported("end_head test of the field loop")
    end_marker = const(st[0].test.comparators[0], bytes)
    tr = st[1]
    want = (
        "field = field.decode().split()\nkey, fmt = field[:2]\nvalue = ' '.join(field[2:])\n"
        "if fmt == '-i':\n    value = int(value)\n"
    )
    if not (
        isinstance(tr, ast.Try)
        and ast.dump(ast.Module(body=tr.body, type_ignores=[])) == ast.dump(ast.parse(want))
        and len(tr.handlers) == 1
        and is_name(tr.handlers[0].type, "ValueError")
        and raises_error(tr.handlers[0].body)
        and not tr.orelse
        and not tr.finalbody
    ):
        raise Unsupported("tokenising block of the field loop changed")
    # key dispatch chain
    chain = st[2]
    if len(st) != 3 or not isinstance(chain, ast.If):
        raise Unsupported("field loop has unexpected statements")
    keys, prefixes, marker = [], None, None
    node = chain
    while True:
        t = node.test
        if not (isinstance(t, ast.Compare) and is_name(t.left, "key") and len(t.ops) == 1 and isinstance(t.ops[0], ast.Eq)):
            raise Unsupported("key dispatch test")
        k = const(t.comparators[0], str)
        body = node.body
        if len(body) == 1 and isinstance(body[0], ast.Assign) and is_name(body[0].value, "value") and is_name(body[0].targets[0]):
            var = body[0].targets[0].id
            if var not in HVARS or var == "samptype":
                raise Unsupported("key %s assigns %s" % (k, var))
            keys.append((k, HVARS[var][0]))
        else:
            want = (
                "shortened = 'shorten' in value\n"
                "for prefix in {'alaw', 'ulaw', 'pcm'}:\n"
                "    if value.startswith(prefix):\n        samptype = prefix\n"
            )
            got = ast.Module(body=body, type_ignores=[])
            # the marker and the prefixes are read out; the shape must be the known one
            try:
                m = body[0].value.left
                ps = body[1].iter.elts
                marker = const(m, str)
                prefixes = sorted(const(p, str) for p in ps)
            except (AttributeError, IndexError):
                raise Unsupported("sample_coding branch")
            canon = want.replace("'shorten'", repr(marker)).replace(
                "{'alaw', 'ulaw', 'pcm'}", "{" + ", ".join(repr(const(p, str)) for p in ps) + "}"
            )
            if ast.dump(got) != ast.dump(ast.parse(canon)):
                raise Unsupported("sample_coding branch changed")
            for p in prefixes:
                if p not in CODINGS:
                    raise Unsupported("unknown coding prefix %s" % p)
            for p in prefixes:
                for q in prefixes:
                    if p != q and p.startswith(q):
                        raise Unsupported("coding prefixes overlap (set iteration order would matter)")
            keys.append((k, "FCoding"))
        if not node.orelse:
            break
        if len(node.orelse) != 1 or not isinstance(node.orelse[0], ast.If):
            raise Unsupported("key dispatch has an else branch")
        node = node.orelse[0]
    if prefixes is None:
        raise Unsupported("sample_coding branch not found")
    if len(set(k for k, _ in keys)) != len(keys):
        raise Unsupported("duplicate key in dispatch")
    # statements after the loop
    body = fn.body
    i = body.index(loop)
    after = body[i + 1:]
    if not (
        len(after) == 5
        and isinstance(after[0], ast.If)
        and raises_error(after[0].body)
        and ast.dump(after[0].test) == ast.dump(ast.parse("field != %r" % end_marker, mode="eval").body)
    ):
        raise Unsupported("end_head check after the field loop")
    infer, reject, dflt, ret = after[1:]
    if not (
        isinstance(infer, ast.If)
        and not infer.orelse
        and ast.dump(ast.Module(body=infer.body, type_ignores=[])) == ast.dump(ast.parse("samptype = 'pcm'"))
    ):
        raise Unsupported("PCM inference statement")
    if not (isinstance(reject, ast.If) and raises_error(reject.body) and not reject.orelse):
        raise Unsupported("mandatory-field rejection")
    if not (
        isinstance(dflt, ast.If)
        and ast.dump(dflt) == ast.dump(ast.parse("if not sampsize:\n    sampsize = samptype & 3").body[0])
    ):
        raise Unsupported("sampsize default statement")
    if ast.dump(ret) != ast.dump(
        ast.parse("return samptype, sampsize, sampcount, samprate, chancount, inporder, shortened").body[0]
    ):
        raise Unsupported("return statement of read_header")
    inits = [n for n in body[:i] if isinstance(n, ast.Assign)]
    init_names = set()
    for n in inits:
        if isinstance(n.value, ast.Constant) and n.value.value is None:
            init_names |= {t.id for t in n.targets if isinstance(t, ast.Name)}
    if not set(HVARS) <= init_names:
        raise Unsupported("header variables are not all initialised to None")
    g1, a1 = guard_def("hdr_infer_pcm", infer.test)
    g2, a2 = guard_def("hdr_reject", reject.test)
    out += [
        "(* ---- read_header *)",
        "Definition hdr_first_read : Z := %d." % first,
        "Definition nist_magic : bytes := %s.  (* %r *)" % (bl(magic), magic),
        "Definition hdr_min_size : Z := %d." % hmin,
        "Definition end_marker : bytes := %s.  (* %r *)" % (bl(end_marker), end_marker),
        "Definition int_fmt : bytes := %s.  (* '-i' *)" % bl("-i"),
        "Definition shorten_marker : bytes := %s.  (* %r *)" % (bl(marker), marker),
        "Definition coding_prefixes : list (bytes * coding) :=\n  [%s]."
        % "; ".join("(%s, %s)" % (bl(p), CODINGS[p]) for p in prefixes),
        "Definition hdr_keys : list (bytes * hfield) :=\n  [%s]." % ";\n   ".join("(%s, %s) (* %s *)" % (bl(k), f, k) for k, f in keys),
        g1,
        g2,
        "",
    ]


# ---------------------------------------------------------------- copy_samples


def copy_samples(fn, out):
    nodes = list(ast.walk(fn))
    bs = one(
        (n.value for n in nodes if isinstance(n, ast.Assign) and len(n.targets) == 1 and is_name(n.targets[0], "buf_size")),
        "buf_size assignment",
    )
    bs = const(bs, int)
    if bs <= 0:
        raise Unsupported("buf_size not positive")
    reads = [
        n
        for n in nodes
        if isinstance(n, ast.Call) and isinstance(n.func, ast.Attribute) and n.func.attr == "read"
    ]
    r = one(reads, "read call in copy_samples")
    if not (len(r.args) == 1 and is_name(r.args[0], "buf_size")):
        raise Unsupported("copy_samples does not read buf_size bytes")
    magics = []
    for n in nodes:
        if isinstance(n, ast.Compare) and len(n.ops) == 1 and isinstance(n.ops[0], ast.Eq):
            a, b = n.left, n.comparators[0]
            if isinstance(a, ast.Subscript) and is_name(a.value, "inpbuf") and isinstance(b, ast.Constant) and type(b.value) is bytes:
                if not (isinstance(a.slice, ast.Slice) and a.slice.lower is None and const(a.slice.upper, int) == len(b.value)):
                    raise Unsupported("shorten magic slice")
                magics.append(b.value)
    magic = one(magics, "shorten magic test")
    # sampsize chain
    chain = one(
        (
            n
            for n in fn.body
            if isinstance(n, ast.If)
            and isinstance(n.test, ast.Compare)
            and is_name(n.test.left, "sampsize")
            and isinstance(n.test.ops[0], ast.Eq)
        ),
        "sampsize chain",
    )
    types = []
    node = chain
    while True:
        k = const(node.test.comparators[0], int)
        b = node.body
        if not (
            len(b) == 1
            and isinstance(b[0], ast.Assign)
            and is_name(b[0].targets[0], "in_type")
            and isinstance(b[0].value, ast.Attribute)
            and is_name(b[0].value.value, "np")
            and b[0].value.attr in NP_INT
        ):
            raise Unsupported("sampsize chain body")
        bits, signed = NP_INT[b[0].value.attr]
        if bits != 8 * k:
            raise Unsupported("in_type %s does not have %d bytes" % (b[0].value.attr, k))
        types.append((k, bits, signed))
        if len(node.orelse) == 1 and isinstance(node.orelse[0], ast.If):
            node = node.orelse[0]
            if not (isinstance(node.test, ast.Compare) and is_name(node.test.left, "sampsize") and isinstance(node.test.ops[0], ast.Eq)):
                raise Unsupported("sampsize chain test")
            continue
        if not raises_error(node.orelse):
            raise Unsupported("sampsize chain does not end in raise error")
        break
    out += [
        "(* ---- copy_samples *)",
        "Definition copy_buf_size : Z := %d." % bs,
        "Definition shorten_magic : bytes := %s.  (* %r *)" % (bl(magic), magic),
        "Definition in_types : list (Z * (Z * bool)) :=  (* itemsize, (bits, signed) *)\n  [%s]."
        % "; ".join("(%d, (%d, %s))" % (k, b, "true" if s else "false") for k, b, s in types),
        "",
    ]


def translate(src):
    tree = ast.parse(src)
    out = [
        "(* GENERATED by /verif/gen/sphere.py from src/pydrobert/speech/_sphere.py - do not edit *)",
        "From Coq Require Import ZArith List Bool.",
        "From Verif Require Import lib.C12_Py.",
        "Import ListNotations.",
        "Open Scope Z_scope.",
        "",
    ]
    for name in ("ULAW2PCM", "ALAW2PCM"):
        vals = table(tree, name)
        lines = []
        for i in range(0, 256, 16):
            lines.append("   " + "; ".join("(%d)" % v if v < 0 else "%d" % v for v in vals[i:i + 16]))
        out.append("Definition %s : list Z :=\n  [\n%s\n  ]." % (name, ";\n".join(lines)))
        out.append("")
    read_header(func(tree, "read_header"), out)
    copy_samples(func(tree, "copy_samples"), out)
    return "\n".join(out) + "\n"


def main(src_path, out_path):
    text = translate(open(src_path).read())
    if not os.path.exists(out_path) or open(out_path).read() != text:
        os.makedirs(os.path.dirname(out_path), exist_ok=True)
        open(out_path, "w").write(text)
    return text


if __name__ == "__main__":
    print(main(sys.argv[1], sys.argv[2]))
