"""Translate pydrobert/speech/post.py::Standardize into coq/gen/StandardizeK.v.

What is generated: the *scalar kernels* of the class - the dimension checks, the
per-element updates of the sufficient statistics (count, sum, sum of squares) on
the vector and on the tensor route, the mean / variance / closeness /
replacement formulas of apply on its three routes (vector, tensor with global
statistics, tensor with local statistics) as terms over an abstract number
structure (lib/C16_Num.v), and the final affine map ``x * scales - means *
scales`` with ``scales = 1 / varss ** 0.5`` as a term over R.
coq/C16/Model.v is built on these definitions, so the theorems of coq/C16 are
re-checked against the formulas the source contains *now*.

What is only checked (not generated): the NumPy plumbing around the kernels -
argument guards, dispatch on ndim, ``other_axes``, the float64 cast, broadcasting
slices, the control flow of the four routines.  It is compared, statement by
statement, with the shapes Model.v was written for.

Fail closed, with two kinds of failure:
 * ``Unsafe``  - a recognised construct whose meaning the exact model cannot
   represent (arithmetic carried out in the input's dtype instead of float64, an
   unknown function inside a formula, a different reduction axis ...): the tie is
   broken.
 * ``Unsupported`` (from pyexpr) - the structure of a routine is not the one the
   model was written for (extra statements, helper methods, caching ...): the
   harness then falls back to REFERENCE (the kernels of the pinned source) and
   relies on the correspondence check alone; it says so in its log and evidence.
"""

import ast
import os
import sys

sys.path.insert(0, os.path.dirname(os.path.abspath(__file__)))
from pyexpr import Unsupported  # noqa: E402


class Unsafe(Exception):
    pass


# --------------------------------------------------------------------------
# helpers


def norm_dump(node):
    """ast.dump with string constants blanked (messages are not behaviour)."""

    class Blank(ast.NodeTransformer):
        def visit_Constant(self, n):
            if isinstance(n.value, str):
                return ast.copy_location(ast.Constant(value=""), n)
            return n

    import copy

    return ast.dump(Blank().visit(copy.deepcopy(node)))


def parse_stmt(src):
    return ast.parse(src).body[0]


def parse_expr(src):
    return ast.parse(src, mode="eval").body


def same(node, src, what):
    ref = parse_stmt(src) if isinstance(node, ast.stmt) else parse_expr(src)
    if norm_dump(node) != norm_dump(ref):
        raise Unsupported("%s: expected `%s`, found `%s`" % (what, src, ast.unparse(node)))


def is_raise(st, exc="ValueError"):
    return (
        isinstance(st, ast.Raise)
        and isinstance(st.exc, ast.Call)
        and isinstance(st.exc.func, ast.Name)
        and st.exc.func.id == exc
    )


def is_warn(st):
    return (
        isinstance(st, ast.Expr)
        and isinstance(st.value, ast.Call)
        and ast.unparse(st.value.func) == "warnings.warn"
    )


def body_of(fn):
    b = list(fn.body)
    if b and isinstance(b[0], ast.Expr) and isinstance(b[0].value, ast.Constant) and isinstance(b[0].value.value, str):
        b = b[1:]
    return b


def is_f64(node):
    return ast.unparse(node) in ("np.float64", "numpy.float64", "'float64'", "float")


OTHER_AXES = "other_axes = tuple(idx for idx in range(len(tensor.shape)) if idx != axis % len(tensor.shape))"
PROD_OTHER = "np.prod(tuple(tensor.shape[idx] for idx in other_axes))"


# --------------------------------------------------------------------------
# expression translation over the number structure N (generic) or over R


class KTr:
    """Array expression -> per-element term.  Values carry a flag: computed in float64?"""

    def __init__(self, env, real=False):
        self.env = dict(env)  # python source text -> (coq term, is_float64)
        self.real = real

    def lit(self, v):
        if isinstance(v, bool) or not isinstance(v, int):
            raise Unsafe("literal %r in a formula" % (v,))
        if self.real:
            return "%d" % v if v >= 0 else "(%d)" % v
        return "(nofZ N %d)" % v if v >= 0 else "(nofZ N (%d))" % v

    def op(self, name, a, b):
        if self.real:
            return "(%s %s %s)" % (a, {"add": "+", "sub": "-", "mul": "*", "div": "/"}[name], b)
        return "(n%s N %s %s)" % (name, a, b)

    def expr(self, e):
        """-> (term, is_f64)."""
        key = ast.unparse(e)
        if key in self.env:
            return self.env[key]
        if isinstance(e, ast.Constant):
            return self.lit(e.value), True
        if isinstance(e, ast.BinOp):
            if isinstance(e.op, ast.Pow):
                a, fa = self.expr(e.left)
                if not fa:
                    raise Unsafe("`%s`: power taken in the input's dtype, not float64" % key)
                if isinstance(e.right, ast.Constant) and isinstance(e.right.value, int) and e.right.value >= 0:
                    return ("(%s ^ %d)" % (a, e.right.value) if self.real else "(npow N %s %d)" % (a, e.right.value)), True
                if self.real and isinstance(e.right, ast.Constant) and e.right.value == 0.5:
                    return "(sqrt %s)" % a, True
                raise Unsafe("exponent in `%s`" % key)
            names = {ast.Add: "add", ast.Sub: "sub", ast.Mult: "mul", ast.Div: "div"}
            if type(e.op) not in names:
                raise Unsafe("operator in `%s`" % key)
            a, fa = self.expr(e.left)
            b, fb = self.expr(e.right)
            if not (fa and fb):
                raise Unsafe("`%s`: arithmetic carried out in the input's dtype, not float64" % key)
            return self.op(names[type(e.op)], a, b), True
        if isinstance(e, ast.Call):
            fn = ast.unparse(e.func)
            kw = {k.arg: k.value for k in e.keywords}
            # X.astype(np.float64)
            if isinstance(e.func, ast.Attribute) and e.func.attr == "astype":
                if len(e.args) == 1 and is_f64(e.args[0]) and set(kw) <= {"copy"}:
                    a, _ = self.expr(e.func.value)
                    return a, True
                raise Unsafe("cast `%s` is not to float64" % key)
            if fn in ("np.square", "numpy.square") and len(e.args) == 1 and set(kw) <= {"dtype"}:
                a, fa = self.expr(e.args[0])
                if "dtype" in kw:
                    if not is_f64(kw["dtype"]):
                        raise Unsafe("`%s`: square computed in %s" % (key, ast.unparse(kw["dtype"])))
                elif not fa:
                    raise Unsafe("`%s`: square computed in the input's dtype, not float64" % key)
                return self.op("mul", a, a), True
            raise Unsafe("call `%s` inside a formula" % key)
        if isinstance(e, ast.UnaryOp) and isinstance(e.op, ast.USub):
            a, fa = self.expr(e.operand)
            if not fa:
                raise Unsafe("`%s`: arithmetic in the input's dtype" % key)
            return ("(- %s)" % a if self.real else "(nopp N %s)" % a), True
        raise Unsafe("expression `%s` inside a formula" % key)

    def reduced(self, e):
        """``<elementwise E>.sum(axis=other_axes[, dtype=np.float64])`` -> elementwise term."""
        if not (isinstance(e, ast.Call) and isinstance(e.func, ast.Attribute) and e.func.attr == "sum" and not e.args):
            raise Unsafe("`%s` is not a sum over the other axes" % ast.unparse(e))
        kw = {k.arg: k.value for k in e.keywords}
        if set(kw) - {"axis", "dtype"} or "axis" not in kw or ast.unparse(kw["axis"]) != "other_axes":
            raise Unsafe("`%s` does not reduce over other_axes" % ast.unparse(e))
        a, fa = self.expr(e.func.value)
        if "dtype" in kw:
            if not is_f64(kw["dtype"]):
                raise Unsafe("`%s`: sum accumulated in %s" % (ast.unparse(e), ast.unparse(kw["dtype"])))
        elif not fa:
            raise Unsafe("`%s`: sum accumulated in the input's dtype, not float64" % ast.unparse(e))
        return a


# --------------------------------------------------------------------------
# the routines


def stats_target(t):
    """self._stats[0, -1] -> 'cnt' ; [0, :-1] -> 'sum' ; [1, :-1] -> 'sq'."""
    s = ast.unparse(t)
    return {"self._stats[0, -1]": "cnt", "self._stats[0, :-1]": "sum", "self._stats[1, :-1]": "sq"}.get(s)


def alloc_and_check(st, prefix, out, with_alloc):
    """if self._stats is None: self._stats = np.zeros((2, E)) elif self._stats.shape[1] != E2: raise ValueError"""
    tr = _ZTr()
    if with_alloc:
        if not (isinstance(st, ast.If) and ast.unparse(st.test) == "self._stats is None" and len(st.body) == 1 and len(st.orelse) == 1):
            raise Unsupported("%s: allocation / dimension check" % prefix)
        a = st.body[0]
        if not (isinstance(a, ast.Assign) and ast.unparse(a.targets[0]) == "self._stats" and isinstance(a.value, ast.Call)
                and ast.unparse(a.value.func) == "np.zeros" and len(a.value.args) == 1
                and isinstance(a.value.args[0], ast.Tuple) and len(a.value.args[0].elts) == 2
                and ast.unparse(a.value.args[0].elts[0]) == "2"):
            raise Unsupported("%s: allocation of the statistics matrix" % prefix)
        kws = {k.arg: k.value for k in a.value.keywords}
        if set(kws) - {"dtype"} or ("dtype" in kws and not is_f64(kws["dtype"])):
            raise Unsafe("%s: statistics matrix is not float64" % prefix)
        out.append("Definition %s_newcols (num_coeffs : Z) : Z := %s." % (prefix, tr.expr(a.value.args[0].elts[1])))
        chk = st.orelse[0]
        if not (isinstance(chk, ast.If) and not chk.orelse and len(chk.body) == 1 and is_raise(chk.body[0])):
            raise Unsupported("%s: dimension check" % prefix)
        test = chk.test
    else:
        if not (isinstance(st, ast.If) and not st.orelse and len(st.body) == 1 and is_raise(st.body[0])
                and isinstance(st.test, ast.BoolOp) and isinstance(st.test.op, ast.And) and len(st.test.values) == 2
                and ast.unparse(st.test.values[0]) == "self._stats is not None"):
            raise Unsupported("%s: dimension check" % prefix)
        test = st.test.values[1]
    if not (isinstance(test, ast.Compare) and len(test.ops) == 1 and ast.unparse(test.left) == "self._stats.shape[1]"):
        raise Unsupported("%s: dimension check condition" % prefix)
    rhs = tr.expr(test.comparators[0])
    if isinstance(test.ops[0], ast.NotEq):
        out.append("Definition %s_mismatch (ncols num_coeffs : Z) : bool := negb (ncols =? %s)." % (prefix, rhs))
    else:
        raise Unsafe("%s: dimension check uses `%s`" % (prefix, ast.unparse(test)))


class _ZTr:
    """Integer expressions in num_coeffs."""

    def expr(self, e):
        if isinstance(e, ast.Constant) and isinstance(e.value, int) and not isinstance(e.value, bool):
            return "%d" % e.value if e.value >= 0 else "(%d)" % e.value
        if isinstance(e, ast.Name) and e.id == "num_coeffs":
            return "num_coeffs"
        if isinstance(e, ast.BinOp) and type(e.op) in (ast.Add, ast.Sub, ast.Mult):
            return "(%s %s %s)" % (self.expr(e.left), {ast.Add: "+", ast.Sub: "-", ast.Mult: "*"}[type(e.op)], self.expr(e.right))
        raise Unsafe("integer expression `%s`" % ast.unparse(e))


def accumulate_vector(fn, gen):
    b = body_of(fn)
    if [a.arg for a in fn.args.args] != ["self", "vec"] or len(b) != 5:
        raise Unsupported("_accumulate_vector: signature / number of statements")
    same(b[0], "num_coeffs = len(vec)", "_accumulate_vector")
    alloc_and_check(b[1], "kav", gen["z"], True)
    seen = {}
    tr = KTr({"vec": ("x", False)})
    for st in b[2:]:
        if not (isinstance(st, ast.AugAssign) and isinstance(st.op, ast.Add) and stats_target(st.target)):
            raise Unsupported("_accumulate_vector: `%s`" % ast.unparse(st))
        k = stats_target(st.target)
        if k in seen:
            raise Unsupported("_accumulate_vector: %s updated twice" % k)
        val, f64 = tr.expr(st.value)
        if not f64:
            raise Unsafe("_accumulate_vector: `%s` adds a value that was not converted to float64" % ast.unparse(st))
        seen[k] = val
    if set(seen) != {"cnt", "sum", "sq"}:
        raise Unsupported("_accumulate_vector: updates %s" % sorted(seen))
    gen["k"] += [
        "(* _accumulate_vector *)",
        "Definition kav_cnt (c : K) : K := (nadd N c %s)." % seen["cnt"],
        "Definition kav_sum (s x : K) : K := (nadd N s %s)." % seen["sum"],
        "Definition kav_sq (s x : K) : K := (nadd N s %s)." % seen["sq"],
    ]


def accumulate_tensor(fn, gen):
    b = body_of(fn)
    if [a.arg for a in fn.args.args] != ["self", "tensor", "axis"] or len(b) != 6:
        raise Unsupported("_accumulate_tensor: signature / number of statements")
    same(b[0], "num_coeffs = tensor.shape[axis]", "_accumulate_tensor")
    alloc_and_check(b[1], "kat", gen["z"], True)
    same(b[2], OTHER_AXES, "_accumulate_tensor")
    seen = {}
    tr = KTr({"tensor": ("x", False)})
    for st in b[3:]:
        if not (isinstance(st, ast.AugAssign) and isinstance(st.op, ast.Add) and stats_target(st.target)):
            raise Unsupported("_accumulate_tensor: `%s`" % ast.unparse(st))
        k = stats_target(st.target)
        if k in seen:
            raise Unsupported("_accumulate_tensor: %s updated twice" % k)
        if k == "cnt":
            same(st.value, PROD_OTHER, "_accumulate_tensor count")
            seen[k] = True
        else:
            seen[k] = tr.reduced(st.value)
    if set(seen) != {"cnt", "sum", "sq"}:
        raise Unsupported("_accumulate_tensor: updates %s" % sorted(seen))
    gen["k"] += [
        "(* _accumulate_tensor: elementwise term, summed over the other axes, added *)",
        "Definition kat_cnt (c p : K) : K := (nadd N c p).",
        "Definition kat_sum_elem (x : K) : K := %s." % seen["sum"],
        "Definition kat_sum (s r : K) : K := (nadd N s r).",
        "Definition kat_sq_elem (x : K) : K := %s." % seen["sq"],
        "Definition kat_sq (s r : K) : K := (nadd N s r).",
    ]


CAST = "if not in_place or {0}.dtype != np.float64:\n    {0} = {0}.astype(np.float64)"


def closeness(stmts, prefix, gen, what):
    """close_zero = np.isclose(varss, 0); if np.any(close_zero): warn; varss[close_zero] = C"""
    if len(stmts) != 2:
        raise Unsupported("%s: zero-variance handling" % what)
    c = stmts[0]
    if not (isinstance(c, ast.Assign) and ast.unparse(c.targets[0]) == "close_zero" and isinstance(c.value, ast.Call)
            and ast.unparse(c.value.func) == "np.isclose" and len(c.value.args) == 2 and not c.value.keywords
            and ast.unparse(c.value.args[0]) == "varss"):
        raise Unsafe("%s: closeness test `%s`" % (what, ast.unparse(c)))
    ref, _ = KTr({}).expr(c.value.args[1])
    gen["k"].append("Definition %s_close (v : K) : bool := (nisclose N v %s)." % (prefix, ref))
    r = stmts[1]
    if not (isinstance(r, ast.If) and ast.unparse(r.test) == "np.any(close_zero)" and not r.orelse and len(r.body) == 2 and is_warn(r.body[0])):
        raise Unsupported("%s: zero-variance replacement" % what)
    a = r.body[1]
    if not (isinstance(a, ast.Assign) and ast.unparse(a.targets[0]) == "varss[close_zero]"):
        raise Unsupported("%s: zero-variance replacement" % what)
    val, _ = KTr({}).expr(a.value)
    gen["k"].append("Definition %s_repl : K := %s." % (prefix, val))


def affine(stmts, name, prefix, gen, scales_norm, scales_plain, sliced):
    """x *= scales ; x -= means * scales   (with [tensor_slice] on the tensor route)."""
    if len(stmts) != 2:
        raise Unsupported("%s: final affine map" % prefix)
    for kind, scales in (("norm", scales_norm), ("plain", scales_plain)):
        env = {name: ("x", True), "means": ("m", True), "varss": ("v", True)}
        tr = KTr(env, real=True)
        sc, _ = tr.expr(scales)
        tr.env["scales"] = ("v_scales", True)
        cur = "x"
        lets = [("v_scales", sc)]
        for i, st in enumerate(stmts):
            if not (isinstance(st, ast.AugAssign) and ast.unparse(st.target) == name and type(st.op) in (ast.Mult, ast.Sub, ast.Add, ast.Div)):
                raise Unsupported("%s: `%s`" % (prefix, ast.unparse(st)))
            v = st.value
            if sliced:
                if not (isinstance(v, ast.Subscript) and ast.unparse(v.slice) == "tensor_slice"):
                    raise Unsafe("%s: `%s` is not broadcast along the chosen axis" % (prefix, ast.unparse(st)))
                v = v.value
            tr.env[name] = (cur, True)
            rhs, _ = tr.expr(v)
            opn = {ast.Mult: "*", ast.Sub: "-", ast.Add: "+", ast.Div: "/"}[type(st.op)]
            term = "(%s %s %s)" % (cur, opn, rhs)
            if i + 1 < len(stmts):
                lets.append(("v_" + name, term))
                cur = "v_" + name
            else:
                body = term
        for n_, t_ in reversed(lets):
            body = "(let %s := %s in %s)" % (n_, t_, body)
        args = "(x m v : R)" if kind == "norm" else "(x m : R)"
        gen["r"].append("Definition %s_out_%s %s : R := %s." % (prefix, kind, args, body))


def global_stats(stmts, prefix, gen, what, need_var=True):
    """count = self._stats[0, -1]; means = self._stats[0, :-1] / count; [varss = ...]"""
    same(stmts[0], "count = self._stats[0, -1]", what)
    env = {"self._stats[0, :-1]": ("s", True), "self._stats[1, :-1]": ("q", True), "count": ("c", True)}
    m = stmts[1]
    if not (isinstance(m, ast.Assign) and ast.unparse(m.targets[0]) == "means"):
        raise Unsupported("%s: means" % what)
    gen["k"].append("Definition %s_mean (s c : K) : K := %s." % (prefix, KTr(env).expr(m.value)[0]))
    if need_var:
        var_stmt(stmts[2], prefix, gen, what, env)


def var_stmt(v, prefix, gen, what, env):
    if not (isinstance(v, ast.Assign) and ast.unparse(v.targets[0]) == "varss"):
        raise Unsupported("%s: varss" % what)
    e2 = dict(env)
    e2["means"] = ("m", True)
    gen["k"].append("Definition %s_var (q c m : K) : K := %s." % (prefix, KTr(e2).expr(v.value)[0]))


def no_stats_branch(stmts, name, what, returns):
    """if self._norm_var: raise ValueError else: warn; x[...] = 0 [; return x]"""
    n = 3 if returns else 2
    if not (len(stmts) == 1 and isinstance(stmts[0], ast.If) and ast.unparse(stmts[0].test) == "self._norm_var"
            and len(stmts[0].body) == 1 and is_raise(stmts[0].body[0]) and len(stmts[0].orelse) == n
            and is_warn(stmts[0].orelse[0])):
        raise Unsupported("%s: no-statistics branch" % what)
    same(stmts[0].orelse[1], "%s[...] = 0" % name, what)
    if returns:
        same(stmts[0].orelse[2], "return %s" % name, what)


def apply_vector(fn, gen):
    b = body_of(fn)
    if [a.arg for a in fn.args.args] != ["self", "vec", "in_place"] or len(b) != 5:
        raise Unsupported("_apply_vector: signature / number of statements")
    same(b[0], "num_coeffs = len(vec)", "_apply_vector")
    alloc_and_check(b[1], "kpv", gen["z"], False)
    same(b[2], CAST.format("vec"), "_apply_vector")
    same(b[4], "return vec", "_apply_vector")
    main = b[3]
    if not (isinstance(main, ast.If) and ast.unparse(main.test) == "self.have_stats"):
        raise Unsupported("_apply_vector: have_stats branch")
    hb = main.body
    if len(hb) != 5:
        raise Unsupported("_apply_vector: statistics branch")
    gen["k"].append("(* _apply_vector *)")
    global_stats(hb[:2], "kpv", gen, "_apply_vector", need_var=False)
    nv = hb[2]
    if not (isinstance(nv, ast.If) and ast.unparse(nv.test) == "self._norm_var" and len(nv.body) == 4 and len(nv.orelse) == 1):
        raise Unsupported("_apply_vector: norm_var branch")
    env = {"self._stats[0, :-1]": ("s", True), "self._stats[1, :-1]": ("q", True), "count": ("c", True)}
    var_stmt(nv.body[0], "kpv", gen, "_apply_vector", env)
    closeness(nv.body[1:3], "kpv", gen, "_apply_vector")
    sn, sp = nv.body[3], nv.orelse[0]
    for s_ in (sn, sp):
        if not (isinstance(s_, ast.Assign) and ast.unparse(s_.targets[0]) == "scales"):
            raise Unsupported("_apply_vector: scales")
    affine(hb[3:], "vec", "kpv", gen, sn.value, sp.value, False)
    no_stats_branch(main.orelse, "vec", "_apply_vector", False)


def apply_tensor(fn, gen):
    b = body_of(fn)
    if [a.arg for a in fn.args.args] != ["self", "tensor", "axis", "in_place"] or len(b) != 12:
        raise Unsupported("_apply_tensor: signature / number of statements")
    same(b[0], "num_coeffs = tensor.shape[axis]", "_apply_tensor")
    alloc_and_check(b[1], "kpt", gen["z"], False)
    same(b[2], OTHER_AXES, "_apply_tensor")
    same(b[3], CAST.format("tensor"), "_apply_tensor")
    main = b[4]
    if not (isinstance(main, ast.If) and ast.unparse(main.test) == "self.have_stats" and len(main.body) == 3
            and len(main.orelse) == 1 and isinstance(main.orelse[0], ast.If)):
        raise Unsupported("_apply_tensor: have_stats branch")
    gen["k"].append("(* _apply_tensor, global statistics *)")
    global_stats(main.body, "kpt", gen, "_apply_tensor")
    single = main.orelse[0]
    same(single.test, "sum(tensor.shape[idx] for idx in other_axes) == len(other_axes)", "_apply_tensor single-vector test")
    no_stats_branch(single.body, "tensor", "_apply_tensor", True)
    loc = single.orelse
    if len(loc) != 3:
        raise Unsupported("_apply_tensor: local statistics branch")
    same(loc[0], "count = " + PROD_OTHER, "_apply_tensor local count")
    gen["k"].append("(* _apply_tensor, local statistics: mean = sum / count over the other axes *)")
    m = loc[1]
    same(m, "means = tensor.mean(axis=other_axes)", "_apply_tensor local mean")
    gen["k"].append("Definition kpl_mean (s c : K) : K := (ndiv N s c).")
    v = loc[2]
    if not (isinstance(v, ast.Assign) and ast.unparse(v.targets[0]) == "varss"):
        raise Unsupported("_apply_tensor: local varss")
    # find the reduction inside the variance formula
    red = [n for n in ast.walk(v.value) if isinstance(n, ast.Call) and isinstance(n.func, ast.Attribute) and n.func.attr == "sum"]
    if len(red) != 1:
        raise Unsafe("_apply_tensor: local variance `%s`" % ast.unparse(v.value))
    elem = KTr({"tensor": ("x", True)}).reduced(red[0])
    gen["k"].append("Definition kpl_sq_elem (x : K) : K := %s." % elem)
    env = {ast.unparse(red[0]): ("q", True), "count": ("c", True), "means": ("m", True)}
    gen["k"].append("Definition kpl_var (q c m : K) : K := %s." % KTr(env).expr(v.value)[0])
    nv = b[5]
    if not (isinstance(nv, ast.If) and ast.unparse(nv.test) == "self._norm_var" and len(nv.body) == 3 and len(nv.orelse) == 1):
        raise Unsupported("_apply_tensor: norm_var branch")
    gen["k"].append("(* _apply_tensor, both *)")
    closeness(nv.body[0:2], "kpt", gen, "_apply_tensor")
    sn, sp = nv.body[2], nv.orelse[0]
    for s_ in (sn, sp):
        if not (isinstance(s_, ast.Assign) and ast.unparse(s_.targets[0]) == "scales"):
            raise Unsupported("_apply_tensor: scales")
    plain = sp.value
    if ast.unparse(plain) == "np.ones(1)":
        plain = ast.Constant(value=1)
    same(b[6], "tensor_slice = [None] * len(tensor.shape)", "_apply_tensor")
    same(b[7], "tensor_slice[axis] = slice(None)", "_apply_tensor")
    same(b[8], "tensor_slice = tuple(tensor_slice)", "_apply_tensor")
    affine(b[9:11], "tensor", "kpt", gen, sn.value, plain, True)
    same(b[11], "return tensor", "_apply_tensor")


DISPATCH = {
    "have_stats": "return self._stats is not None and self._stats[0, -1]",
    "accumulate": (
        "if features.shape and (not np.prod(features.shape)) or (not len(features)):\n    raise ValueError('')",
        "if features.shape and features.ndim > 1:\n    self._accumulate_tensor(features, axis)\nelse:\n    self._accumulate_vector(features)",
    ),
    "apply": (
        "if features.shape and (not np.prod(features.shape)) or (not len(features)):\n    raise ValueError('')",
        "if features.shape and features.ndim > 1:\n    return self._apply_tensor(features, axis, in_place)\nelse:\n    return self._apply_vector(features, in_place)",
    ),
}


def translate(src):
    tree = ast.parse(src)
    cls = [n for n in tree.body if isinstance(n, ast.ClassDef) and n.name == "Standardize"]
    if len(cls) != 1:
        raise Unsupported("class Standardize not found")
    methods = {n.name: n for n in cls[0].body if isinstance(n, ast.FunctionDef)}
    for need in ("_accumulate_vector", "_accumulate_tensor", "_apply_vector", "_apply_tensor", "accumulate", "apply", "have_stats"):
        if need not in methods:
            raise Unsupported("method %s not found" % need)
    known = {"__init__", "_sanitize_stats", "have_stats", "_accumulate_vector", "_accumulate_tensor", "accumulate",
             "_apply_vector", "_apply_tensor", "apply", "save"}
    extra = set(methods) - known
    if extra:
        raise Unsupported("unexpected methods %s" % sorted(extra))
    # plumbing
    hs = body_of(methods["have_stats"])
    if len(hs) != 1:
        raise Unsupported("have_stats")
    same(hs[0], DISPATCH["have_stats"], "have_stats")
    for name in ("accumulate", "apply"):
        bb = body_of(methods[name])
        if len(bb) != 2:
            raise Unsupported("%s: dispatcher" % name)
        same(bb[0], DISPATCH[name][0], name + " guard")
        same(bb[1], DISPATCH[name][1], name + " dispatch")
    # nothing but accumulate may write the statistics (besides __init__ / _sanitize_stats)
    for name, fn in methods.items():
        if name in ("__init__", "_sanitize_stats", "_accumulate_vector", "_accumulate_tensor"):
            continue
        for n in ast.walk(fn):
            tgt = []
            if isinstance(n, ast.Assign):
                tgt = n.targets
            elif isinstance(n, (ast.AugAssign, ast.AnnAssign)):
                tgt = [n.target]
            for t in tgt:
                if "self." in ast.unparse(t):
                    raise Unsupported("%s assigns to `%s`: instance state outside the model" % (name, ast.unparse(t)))
    gen = {"z": [], "k": [], "r": []}
    accumulate_vector(methods["_accumulate_vector"], gen)
    accumulate_tensor(methods["_accumulate_tensor"], gen)
    apply_vector(methods["_apply_vector"], gen)
    apply_tensor(methods["_apply_tensor"], gen)
    out = [
        "(* GENERATED by /verif/gen/standardize.py from src/pydrobert/speech/post.py - do not edit *)",
        "From Coq Require Import ZArith Bool Reals.",
        "From Verif Require Import lib.C16_Num.",
        "Open Scope Z_scope.",
        "",
        "(* dimension checks and the width of a fresh statistics matrix *)",
    ]
    out += gen["z"]
    out += ["", "Section K.", "Variable N : NumOps.", "Notation K := (T N)."]
    out += gen["k"]
    out += ["End K.", "", "Open Scope R_scope.", "(* the final affine map, over R (x ** 0.5 is sqrt x) *)"]
    out += gen["r"]
    return "\n".join(out) + "\n"


def main(src_path, out_path, fallback=False):
    text = REFERENCE if fallback else translate(open(src_path).read())
    if not os.path.exists(out_path) or open(out_path).read() != text:
        os.makedirs(os.path.dirname(out_path), exist_ok=True)
        open(out_path, "w").write(text)
    return text


# The kernels of the pinned source; written when the structure of the class is not
# recognised (Unsupported), so that the hand-written model can still be compared with
# the implementation by the correspondence check.
REFERENCE = None


def _load_reference():
    p = os.path.join(os.path.dirname(os.path.abspath(__file__)), "standardize_reference.v")
    return open(p).read() if os.path.exists(p) else None


REFERENCE = _load_reference()

if __name__ == "__main__":
    print(main(sys.argv[1], sys.argv[2]))
