"""Translate the decision logic of Standardize.save / Standardize.__init__ /
Standardize._sanitize_stats (post.py) and of read_signal's dispatch (util.py)
into coq/gen/StatsIO.v.

What is *translated* (the generated Coq text follows the source):
  * save: the guard ``if not self.have_stats: raise ValueError``, the
    ``endswith`` chain that picks np.save / archive / tofile, the condition under
    which the existing archive is loaded first, the exceptions that ``try``
    swallows, the condition under which a default key is searched, the pattern
    and start of the default keys, which of savez / savez_compressed each value
    of ``compress`` selects;
  * __init__: the tuple of dtypes probed, the tuple of exception classes the
    probing loop swallows, the exception raised when all fail, the number of
    dimensions that triggers _sanitize_stats, the error for stray kwargs;
  * _sanitize_stats: the validity expression (``valid = ...; valid &= ...``),
    the exception the ``try`` swallows, the decision (keep / retry / raise) as a
    function of (valid, checked_other_float), and per loaded dtype which
    re-interpretation is tried;
  * util.py: the if/elif chain of _infer_force_as_from_rfilename (the regular
    expression test and the soundfile-extension test stay opaque booleans), the
    force_as -> reader dispatch of read_signal, the archive key defaulting.
What is only *shape-checked* (fail closed when it no longer has the expected
statement skeleton): everything else in those function bodies.

Fail closed: any construct outside the recognised forms raises Unsupported and
the check reports the tie as broken.
"""

import ast
import os
import sys


class Unsupported(Exception):
    pass


def U(msg, node=None):
    where = ""
    if node is not None and hasattr(node, "lineno"):
        where = " (line %d: %s)" % (node.lineno, ast.unparse(node)[:80])
    return Unsupported(msg + where)


EXN = {
    "ValueError": "ValueError",
    "IOError": "IOError",
    "OSError": "IOError",
    "FileNotFoundError": "IOError",
    "TypeError": "TypeError",
    "KeyError": "KeyError",
    "IndexError": "IndexError",
    "AttributeError": "AttributeError",
    "ImportError": "ImportError",
}

FORCE_AS = {
    "table": "FaTable",
    "wav": "FaWav",
    "hdf5": "FaHdf5",
    "npy": "FaNpy",
    "npz": "FaNpz",
    "pt": "FaPt",
    "sph": "FaSph",
    "kaldi": "FaKaldi",
    "file": "FaFile",
    "soundfile": "FaSoundfile",
}

READERS = {
    "_numpy_binary_read_signal": "RNumpyBinary",
    "_numpy_archive_read_signal": "RNumpyArchive",
    "_numpy_fromfile_read_signal": "RFromfile",
}


def coq_str(s):
    if not isinstance(s, str) or any(ord(c) < 32 or ord(c) > 126 for c in s):
        raise Unsupported("string literal %r" % (s,))
    return '"%s"%%string' % s.replace('"', '""')


def strip_doc(body):
    if body and isinstance(body[0], ast.Expr) and isinstance(body[0].value, ast.Constant) and isinstance(body[0].value.value, str):
        return body[1:]
    return body


def unp(n):
    return ast.unparse(n)


def exn_of(node):
    """exception class named in ``raise X(...)`` / ``except X``"""
    if isinstance(node, ast.Call):
        node = node.func
    if isinstance(node, ast.Name) and node.id in EXN:
        return EXN[node.id]
    raise U("unknown exception class", node)


def exn_list(node):
    if node is None:
        raise Unsupported("bare except")
    if isinstance(node, ast.Tuple):
        return [exn_of(e) for e in node.elts]
    return [exn_of(node)]


def raise_exn(stmt):
    if not (isinstance(stmt, ast.Raise) and stmt.exc is not None and stmt.cause is None):
        raise U("expected raise", stmt)
    return exn_of(stmt.exc)


def bexpr(node, atom):
    """Python condition -> Coq bool term.  ``atom(node)`` returns a Coq term for
    the recognised leaves, or None."""
    a = atom(node)
    if a is not None:
        return a
    if isinstance(node, ast.UnaryOp) and isinstance(node.op, ast.Not):
        return "(negb %s)" % bexpr(node.operand, atom)
    if isinstance(node, ast.BoolOp):
        op = "&&" if isinstance(node.op, ast.And) else "||"
        return "(" + (" %s " % op).join(bexpr(v, atom) for v in node.values) + ")"
    if isinstance(node, ast.Constant) and isinstance(node.value, bool):
        return "true" if node.value else "false"
    raise U("condition", node)


def if_chain(stmt):
    """[(test, body), ..., (None, else_body)] of an if/elif/else statement."""
    out = []
    while True:
        if not isinstance(stmt, ast.If):
            raise U("expected if", stmt)
        out.append((stmt.test, stmt.body))
        if len(stmt.orelse) == 1 and isinstance(stmt.orelse[0], ast.If):
            stmt = stmt.orelse[0]
            continue
        out.append((None, stmt.orelse))
        return out


# --------------------------------------------------------------------------
# post.py


def find_class(tree, name):
    for n in tree.body:
        if isinstance(n, ast.ClassDef) and n.name == name:
            return n
    raise Unsupported("class %s not found" % name)


def find_def(body, name):
    for n in body:
        if isinstance(n, ast.FunctionDef) and n.name == name:
            return n
    raise Unsupported("function %s not found" % name)


def arg_names(fn):
    a = fn.args
    return [x.arg for x in a.posonlyargs + a.args], (a.vararg.arg if a.vararg else None), (a.kwarg.arg if a.kwarg else None), [x.arg for x in a.kwonlyargs]


def tr_have_stats(fn):
    body = strip_doc(fn.body)
    if len(body) != 1 or not isinstance(body[0], ast.Return):
        raise U("have_stats body", fn)
    if unp(body[0].value) != "self._stats is not None and self._stats[0, -1]":
        raise U("have_stats expression", body[0])
    return []


def tr_save(fn):
    names, va, kw, ko = arg_names(fn)
    if names != ["self", "wfilename", "key", "compress", "overwrite"] or va or kw or ko:
        raise U("save signature", fn)
    defaults = [unp(d) for d in fn.args.defaults]
    if defaults != ["None", "False", "True"]:
        raise Unsupported("save defaults %r" % (defaults,))
    body = strip_doc(fn.body)
    if len(body) != 2:
        raise U("save: expected guard + dispatch", fn)
    out = []
    # -- guard
    g = body[0]
    if not (isinstance(g, ast.If) and not g.orelse and len(g.body) == 1):
        raise U("save guard", g)

    def atom_hs(n):
        if unp(n) == "self.have_stats":
            return "have_stats"
        return None

    out.append(
        "Definition save_guard (have_stats : bool) : option exn :=\n  if %s then Some %s else None."
        % (bexpr(g.test, atom_hs), raise_exn(g.body[0]))
    )
    # -- dispatch
    chain = if_chain(body[1])

    def atom_suffix(n):
        if (
            isinstance(n, ast.Call)
            and isinstance(n.func, ast.Attribute)
            and n.func.attr == "endswith"
            and unp(n.func.value) == "wfilename"
            and len(n.args) == 1
            and not n.keywords
            and isinstance(n.args[0], ast.Constant)
            and isinstance(n.args[0].value, str)
        ):
            return "(ends_with %s wfilename)" % coq_str(n.args[0].value)
        return None

    npz_body = None
    terms = []
    for test, b in chain:
        if len(b) == 1 and unp(b[0]) == "np.save(wfilename, self._stats)":
            tgt = "TNpy"
        elif len(b) == 1 and unp(b[0]) == "self._stats.tofile(wfilename)":
            tgt = "TRaw"
        elif b and unp(b[0]) == "array = dict()":
            tgt = "TNpz"
            if npz_body is not None:
                raise U("two archive branches", b[0])
            npz_body = b
        else:
            raise U("save: unrecognised branch", b[0] if b else body[1])
        terms.append((None if test is None else bexpr(test, atom_suffix), tgt))
    if terms[-1][0] is not None or any(t is None for t, _ in terms[:-1]):
        raise Unsupported("save dispatch has no final else")
    s = "Definition save_target (wfilename : string) : target :=\n  "
    for t, tgt in terms[:-1]:
        s += "if %s then %s else\n  " % (t, tgt)
    s += terms[-1][1] + "."
    out.append(s)
    if npz_body is None:
        raise Unsupported("save: no archive branch")
    if len(npz_body) != 5:
        raise U("archive branch: expected 5 statements", npz_body[0])
    # b. load the existing archive first?
    st = npz_body[1]
    if not (isinstance(st, ast.If) and not st.orelse and len(st.body) == 1 and isinstance(st.body[0], ast.Try)):
        raise U("archive branch: load-existing statement", st)

    def atom_ow(n):
        return "overwrite" if unp(n) == "overwrite" else None

    tr = st.body[0]
    if not (
        len(tr.body) == 1
        and unp(tr.body[0]) == "array = dict(np.load(wfilename))"
        and len(tr.handlers) == 1
        and not tr.orelse
        and not tr.finalbody
        and len(tr.handlers[0].body) == 1
        and isinstance(tr.handlers[0].body[0], ast.Pass)
    ):
        raise U("archive branch: try/except around the load", tr)
    out.append("Definition npz_load_existing (overwrite : bool) : bool := %s." % bexpr(st.test, atom_ow))
    out.append("Definition npz_load_caught : list exn := [%s]." % "; ".join(exn_list(tr.handlers[0].type)))
    # c. default key
    st = npz_body[2]
    if not (isinstance(st, ast.If) and not st.orelse and len(st.body) == 1 and isinstance(st.body[0], ast.For)):
        raise U("archive branch: default-key statement", st)

    def atom_key(n):
        if unp(n) == "key is None":
            return "key_is_none"
        if unp(n) == "key is not None":
            return "(negb key_is_none)"
        return None

    out.append("Definition npz_use_default_key (key_is_none : bool) : bool := %s." % bexpr(st.test, atom_key))
    fr = st.body[0]
    if not (unp(fr.target) == "key" and not fr.orelse and len(fr.body) == 1 and unp(fr.body[0]) == "if key not in array:\n    break"):
        raise U("default-key loop", fr)
    ge = fr.iter
    if not (
        isinstance(ge, ast.GeneratorExp)
        and len(ge.generators) == 1
        and not ge.generators[0].ifs
        and isinstance(ge.generators[0].target, ast.Name)
        and isinstance(ge.generators[0].iter, ast.Call)
        and unp(ge.generators[0].iter.func) == "count"
        and len(ge.generators[0].iter.args) == 1
        and isinstance(ge.generators[0].iter.args[0], ast.Constant)
        and isinstance(ge.generators[0].iter.args[0].value, int)
        and ge.generators[0].iter.args[0].value >= 0
        and not ge.generators[0].iter.keywords
    ):
        raise U("default-key generator", ge)
    var = ge.generators[0].target.id
    start = ge.generators[0].iter.args[0].value
    elt = ge.elt
    if not (
        isinstance(elt, ast.Call)
        and isinstance(elt.func, ast.Attribute)
        and elt.func.attr == "format"
        and isinstance(elt.func.value, ast.Constant)
        and isinstance(elt.func.value.value, str)
        and len(elt.args) == 1
        and unp(elt.args[0]) == var
        and not elt.keywords
    ):
        raise U("default-key pattern", elt)
    pat = elt.func.value.value
    if pat.count("{}") != 1 or "{" in pat.replace("{}", "") or "}" in pat.replace("{}", ""):
        raise Unsupported("default-key pattern %r" % pat)
    pre, suf = pat.split("{}")
    out.append("Definition npz_key_prefix : string := %s." % coq_str(pre))
    out.append("Definition npz_key_suffix : string := %s." % coq_str(suf))
    out.append("Definition npz_key_start : nat := %d." % start)
    # d. assignment
    if unp(npz_body[3]) != "array[key] = self._stats":
        raise U("archive branch: entry assignment", npz_body[3])
    # e. writer
    st = npz_body[4]
    if not (isinstance(st, ast.If) and len(st.body) == 1 and len(st.orelse) == 1):
        raise U("archive branch: writer statement", st)

    def writer(b):
        t = unp(b)
        if t == "np.savez_compressed(wfilename, **array)":
            return "true"
        if t == "np.savez(wfilename, **array)":
            return "false"
        raise U("archive writer call", b)

    def atom_c(n):
        return "compress" if unp(n) == "compress" else None

    out.append(
        "Definition npz_compressed (compress : bool) : bool :=\n  if %s then %s else %s."
        % (bexpr(st.test, atom_c), writer(st.body[0]), writer(st.orelse[0]))
    )
    return out


DTYPES = {"np.float64": "DF64", "np.float32": "DF32"}


def dtype_term(n):
    t = unp(n)
    if t in DTYPES:
        return DTYPES[t]
    if isinstance(n, ast.Constant) and isinstance(n.value, str):
        if n.value in ("dm", "fm", "bm", "dv", "fv", "bv"):
            return "(DKaldi %s)" % coq_str(n.value)
        if n.value in ("float64", "f8", "<f8", "d"):
            return "DF64"
        if n.value in ("float32", "f4", "<f4", "f"):
            return "DF32"
    raise U("dtype", n)


def tr_init(fn):
    names, va, kw, ko = arg_names(fn)
    if names != ["self", "rfilename", "norm_var"] or va or kw != "kwargs" or ko:
        raise U("__init__ signature", fn)
    if [unp(d) for d in fn.args.defaults] != ["None", "True"]:
        raise Unsupported("__init__ defaults")
    body = strip_doc(fn.body)
    if len(body) != 4:
        raise U("__init__: expected 4 statements", fn)
    if unp(body[0]) != "self._stats = None" or unp(body[1]) != "self._norm_var = bool(norm_var)":
        raise U("__init__ prologue", body[0])
    if unp(body[3]) != "super(Standardize, self).__init__()" and unp(body[3]) != "super().__init__()":
        raise U("__init__ epilogue", body[3])
    chain = if_chain(body[2])
    if len(chain) != 3 or unp(chain[0][0]) != "rfilename is not None" or unp(chain[1][0]) != "kwargs" or chain[2][1]:
        raise U("__init__: rfilename / kwargs chain", body[2])
    out = []
    if len(chain[1][1]) != 1:
        raise U("__init__: stray-kwargs branch", body[2])
    out.append("Definition init_stray_kwargs_exn : exn := %s." % raise_exn(chain[1][1][0]))
    b = chain[0][1]
    if len(b) != 1 or not isinstance(b[0], ast.If) or unp(b[0].test) != "'dtype' in kwargs":
        raise U("__init__: dtype-in-kwargs test", b[0])
    if len(b[0].body) != 1 or unp(b[0].body[0]) != "self._stats = read_signal(rfilename, **kwargs)":
        raise U("__init__: explicit-dtype branch", b[0].body[0])
    pb = b[0].orelse
    if len(pb) != 3:
        raise U("__init__: probing branch: expected 3 statements", b[0])
    fr = pb[0]
    if not (isinstance(fr, ast.For) and unp(fr.target) == "dtype" and not fr.orelse and isinstance(fr.iter, ast.Tuple) and len(fr.body) == 1 and isinstance(fr.body[0], ast.Try)):
        raise U("__init__: probing loop", fr)
    out.append("Definition probe_dtypes : list dtype := [%s]." % "; ".join(dtype_term(e) for e in fr.iter.elts))
    tr = fr.body[0]
    if not (
        len(tr.body) == 2
        and unp(tr.body[0]) == "self._stats = read_signal(rfilename, dtype=dtype, **kwargs)"
        and isinstance(tr.body[1], ast.Break)
        and len(tr.handlers) == 1
        and len(tr.handlers[0].body) == 1
        and isinstance(tr.handlers[0].body[0], ast.Pass)
        and not tr.orelse
        and not tr.finalbody
    ):
        raise U("__init__: probing try", tr)
    out.append("Definition probe_caught : list exn := [%s]." % "; ".join(exn_list(tr.handlers[0].type)))
    st = pb[1]
    if not (isinstance(st, ast.If) and unp(st.test) == "self._stats is None" and not st.orelse and len(st.body) == 1):
        raise U("__init__: nothing-loaded test", st)
    out.append("Definition probe_fail_exn : exn := %s." % raise_exn(st.body[0]))
    st = pb[2]
    if not (
        isinstance(st, ast.If)
        and not st.orelse
        and len(st.body) == 1
        and unp(st.body[0]) == "self._sanitize_stats()"
        and isinstance(st.test, ast.Compare)
        and unp(st.test.left) == "len(self._stats.shape)"
        and len(st.test.ops) == 1
        and isinstance(st.test.ops[0], ast.Eq)
        and isinstance(st.test.comparators[0], ast.Constant)
        and isinstance(st.test.comparators[0].value, int)
    ):
        raise U("__init__: sanitize trigger", st)
    out.append("Definition init_sanitize_ndim : nat := %d." % st.test.comparators[0].value)
    return out


class ValidTr:
    """The validity expression of _sanitize_stats over the reshaped 2 x n matrix:
    ``count`` is self._stats[0, -1]; ``row0``/``row1`` are the rows."""

    STATS = "self._stats"

    def idx(self, n):
        if isinstance(n, ast.Constant) and isinstance(n.value, int):
            return n.value
        if isinstance(n, ast.UnaryOp) and isinstance(n.op, ast.USub) and isinstance(n.operand, ast.Constant) and isinstance(n.operand.value, int):
            return -n.operand.value
        return None

    def num(self, n):
        """-> (kind, term); kind in scalar | vector"""
        if unp(n) == self.STATS:
            return ("vector", "(row0 ++ row1)")
        if isinstance(n, ast.Subscript) and unp(n.value) == self.STATS:
            sl = n.slice
            i = self.idx(sl)
            if i in (0, 1):
                return ("vector", "row%d" % i)
            if isinstance(sl, ast.Tuple) and len(sl.elts) == 2:
                i = self.idx(sl.elts[0])
                j = self.idx(sl.elts[1])
                col = unp(sl.elts[1])
                if i in (0, 1) and j == -1:
                    return ("scalar", "count" if i == 0 else "(last row1 count)")
                if i in (0, 1) and col == ":-1":
                    return ("vector", "(removelast row%d)" % i)
                if i in (0, 1) and col == ":":
                    return ("vector", "row%d" % i)
                if unp(sl.elts[0]) == ":" and j == -1:
                    return ("vector", "[count; last row1 count]")
                if unp(sl.elts[0]) == ":" and col == ":-1":
                    return ("vector", "(removelast row0 ++ removelast row1)")
        raise U("validity: numeric expression", n)

    def pred(self, n):
        """elementwise boolean test -> (kind, coq predicate on one value, operand term)"""
        if isinstance(n, ast.Compare) and len(n.ops) == 1:
            rhs = n.comparators[0]
            zero = isinstance(rhs, ast.Constant) and rhs.value in (0, 0.0) and not isinstance(rhs.value, bool)
            if zero and isinstance(n.ops[0], ast.GtE):
                k, t = self.num(n.left)
                return k, "(v_nonneg C)", t
            if zero and isinstance(n.ops[0], ast.Gt):
                k, t = self.num(n.left)
                return k, "(fun x => v_nonneg C x && v_truthy C x)", t
            if zero and isinstance(n.ops[0], ast.NotEq):
                k, t = self.num(n.left)
                return k, "(v_truthy C)", t
        # exact whole-number tests, read as the same "is a whole number" question
        if isinstance(n, ast.Compare) and len(n.ops) == 1 and isinstance(n.ops[0], ast.Eq):
            for x, y in ((n.left, n.comparators[0]), (n.comparators[0], n.left)):
                if (
                    isinstance(y, ast.Call)
                    and unp(y.func) in ("np.round", "np.rint", "np.floor", "np.trunc", "int", "round")
                    and len(y.args) == 1
                    and not y.keywords
                    and unp(y.args[0]) == unp(x)
                ):
                    k, t = self.num(x)
                    return k, "(v_intlike C)", t
        if (
            isinstance(n, ast.Call)
            and unp(n.func) == "np.isclose"
            and len(n.args) == 2
            and not n.keywords
            and isinstance(n.args[0], ast.Call)
            and unp(n.args[0].func) in ("np.round", "np.rint")
            and len(n.args[0].args) == 1
            and not n.args[0].keywords
            and unp(n.args[0].args[0]) == unp(n.args[1])
        ):
            k, t = self.num(n.args[1])
            return k, "(v_intlike C)", t
        raise U("validity: elementwise test", n)

    def b(self, n, env):
        """scalar boolean"""
        if isinstance(n, ast.Name) and n.id in env:
            return env[n.id]
        if isinstance(n, ast.Constant) and isinstance(n.value, bool):
            return "true" if n.value else "false"
        if isinstance(n, ast.BoolOp):
            op = "&&" if isinstance(n.op, ast.And) else "||"
            return "(" + (" %s " % op).join(self.b(v, env) for v in n.values) + ")"
        if isinstance(n, ast.BinOp) and isinstance(n.op, (ast.BitAnd, ast.BitOr)):
            op = "&&" if isinstance(n.op, ast.BitAnd) else "||"
            return "(%s %s %s)" % (self.b(n.left, env), op, self.b(n.right, env))
        if isinstance(n, ast.UnaryOp) and isinstance(n.op, ast.Not):
            return "(negb %s)" % self.b(n.operand, env)
        if isinstance(n, ast.Call) and unp(n.func) in ("np.all", "np.any") and len(n.args) == 1 and not n.keywords:
            k, p, t = self.pred(n.args[0])
            if k == "scalar":
                return "(%s %s)" % (p, t)
            return "(%s %s %s)" % ("forallb" if unp(n.func) == "np.all" else "existsb", p, t)
        if isinstance(n, ast.Call) and unp(n.func) == "bool" and len(n.args) == 1 and not n.keywords:
            return self.b(n.args[0], env)
        k, p, t = self.pred(n)
        if k != "scalar":
            raise U("validity: array used as a truth value", n)
        return "(%s %s)" % (p, t)

    def stmts(self, stmts):
        env = {}
        lets = []
        for s in stmts:
            if isinstance(s, ast.Assign) and len(s.targets) == 1 and unp(s.targets[0]) == "valid":
                lets.append(self.b(s.value, env))
            elif isinstance(s, ast.AugAssign) and unp(s.target) == "valid" and isinstance(s.op, (ast.BitAnd, ast.BitOr)):
                if "valid" not in env:
                    raise U("validity: valid used before assignment", s)
                op = "&&" if isinstance(s.op, ast.BitAnd) else "||"
                lets.append("(valid %s %s)" % (op, self.b(s.value, env)))
            else:
                raise U("validity: statement", s)
            env["valid"] = "valid"
        if not lets:
            raise Unsupported("validity: no assignment to valid")
        body = "valid"
        for t in reversed(lets):
            body = "let valid := %s in\n  %s" % (t, body)
        return body


def tr_sanitize(fn):
    names, va, kw, ko = arg_names(fn)
    if names != ["self", "checked_other_float"] or va or kw or ko or [unp(d) for d in fn.args.defaults] != ["False"]:
        raise U("_sanitize_stats signature", fn)
    body = strip_doc(fn.body)
    if len(body) != 2 or not isinstance(body[0], ast.Try):
        raise U("_sanitize_stats: expected try + decision", fn)
    tr = body[0]
    if not (tr.body and unp(tr.body[0]) == "self._stats = self._stats.reshape((2, -1))"):
        raise U("_sanitize_stats: reshape", tr)
    if not (len(tr.handlers) == 1 and not tr.orelse and not tr.finalbody and len(tr.handlers[0].body) == 1 and unp(tr.handlers[0].body[0]) == "valid = False"):
        raise U("_sanitize_stats: except clause", tr)
    out = []
    out.append(
        "Definition stats_valid {V : Type} (C : VClass V) (count : V) (row0 row1 : list V) : bool :=\n  %s."
        % ValidTr().stmts(tr.body[1:])
    )
    out.append("Definition sanitize_caught : list exn := [%s]." % "; ".join(exn_list(tr.handlers[0].type)))
    # decision
    chain = if_chain(body[1])

    def atom(n):
        t = unp(n)
        if t == "valid":
            return "valid"
        if t == "checked_other_float":
            return "checked"
        return None

    terms = []
    retry = None
    for test, b in chain:
        if test is None:
            if b:
                raise U("_sanitize_stats: unexpected else", b[0])
            act = "SKeep"
        elif len(b) == 1 and isinstance(b[0], ast.Raise):
            act = "(SRaise %s)" % raise_exn(b[0])
        elif len(b) == 2 and unp(b[1]) == "self._sanitize_stats(True)":
            act = "SRetry"
            if retry is not None:
                raise U("_sanitize_stats: two retry branches", b[0])
            retry = b[0]
        else:
            raise U("_sanitize_stats: unrecognised branch", b[0] if b else body[1])
        terms.append((None if test is None else bexpr(test, atom), act))
    s = "Definition sanitize_decision (valid checked : bool) : sanitize_act :=\n  "
    for t, a in terms[:-1]:
        s += "if %s then %s else\n  " % (t, a)
    s += terms[-1][1] + "."
    out.append(s)
    if retry is None:
        raise Unsupported("_sanitize_stats: no retry branch")
    # per-dtype re-interpretation
    rchain = if_chain(retry)

    def atom_dt(n):
        if isinstance(n, ast.Compare) and len(n.ops) == 1 and unp(n.left) == "self._stats.dtype":
            rhs = n.comparators[0]
            if isinstance(n.ops[0], (ast.In, ast.NotIn)) and isinstance(rhs, (ast.Tuple, ast.List, ast.Set)):
                t = "(existsb (dtype_eqb dt) [%s])" % "; ".join(dtype_term(e) for e in rhs.elts)
                return t if isinstance(n.ops[0], ast.In) else "(negb %s)" % t
            if isinstance(n.ops[0], (ast.Eq, ast.NotEq)):
                t = "(dtype_eqb dt %s)" % dtype_term(rhs)
                return t if isinstance(n.ops[0], ast.Eq) else "(negb %s)" % t
        return None

    def reinterp(b):
        if len(b) == 1 and isinstance(b[0], ast.Raise):
            return "Raise %s" % raise_exn(b[0])
        if len(b) == 1 and isinstance(b[0], ast.Assign) and unp(b[0].targets[0]) == "self._stats":
            v = b[0].value
            cast = None
            if isinstance(v, ast.Call) and isinstance(v.func, ast.Attribute) and v.func.attr == "astype" and len(v.args) == 1 and not v.keywords:
                cast = dtype_term(v.args[0])
                v = v.func.value
            if (
                isinstance(v, ast.Call)
                and unp(v.func) == "np.frombuffer"
                and len(v.args) == 1
                and unp(v.args[0]) == "self._stats.tobytes()"
                and len(v.keywords) == 1
                and v.keywords[0].arg == "dtype"
            ):
                view = dtype_term(v.keywords[0].value)
                return "Ok (%s, %s)" % (view, cast or view)
        raise U("_sanitize_stats: re-interpretation branch", b[0] if b else retry)

    s = "Definition sanitize_reinterpret (dt : dtype) : res (dtype * dtype) :=\n  "
    for test, b in rchain[:-1]:
        s += "if %s then %s else\n  " % (bexpr(test, atom_dt), reinterp(b))
    if rchain[-1][0] is not None:
        raise Unsupported("re-interpretation chain")
    s += reinterp(rchain[-1][1]) + "."
    out.append(s)
    return out


# --------------------------------------------------------------------------
# util.py


def top_def(tree, name):
    for n in tree.body:
        if isinstance(n, ast.FunctionDef) and n.name == name:
            return n
    raise Unsupported("function %s not found" % name)


def tr_infer(fn):
    names, va, kw, ko = arg_names(fn)
    if names != ["rfilename"] or va or kw or ko:
        raise U("_infer_force_as_from_rfilename signature", fn)
    body = strip_doc(fn.body)
    if len(body) != 2 or unp(body[1]) != "return force_as":
        raise U("_infer_force_as_from_rfilename body", fn)
    chain = if_chain(body[0])

    def atom(n):
        t = unp(n)
        if t == "match('^(ark|scp)(,\\\\w+)*:', rfilename)":
            return "is_table"
        if t == "rfilename.rsplit('.', maxsplit=1)[-1] in config.SOUNDFILE_SUPPORTED_FILE_TYPES":
            return "sf_ext"
        if (
            isinstance(n, ast.Call)
            and isinstance(n.func, ast.Attribute)
            and n.func.attr == "endswith"
            and unp(n.func.value) == "rfilename"
            and len(n.args) == 1
            and not n.keywords
            and isinstance(n.args[0], ast.Constant)
            and isinstance(n.args[0].value, str)
        ):
            return "(ends_with %s rfilename)" % coq_str(n.args[0].value)
        return None

    s = "Definition infer_force_as (is_table sf_ext : bool) (rfilename : string) : res force_as :=\n  "
    for test, b in chain:
        if len(b) != 1:
            raise U("infer: branch", b[0] if b else body[0])
        st = b[0]
        if isinstance(st, ast.Raise):
            val = "Raise %s" % raise_exn(st)
        elif isinstance(st, ast.Assign) and unp(st.targets[0]) == "force_as":
            v = st.value
            if isinstance(v, ast.Constant) and v.value in FORCE_AS:
                val = "Ok %s" % FORCE_AS[v.value]
            elif unp(v) == "rfilename.rsplit('.', maxsplit=1)[-1]":
                val = "Ok FaSoundfile"
            else:
                raise U("infer: value", st)
        else:
            raise U("infer: statement", st)
        if test is None:
            s += val + "."
        else:
            s += "if %s then %s else\n  " % (bexpr(test, atom), val)
    if chain[-1][0] is not None:
        raise Unsupported("infer chain has no else")
    return [s]


def tr_read_signal(fn):
    body = strip_doc(fn.body)
    if len(body) != 3 or unp(body[2]) != "return data":
        raise U("read_signal body", fn)
    pre = body[0]
    c0 = if_chain(pre)
    if not (
        len(c0) == 3
        and unp(c0[0][0]) == "not isinstance(rfilename, str)"
        and unp(c0[1][0]) == "force_as is None"
        and len(c0[1][1]) == 1
        and unp(c0[1][1][0]) == "force_as = _infer_force_as_from_rfilename(rfilename)"
        and not c0[2][1]
    ):
        raise U("read_signal: inference prologue", pre)
    chain = if_chain(body[1])
    s = "Definition reader_of (fa : force_as) : reader :=\n  "
    for test, b in chain:
        if test is None:
            if not (b and isinstance(b[-1], ast.Raise)):
                raise U("read_signal: final else", body[1])
            s += "ROther."
            break
        # the test
        parts = test.values if isinstance(test, ast.BoolOp) and isinstance(test.op, ast.Or) else [test]
        conds = []
        for p in parts:
            t = unp(p)
            if isinstance(p, ast.Compare) and len(p.ops) == 1 and isinstance(p.ops[0], ast.Eq) and unp(p.left) == "force_as" and isinstance(p.comparators[0], ast.Constant) and p.comparators[0].value in FORCE_AS:
                conds.append("force_as_eqb fa %s" % FORCE_AS[p.comparators[0].value])
            elif t == "force_as in config.SOUNDFILE_SUPPORTED_FILE_TYPES":
                conds.append("force_as_eqb fa FaSoundfile")
            else:
                raise U("read_signal: dispatch test", p)
        # the reader called
        calls = [n for st in b for n in ast.walk(st) if isinstance(n, ast.Call) and isinstance(n.func, ast.Name) and n.func.id.endswith("_read_signal")]
        rd = "ROther"
        if len(calls) == 1 and calls[0].func.id in READERS:
            if len(b) != 1 or unp(b[0]) != "data = %s(rfilename, dtype, key, **kwargs)" % calls[0].func.id:
                raise U("read_signal: reader call", b[0])
            rd = READERS[calls[0].func.id]
        elif any(c.func.id in READERS for c in calls):
            raise U("read_signal: reader call", b[0])
        s += "if %s then %s else\n  " % (" || ".join("(%s)" % c for c in conds), rd)
    return [s]


def tr_readers(tree):
    out = []
    f = top_def(tree, "_numpy_binary_read_signal")
    if [unp(s) for s in strip_doc(f.body)] != [
        "data = np.load(rfilename, **kwargs)",
        "if dtype:\n    data = data.astype(dtype)",
        "return data",
    ]:
        raise U("_numpy_binary_read_signal body", f)
    f = top_def(tree, "_numpy_fromfile_read_signal")
    if [unp(s) for s in strip_doc(f.body)] != [
        "if dtype:\n    data = np.fromfile(rfilename, dtype=dtype, **kwargs)\nelse:\n    data = np.fromfile(rfilename, **kwargs)",
        "return data",
    ]:
        raise U("_numpy_fromfile_read_signal body", f)
    f = top_def(tree, "_numpy_archive_read_signal")
    b = strip_doc(f.body)
    if not (
        len(b) == 4
        and unp(b[0]) == "archive = np.load(rfilename, **kwargs)"
        and unp(b[2]) == "if dtype:\n    data = data.astype(dtype)"
        and unp(b[3]) == "return data"
        and isinstance(b[1], ast.If)
        and len(b[1].body) == 1
        and len(b[1].orelse) == 1
    ):
        raise U("_numpy_archive_read_signal body", f)

    def atom(n):
        t = unp(n)
        if t == "key":
            return "key_truthy"
        if t == "key is not None":
            return "key_given"
        if t == "key is None":
            return "(negb key_given)"
        return None

    def which(st):
        if unp(st) == "data = archive[key]":
            return "None"
        if (
            isinstance(st, ast.Assign)
            and unp(st.targets[0]) == "data"
            and isinstance(st.value, ast.Subscript)
            and unp(st.value.value) == "archive"
            and isinstance(st.value.slice, ast.Constant)
            and isinstance(st.value.slice.value, str)
        ):
            return "Some %s" % coq_str(st.value.slice.value)
        raise U("_numpy_archive_read_signal: entry selection", st)

    out.append(
        "(* None = the caller's key, Some k = the fixed key k *)\n"
        "Definition archive_entry (key_given key_truthy : bool) : option string :=\n  if %s then %s else %s."
        % (bexpr(b[1].test, atom), which(b[1].body[0]), which(b[1].orelse[0]))
    )
    return out


HEADER = """(* GENERATED by /verif/gen/stats_io.py from src/pydrobert/speech/post.py
   (Standardize.save, __init__, _sanitize_stats, have_stats) and util.py
   (_infer_force_as_from_rfilename, read_signal, the three numpy readers)
   - do not edit *)
From Coq Require Import List String Bool.
From Verif Require Import lib.C17_Base.
Import ListNotations.
Open Scope bool_scope.

(* what _sanitize_stats does after computing [valid] *)
Inductive sanitize_act := SKeep | SRetry | SRaise (e : exn).
(* the decoders of read_signal that the model distinguishes *)
Inductive reader := RNumpyBinary | RNumpyArchive | RFromfile | ROther.
"""


def translate(post_src, util_src):
    pt = ast.parse(post_src)
    ut = ast.parse(util_src)
    cls = find_class(pt, "Standardize")
    out = [HEADER]
    out.append("(* ---- Standardize.have_stats: shape-checked only ---- *)")
    out += tr_have_stats(find_def(cls.body, "have_stats"))
    out.append("(* ---- Standardize.save ---- *)")
    out += tr_save(find_def(cls.body, "save"))
    out.append("(* ---- Standardize.__init__ ---- *)")
    out += tr_init(find_def(cls.body, "__init__"))
    out.append("(* ---- Standardize._sanitize_stats ---- *)")
    out += tr_sanitize(find_def(cls.body, "_sanitize_stats"))
    out.append("(* ---- util._infer_force_as_from_rfilename ---- *)")
    out += tr_infer(top_def(ut, "_infer_force_as_from_rfilename"))
    out.append("(* ---- util.read_signal dispatch ---- *)")
    out += tr_read_signal(top_def(ut, "read_signal"))
    out.append("(* ---- util._numpy_archive_read_signal (the other two readers are shape-checked) ---- *)")
    out += tr_readers(ut)
    return "\n".join(out) + "\n"


def main(src_dir, out_path):
    post_src = open(os.path.join(src_dir, "post.py")).read()
    util_src = open(os.path.join(src_dir, "util.py")).read()
    text = translate(post_src, util_src)
    old = open(out_path).read() if os.path.exists(out_path) else None
    if old != text:
        os.makedirs(os.path.dirname(out_path), exist_ok=True)
        with open(out_path, "w") as fo:
            fo.write(text)
    return text


if __name__ == "__main__":
    src = sys.argv[1] if len(sys.argv) > 1 else "/repo/src/pydrobert/speech"
    out = sys.argv[2] if len(sys.argv) > 2 else os.path.join(os.path.dirname(os.path.dirname(os.path.abspath(__file__))), "coq", "gen", "StatsIO.v")
    sys.stdout.write(main(src, out))
