"""Translate the integer bookkeeping of the STFT frame computer into coq/gen/StftK.v.

From ShortTimeFourierTransformFrameComputer.compute_chunk / finalize / compute_full /
_compute_frame (compute.py) and pytorch_stft_frame_computer (torch.py) every
assignment `name = <integer expression>`, augmented assignment, `if` test made of
integer comparisons and `np.pad` width pair is emitted, in source order, as a Coq
definition over Z (or bool) whose parameters are the names the expression mentions:

    g_<fn>_<name>_<k>        k-th (augmented) assignment to <name> in <fn>
    g_<fn>_test_<k>          k-th translatable `if`/`while` test
    g_<fn>_padw_<k>_<0|1>    widths of the k-th np.pad call

coq/Stft/Tie.v proves that these are the expressions the hand-written model uses
(pad_left, first_len, frame counts, pad_right, history update, the walk's segment
capacities).  A harmless arithmetic rewrite re-proves (lia); a change of meaning
breaks a lemma; an unrecognised restructuring changes the numbering and breaks the file
(fail closed).  Expressions that are not integer arithmetic are skipped.
"""

import ast
import os
import sys


class Skip(Exception):
    pass


NAMES = {
    "self._frame_length": "L_",
    "self._frame_shift": "S_",
    "self._buf_len": "bufl_",
    "self._hist_len": "histl_",
    "self._dft_size": "D_",
    "self.num_coeffs": "ncoef_",
}


class Z:
    def __init__(self):
        self.free = []

    def name(self, n):
        if n not in self.free:
            self.free.append(n)
        return n

    def expr(self, e):
        if isinstance(e, ast.Constant) and isinstance(e.value, int) and not isinstance(e.value, bool):
            return "(%d)" % e.value if e.value < 0 else str(e.value)
        if isinstance(e, ast.Name):
            return self.name("v_" + e.id)
        if isinstance(e, ast.Attribute):
            k = ast.unparse(e)
            if k in NAMES:
                return self.name(NAMES[k])
            raise Skip(k)
        if isinstance(e, ast.UnaryOp) and isinstance(e.op, ast.USub):
            return "(- %s)" % self.expr(e.operand)
        if isinstance(e, ast.BinOp) and isinstance(e.op, ast.LShift) and isinstance(e.left, ast.Constant) and e.left.value == 1:
            return "(2 ^ %s)" % self.expr(e.right)  # 1 << k
        if isinstance(e, ast.BinOp):
            a, b = self.expr(e.left), self.expr(e.right)
            op = {ast.Add: "+", ast.Sub: "-", ast.Mult: "*", ast.FloorDiv: "/", ast.Mod: "mod"}.get(type(e.op))
            if op is None:
                raise Skip("binop")
            return "(%s %s %s)" % (a, op, b)
        if isinstance(e, ast.Call):
            f = e.func
            p2 = self.pow2ceil(e)
            if p2 is not None:
                return p2
            if isinstance(f, ast.Name) and f.id == "int" and len(e.args) == 1 and not e.keywords:
                return self.expr(e.args[0])  # int() of an integer expression (anything else raises Skip below)
            if isinstance(f, ast.Attribute) and f.attr == "bit_length" and not e.args and not e.keywords:
                return "(g_bit_length %s)" % self.expr(f.value)
            if isinstance(f, ast.Name) and f.id in ("max", "min") and len(e.args) == 2 and not e.keywords:
                return "(Z.%s %s %s)" % (f.id, self.expr(e.args[0]), self.expr(e.args[1]))
            if isinstance(f, ast.Name) and f.id == "len" and len(e.args) == 1 and isinstance(e.args[0], ast.Name):
                return self.name("len_" + e.args[0].id)
            if isinstance(f, ast.Attribute) and f.attr == "size" and isinstance(f.value, ast.Name) and len(e.args) == 1:
                return self.name("len_" + f.value.id)
            raise Skip("call")
        raise Skip(type(e).__name__)

    def pow2ceil(self, e):
        """int(2 ** np.ceil(np.log2(X))) / int(2 ** math.ceil(math.log(X, 2))) for an integer expression X
        -> 2 ^ Z.log2_up X (exact while log2 of a float is: X below 2^48)."""
        if not (isinstance(e.func, ast.Name) and e.func.id == "int" and len(e.args) == 1 and not e.keywords):
            return None
        p = e.args[0]
        if not (isinstance(p, ast.BinOp) and isinstance(p.op, ast.Pow) and isinstance(p.left, ast.Constant) and p.left.value == 2):
            return None
        c = p.right
        if not (isinstance(c, ast.Call) and ast.unparse(c.func) in ("np.ceil", "math.ceil") and len(c.args) == 1 and not c.keywords):
            return None
        lg = c.args[0]
        if not isinstance(lg, ast.Call) or lg.keywords:
            return None
        fn = ast.unparse(lg.func)
        if fn in ("np.log2", "math.log2") and len(lg.args) == 1:
            return "(2 ^ Z.log2_up %s)" % self.expr(lg.args[0])
        if fn == "math.log" and len(lg.args) == 2 and isinstance(lg.args[1], ast.Constant) and lg.args[1].value == 2:
            return "(2 ^ Z.log2_up %s)" % self.expr(lg.args[0])
        return None

    def test(self, t):
        if isinstance(t, ast.Compare) and len(t.ops) == 1:
            a, b = self.expr(t.left), self.expr(t.comparators[0])
            op = {ast.Lt: "%s <? %s", ast.LtE: "%s <=? %s", ast.Gt: "%s <? %s", ast.GtE: "%s <=? %s", ast.Eq: "%s =? %s"}.get(type(t.ops[0]))
            if op is None:
                raise Skip("cmp")
            if isinstance(t.ops[0], (ast.Gt, ast.GtE)):
                a, b = b, a
            return "(" + op % (a, b) + ")"
        if isinstance(t, ast.BoolOp):
            parts = []
            for v in t.values:
                try:
                    parts.append(self.test(v))
                except Skip:
                    pass  # non-integer conjuncts (flags) are not part of the arithmetic
            if not parts:
                raise Skip("no integer part")
            return "(" + (" && " if isinstance(t.op, ast.And) else " || ").join(parts) + ")"
        raise Skip("test")


def walk_stmts(body):
    for st in body:
        yield st
        for fld in ("body", "orelse", "finalbody"):
            sub = getattr(st, fld, None)
            if isinstance(sub, list):
                yield from walk_stmts(sub)


def emit_function(prefix, fn, out):
    counts = {}

    def define(kind, rhs_fn, typ):
        z = Z()
        try:
            body = rhs_fn(z)
        except Skip:
            return
        k = counts.get(kind, 0)
        counts[kind] = k + 1
        params = "".join(" (%s : Z)" % p for p in z.free)
        out.append("Definition g_%s_%s_%d%s : %s := %s." % (prefix, kind, k, params, typ, body))

    for st in walk_stmts(fn.body):
        if isinstance(st, ast.Assign) and len(st.targets) == 1 and isinstance(st.targets[0], ast.Name):
            define(st.targets[0].id, lambda z, st=st: z.expr(st.value), "Z")
        elif isinstance(st, ast.Assign) and len(st.targets) == 1 and isinstance(st.targets[0], ast.Attribute):
            k = ast.unparse(st.targets[0])
            if k in NAMES:
                define("set" + NAMES[k], lambda z, st=st: z.expr(st.value), "Z")
        elif isinstance(st, ast.AugAssign) and isinstance(st.target, ast.Name):
            fake = ast.BinOp(left=ast.Name(id=st.target.id, ctx=ast.Load()), op=st.op, right=st.value)
            define(st.target.id, lambda z, fake=fake: z.expr(fake), "Z")
        elif isinstance(st, (ast.If, ast.While)):
            define("test", lambda z, st=st: z.test(st.test), "bool")
        # np.pad width pairs anywhere in the statement
        if isinstance(st, (ast.Assign, ast.Expr, ast.AugAssign, ast.Return)):
            for node in ast.walk(st):
                if (isinstance(node, ast.Call) and isinstance(node.func, ast.Attribute) and node.func.attr == "pad"
                        and len(node.args) >= 2 and isinstance(node.args[1], ast.Tuple) and len(node.args[1].elts) == 2):
                    k = counts.get("padw", 0)
                    ok = True
                    lines = []
                    for j, el in enumerate(node.args[1].elts):
                        z = Z()
                        try:
                            body = z.expr(el)
                        except Skip:
                            ok = False
                            break
                        params = "".join(" (%s : Z)" % p for p in z.free)
                        lines.append("Definition g_%s_padw_%d_%d%s : Z := %s." % (prefix, k, j, params, body))
                    if ok:
                        counts["padw"] = k + 1
                        out.extend(lines)


BITLEN = "Definition g_bit_length (n : Z) : Z := if n =? 0 then 0 else Z.log2 n + 1.  (* int.bit_length for n >= 0 *)"


def find(tree, cls, name):
    for node in tree.body:
        if cls is None and isinstance(node, ast.FunctionDef) and node.name == name:
            return node
        if isinstance(node, ast.ClassDef) and node.name == cls:
            for it in node.body:
                if isinstance(it, ast.FunctionDef) and it.name == name:
                    return it
    raise RuntimeError("cannot find %s.%s" % (cls, name))


def alloc_fact(tree, cls, attr, expected):
    """True iff the class rebinds self.<attr> exactly once, in __init__, to `expected` (a float64 work buffer
    allocated at construction: storing a float sample of any dtype into it is exact and the buffer's dtype cannot
    depend on what the instance processed before)."""
    sites = []
    for node in tree.body:
        if isinstance(node, ast.ClassDef) and node.name == cls:
            for fn in node.body:
                if isinstance(fn, ast.FunctionDef):
                    for st in ast.walk(fn):
                        tg = []
                        if isinstance(st, ast.Assign):
                            tg = st.targets
                        elif isinstance(st, (ast.AugAssign, ast.AnnAssign)):
                            tg = [st.target]
                        for t in tg:
                            for el in (t.elts if isinstance(t, ast.Tuple) else [t]):
                                if ast.unparse(el) == "self." + attr:
                                    sites.append((fn.name, ast.unparse(st.value) if getattr(st, "value", None) is not None else ""))
    # np.zeros in place of np.empty is the same buffer (the model never reads a cell it has not written)
    return sites in ([("__init__", expected)], [("__init__", expected.replace("np.empty(", "np.zeros(", 1))])


def translate(compute_src, torch_src):
    out = [
        "(* GENERATED by /verif/gen/stft.py from compute.py and torch.py - do not edit *)",
        "From Coq Require Import ZArith Bool.",
        "Open Scope Z_scope.",
        "",
        BITLEN,
        "",
    ]
    ct = ast.parse(compute_src)
    cls = "ShortTimeFourierTransformFrameComputer"
    for short, nm in (("cc", "compute_chunk"), ("fin", "finalize"), ("full", "compute_full"), ("frame", "_compute_frame")):
        emit_function(short, find(ct, cls, nm), out)
        out.append("")
    out.append("Definition g_stft_buf_is_f64_alloc_once : bool := %s." % str(alloc_fact(
        ct, cls, "_buf", "np.empty(self._frame_length, dtype=np.float64)")).lower())
    out.append("")
    tt = ast.parse(torch_src)
    emit_function("torch", find(tt, None, "pytorch_stft_frame_computer"), out)
    return "\n".join(out) + "\n"


def main(src_dir, out_path):
    text = translate(open(os.path.join(src_dir, "compute.py")).read(), open(os.path.join(src_dir, "torch.py")).read())
    if not os.path.exists(out_path) or open(out_path).read() != text:
        os.makedirs(os.path.dirname(out_path), exist_ok=True)
        open(out_path, "w").write(text)
    return text


if __name__ == "__main__":
    print(main(sys.argv[1], sys.argv[2]))
