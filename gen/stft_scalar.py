"""Translate the real-valued scalar post-processing of the STFT frame routines into coq/gen/StftR.v.

Source blocks (compute.py ShortTimeFourierTransformFrameComputer._compute_frame, __init__;
torch.py pytorch_stft_frame_computer):

    g_frame_energy  ip Lr floor power log   value stored in coeffs[0] by the `if self.includes_energy:` block
    g_frame_post    val floor real log      value stored in coeffs[filt_idx] after the segment walk
    g_torch_energy  ip Lr power             value appended by the `if include_energy:` block
    g_torch_seg     v real                  per-segment value added to `val` (after the power/magnitude choice)
    g_torch_log     y floor log             the final `if use_log:` transformation of every coefficient
    g_init_dft      L pad                   self._dft_size chosen by __init__ (Z)
    g_torch_dft     L                       dft_size_ when dft_size is None (Z)

The blocks are executed symbolically: straight-line assignments / augmented assignments to scalars
(names, `coeffs[0]`, `coeffs[filt_idx]`), `if` on the boolean flags (self._log, self._power, self._real,
use_log, use_power, is_real, possibly negated) with the two environments merged per variable as
`if flag then a else b`.  Anything else raises (fail closed).  coq/Stft/ScalarTie.v proves the results
equal to the documented definitions (mean square, square root unless use_power, factor 2 for real
banks, log floored at LOG_FLOOR_VALUE, first power of two at or beyond the frame length).
"""

import ast
import os
import sys
from fractions import Fraction

sys.path.insert(0, os.path.dirname(os.path.abspath(__file__)))
import stft as G  # noqa: E402


class Unsupported(Exception):
    pass


FLAGS = {"self._log": "lg", "self._power": "power", "self._real": "real", "use_log": "lg", "use_power": "power", "is_real": "real"}
ATOMS = {"self._frame_length": "Lr", "frame_length": "Lr", "config.LOG_FLOOR_VALUE": "floor", "eps": "floor"}


def rlit(v):
    if isinstance(v, bool):
        raise Unsupported("bool literal")
    if isinstance(v, int):
        return "(%d)" % v if v < 0 else "%d" % v
    fr = Fraction(repr(v))
    if fr.denominator == 1:
        return rlit(int(fr.numerator))
    return "(%s / %d)" % (rlit(fr.numerator), fr.denominator)


def is_half(e):
    return isinstance(e, ast.Constant) and e.value == 0.5


class Exec:
    def __init__(self, env):
        self.env = dict(env)

    def key(self, t):
        if isinstance(t, ast.Name):
            return t.id
        if isinstance(t, ast.Subscript) and isinstance(t.value, ast.Name):
            return ast.unparse(t)
        raise Unsupported("target " + ast.unparse(t))

    def flag(self, t):
        if isinstance(t, ast.UnaryOp) and isinstance(t.op, ast.Not):
            return "(negb %s)" % self.flag(t.operand)
        k = ast.unparse(t)
        if k in FLAGS:
            return FLAGS[k]
        raise Unsupported("condition " + k)

    def expr(self, e):
        k = ast.unparse(e)
        if k in self.env:
            return self.env[k]
        if k in ATOMS:
            return ATOMS[k]
        if isinstance(e, ast.Constant) and isinstance(e.value, (int, float)):
            return rlit(e.value)
        if isinstance(e, ast.UnaryOp) and isinstance(e.op, ast.USub):
            return "(- %s)" % self.expr(e.operand)
        if isinstance(e, ast.BinOp):
            if isinstance(e.op, ast.Pow):
                if is_half(e.right):
                    return "(sqrt %s)" % self.expr(e.left)
                if isinstance(e.right, ast.Constant) and e.right.value == 2:
                    return "(%s ^ 2)" % self.expr(e.left)
                raise Unsupported("power " + k)
            op = {ast.Add: "+", ast.Sub: "-", ast.Mult: "*", ast.Div: "/"}.get(type(e.op))
            if op is None:
                raise Unsupported("operator in " + k)
            return "(%s %s %s)" % (self.expr(e.left), op, self.expr(e.right))
        if isinstance(e, ast.Call) and not e.keywords:
            f = ast.unparse(e.func)
            a = e.args
            if f == "np.inner" and len(a) == 2 and ast.unparse(a[0]) == "frame" and ast.unparse(a[1]) == "frame":
                return "ip"
            if f == "torch.linalg.norm" and [ast.unparse(x) for x in a] == ["sig", "2", "1"]:
                return "(sqrt ip)"  # row-wise 2-norm of the framed signal
            if f in ("np.log", "math.log") and len(a) == 1:
                return "(ln %s)" % self.expr(a[0])
            if f in ("max", "np.maximum") and len(a) == 2:
                return "(Rmax %s %s)" % (self.expr(a[0]), self.expr(a[1]))
            if f in ("np.sqrt", "math.sqrt") and len(a) == 1:
                return "(sqrt %s)" % self.expr(a[0])
            if isinstance(e.func, ast.Attribute) and not a:
                inner = e.func.value
                if e.func.attr == "square":
                    return "(%s ^ 2)" % self.expr(inner)
                if e.func.attr == "log":
                    return "(ln %s)" % self.expr(inner)
            if isinstance(e.func, ast.Attribute) and e.func.attr == "clamp_min" and len(a) == 1:
                return "(Rmax %s %s)" % (self.expr(e.func.value), self.expr(a[0]))
        raise Unsupported("expression " + k)

    def run(self, stmts):
        for st in stmts:
            if isinstance(st, ast.Assign) and len(st.targets) == 1:
                self.env[self.key(st.targets[0])] = self.expr(st.value)
            elif isinstance(st, ast.AugAssign):
                k = self.key(st.target)
                if k not in self.env:
                    raise Unsupported("augmented assignment to unknown " + k)
                fake = ast.BinOp(left=st.target, op=st.op, right=st.value)
                self.env[k] = self.expr(fake)
            elif isinstance(st, ast.If):
                c = self.flag(st.test)
                a, b = Exec(self.env), Exec(self.env)
                a.run(st.body)
                b.run(st.orelse)
                for k in sorted(set(a.env) | set(b.env)):
                    va, vb = a.env.get(k), b.env.get(k)
                    if va is None or vb is None:
                        continue  # defined on one path only: not visible afterwards
                    self.env[k] = va if va == vb else "(if %s then %s else %s)" % (c, va, vb)
            elif isinstance(st, ast.Expr) and isinstance(st.value, ast.Constant):
                pass
            else:
                raise Unsupported("statement " + ast.unparse(st)[:80])
        return self


def find_if(body, test_text):
    for st in G.walk_stmts(body):
        if isinstance(st, ast.If) and ast.unparse(st.test) == test_text:
            return st
    raise Unsupported("no `if %s:` block" % test_text)


def numpy_energy(fn):
    blk = find_if(fn.body, "self.includes_energy")
    body = list(blk.body)
    if not body or ast.unparse(body[-1]) != "coeffs = coeffs[1:]" or blk.orelse:
        raise Unsupported("energy block does not end with coeffs = coeffs[1:]")
    ex = Exec({}).run(body[:-1])
    if "coeffs[0]" not in ex.env:
        raise Unsupported("energy block does not set coeffs[0]")
    return ex.env["coeffs[0]"]


def numpy_post(fn):
    loop = None
    for st in fn.body:
        if isinstance(st, ast.For) and ast.unparse(st.target) == "filt_idx":
            loop = st
    if loop is None:
        raise Unsupported("no per-filter loop")
    idx = [i for i, st in enumerate(loop.body) if isinstance(st, ast.While)]
    if len(idx) != 1:
        raise Unsupported("expected one segment loop per filter")
    ex = Exec({"val": "val"}).run(loop.body[idx[0] + 1:])
    if "coeffs[filt_idx]" not in ex.env:
        raise Unsupported("per-filter loop does not set coeffs[filt_idx]")
    return ex.env["coeffs[filt_idx]"]


def torch_energy(fn):
    blk = find_if(fn.body, "include_energy")
    body = list(blk.body)
    if not body or ast.unparse(body[-1]) != "y.append(energy)" or blk.orelse:
        raise Unsupported("torch energy block does not end with y.append(energy)")
    ex = Exec({}).run(body[:-1])
    return ex.env["energy"]


def torch_seg(fn):
    loop = None
    for st in G.walk_stmts(fn.body):
        if isinstance(st, ast.While) and ast.unparse(st.test) == "consumed < filt_len":
            loop = st
    if loop is None:
        raise Unsupported("no torch segment loop")
    # statements between the power/magnitude choice and `val = val + val_f`
    names = [ast.unparse(s) for s in loop.body]
    try:
        i0 = next(i for i, s in enumerate(loop.body) if isinstance(s, ast.If) and ast.unparse(s.test) == "use_power")
        i1 = names.index("val = val + val_f")
    except (StopIteration, ValueError):
        raise Unsupported("torch segment loop: cannot find the accumulation")
    ex = Exec({"val_f": "v"}).run(loop.body[i0 + 1:i1])
    return ex.env["val_f"]


def torch_log(fn):
    blk = None
    for st in fn.body:
        if isinstance(st, ast.If) and ast.unparse(st.test) == "use_log":
            blk = st
    if blk is None:
        raise Unsupported("no final `if use_log:` block")
    ex = Exec({"y_": "y"}).run([blk])
    return ex.env["y_"]


def dft_size_numpy(fn):
    blk = find_if(fn.body, "pad_to_nearest_power_of_two")
    z = G.Z()

    def one(stmts):
        if len(stmts) != 1 or not isinstance(stmts[0], ast.Assign) or ast.unparse(stmts[0].targets[0]) != "self._dft_size":
            raise Unsupported("dft size branch")
        try:
            return z.expr(stmts[0].value)
        except G.Skip as e:
            raise Unsupported("dft size expression %s (%s)" % (ast.unparse(stmts[0].value), e))

    a, b = one(blk.body), one(blk.orelse)
    if z.free != ["L_"]:
        raise Unsupported("dft size depends on %s" % z.free)
    return "if pad then %s else %s" % (a, b)


def dft_size_torch(fn):
    blk = find_if(fn.body, "dft_size is None")
    z = G.Z()
    z_names = {"frame_length": "L_"}
    st = blk.body[0]
    if len(blk.body) != 1 or not isinstance(st, ast.Assign) or ast.unparse(st.targets[0]) != "dft_size_":
        raise Unsupported("torch dft size branch")

    class R(ast.NodeTransformer):
        def visit_Name(self, n):
            return ast.copy_location(ast.Attribute(value=ast.Name(id="self", ctx=ast.Load()), attr="_frame_length", ctx=ast.Load()), n) if n.id in z_names else n

    try:
        e = z.expr(R().visit(ast.parse(ast.unparse(st.value), mode="eval").body))
    except G.Skip as ex:
        raise Unsupported("torch dft size expression %s (%s)" % (ast.unparse(st.value), ex))
    if z.free != ["L_"]:
        raise Unsupported("torch dft size depends on %s" % z.free)
    return e


def translate(compute_src, torch_src):
    ct, tt = ast.parse(compute_src), ast.parse(torch_src)
    cls = "ShortTimeFourierTransformFrameComputer"
    frame = G.find(ct, cls, "_compute_frame")
    init = G.find(ct, cls, "__init__")
    tfn = G.find(tt, None, "pytorch_stft_frame_computer")
    out = [
        "(* GENERATED by /verif/gen/stft_scalar.py from compute.py and torch.py - do not edit *)",
        "From Coq Require Import Reals ZArith Bool.",
        "",
        "Open Scope Z_scope.",
        G.BITLEN,
        "Definition g_init_dft (L_ : Z) (pad : bool) : Z := %s." % dft_size_numpy(init),
        "Definition g_torch_dft (L_ : Z) : Z := %s." % dft_size_torch(tfn),
        "Close Scope Z_scope.",
        "",
        "Open Scope R_scope.",
        "Definition g_frame_energy (ip Lr floor : R) (power lg : bool) : R := %s." % numpy_energy(frame),
        "Definition g_frame_post (val floor : R) (real lg : bool) : R := %s." % numpy_post(frame),
        "Definition g_torch_energy (ip Lr : R) (power : bool) : R := %s." % torch_energy(tfn),
        "Definition g_torch_seg (v : R) (real : bool) : R := %s." % torch_seg(tfn),
        "Definition g_torch_log (y floor : R) (lg : bool) : R := %s." % torch_log(tfn),
    ]
    return "\n".join(out) + "\n"


def main(src_dir, out_path):
    text = translate(open(os.path.join(src_dir, "compute.py")).read(), open(os.path.join(src_dir, "torch.py")).read())
    if not os.path.exists(out_path) or open(out_path).read() != text:
        os.makedirs(os.path.dirname(out_path), exist_ok=True)
        open(out_path, "w").write(text)
    return text


if __name__ == "__main__":
    print(main(sys.argv[1], sys.argv[2]))
