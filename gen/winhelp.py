"""C20 translator: window classes of filters.py and the scalar helpers of util.py
-> coq/gen/WinHelp.v (definitions over R / Z).

What is regenerated on every run (fail closed: anything unrecognised raises
``Unsupported`` and the check treats the tie as broken):

* ``BartlettWindow/BlackmanWindow/HammingWindow/HannWindow.get_impulse_response``:
  must be ``window = np.<shape>(width); window /= <expr(width)>; return window``.
  Emits ``<alias>_shape`` (which numpy shape, as a constructor of
  ``lib/C20_Numpy.np_shape``) and ``<alias>_norm (width : R) : R``.
* ``GammaWindow.get_impulse_response``: the early returns, ``peak``, the
  ``alpha`` / ``offs`` branch on the order, ``ln_c`` and the element-wise update
  ``ret[:offs] = f(ret[:offs])`` over ``ret = arange(width - 1, -1, -1)``.
* ``_gauss_quant_odeh_evans``, ``hertz_to_angular``, ``angular_to_hertz``: whole
  bodies as R expressions.
* ``circshift_fourier``: statement order (default ``dft_size`` filled in *before*
  the modulo), the default expression, the out-of-place condition, the bin
  range ``arange(lo, hi) % m`` and the phase expression (which must be the same
  in both branches and purely imaginary: ``j * csf_angle``).
"""

import ast
import os
import sys

sys.path.insert(0, os.path.dirname(os.path.abspath(__file__)))
from pyexpr import Tr, Unsupported, lit  # noqa: E402

WINDOWS = {
    "BartlettWindow": ("bartlett", "bartlett"),
    "BlackmanWindow": ("blackman", "blackman"),
    "HammingWindow": ("hamming", "hamming"),
    "HannWindow": ("hann", "hanning"),
}
NP_SHAPES = {"bartlett": "NpBartlett", "blackman": "NpBlackman", "hamming": "NpHamming", "hanning": "NpHanning"}


def _is_doc(s):
    return isinstance(s, ast.Expr) and isinstance(s.value, ast.Constant) and isinstance(s.value.value, str)


def _body(fn):
    b = list(fn.body)
    while b and _is_doc(b[0]):
        b = b[1:]
    return b


def _np_attr(e, name=None):
    ok = isinstance(e, ast.Attribute) and isinstance(e.value, ast.Name) and e.value.id in ("np", "math")
    return ok and (name is None or e.attr == name)


class RTr(Tr):
    """pyexpr.Tr plus: conditional expressions, ``x ** 0.5``, ``np.pi``,
    augmented assignments, integer-valued sub-terms (``zenv``) used as
    exponents / factorial arguments."""

    def __init__(self, env, zenv=None):
        Tr.__init__(self, env)
        self.zenv = dict(zenv or {})

    def clone(self):
        return type(self)(self.env, self.zenv)

    # integer-valued expressions (Z)
    def zexpr(self, e):
        if isinstance(e, ast.Constant) and isinstance(e.value, int) and not isinstance(e.value, bool):
            return "(%d)%%Z" % e.value
        if isinstance(e, ast.Name) and e.id in self.zenv:
            return self.zenv[e.id]
        if isinstance(e, ast.Attribute) and isinstance(e.value, ast.Name) and e.value.id == "self":
            k = "self." + e.attr
            if k in self.zenv:
                return self.zenv[k]
        if isinstance(e, ast.UnaryOp) and isinstance(e.op, ast.USub):
            return "(- %s)%%Z" % self.zexpr(e.operand)
        if isinstance(e, ast.BinOp) and isinstance(e.op, (ast.Add, ast.Sub, ast.Mult)):
            sym = {ast.Add: "+", ast.Sub: "-", ast.Mult: "*"}[type(e.op)]
            return "(%s %s %s)%%Z" % (self.zexpr(e.left), sym, self.zexpr(e.right))
        if (
            isinstance(e, ast.Call)
            and isinstance(e.func, ast.Name)
            and e.func.id == "len"
            and len(e.args) == 1
            and not e.keywords
            and isinstance(e.args[0], ast.Name)
            and ("len:" + e.args[0].id) in self.zenv
        ):
            return self.zenv["len:" + e.args[0].id]
        raise Unsupported("integer expression %s" % ast.dump(e)[:80])

    def expr(self, e):
        if isinstance(e, ast.IfExp):
            return "(if %s then %s else %s)" % (self.cond(e.test), self.expr(e.body), self.expr(e.orelse))
        if _np_attr(e, "pi"):
            return "PI"
        if isinstance(e, ast.BinOp) and isinstance(e.op, ast.Pow):
            b = e.right
            if isinstance(b, ast.Constant) and isinstance(b.value, float) and b.value == 0.5:
                return "(sqrt %s)" % self.expr(e.left)
            if not isinstance(b, ast.Constant):
                # integer-valued exponent (numpy: float ** int, 0 ** 0 = 1 as in Coq's pow)
                return "(%s ^ Z.to_nat %s)" % (self.expr(e.left), self.zexpr(b))
        if isinstance(e, ast.Call) and _np_attr(e.func, "factorial") and len(e.args) == 1 and not e.keywords:
            return "(INR (fact (Z.to_nat %s)))" % self.zexpr(e.args[0])
        return Tr.expr(self, e)

    def block(self, stmts):
        if not stmts:
            raise Unsupported("fell off the end of a function")
        s, rest = stmts[0], stmts[1:]
        if _is_doc(s):
            return self.block(rest)
        if isinstance(s, ast.Return):
            if s.value is None:
                raise Unsupported("bare return")
            return self.expr(s.value)
        if isinstance(s, ast.AugAssign):
            if not isinstance(s.target, ast.Name):
                raise Unsupported("augmented assignment target")
            op = type(s.op)
            if op not in (ast.Add, ast.Sub, ast.Mult, ast.Div):
                raise Unsupported("augmented operator")
            new = ast.Assign(
                targets=[ast.Name(id=s.target.id, ctx=ast.Store())],
                value=ast.BinOp(left=ast.Name(id=s.target.id, ctx=ast.Load()), op=s.op, right=s.value),
            )
            return self.block([new] + rest)
        if isinstance(s, ast.Assign):
            if len(s.targets) != 1 or not isinstance(s.targets[0], ast.Name):
                raise Unsupported("assignment target")
            name = s.targets[0].id
            val = self.expr(s.value)
            sub = self.clone()
            sub.env[name] = "v_" + name
            sub.zenv.pop(name, None)
            return "(let v_%s := %s in %s)" % (name, val, sub.block(rest))
        if isinstance(s, ast.If):
            return "(if %s then %s else %s)" % (
                self.cond(s.test),
                self.block(list(s.body) + rest),
                self.block(list(s.orelse) + rest),
            )
        raise Unsupported("statement %s" % ast.dump(s)[:80])


def _method(cls, name):
    for item in cls.body:
        if isinstance(item, ast.FunctionDef) and item.name == name:
            return item
    raise Unsupported("%s lacks %s" % (cls.name, name))


def _classes(tree):
    return {n.name: n for n in tree.body if isinstance(n, ast.ClassDef)}


def _functions(tree):
    return {n.name: n for n in tree.body if isinstance(n, ast.FunctionDef)}


# ---------------------------------------------------------------- windows


def tr_plain_window(cls, alias, npname):
    m = _method(cls, "get_impulse_response")
    args = [a.arg for a in m.args.args]
    if args != ["self", "width"]:
        raise Unsupported("%s.get_impulse_response signature %s" % (cls.name, args))
    b = _body(m)
    if len(b) != 3:
        raise Unsupported("%s.get_impulse_response: expected 3 statements, found %d" % (cls.name, len(b)))
    s0, s1, s2 = b
    ok0 = (
        isinstance(s0, ast.Assign)
        and len(s0.targets) == 1
        and isinstance(s0.targets[0], ast.Name)
        and isinstance(s0.value, ast.Call)
        and _np_attr(s0.value.func)
        and not s0.value.keywords
        and len(s0.value.args) == 1
        and isinstance(s0.value.args[0], ast.Name)
        and s0.value.args[0].id == "width"
    )
    if not ok0:
        raise Unsupported("%s: first statement is not `window = np.<shape>(width)`" % cls.name)
    var = s0.targets[0].id
    shape = s0.value.func.attr
    if shape not in NP_SHAPES:
        raise Unsupported("%s: unknown numpy window %s" % (cls.name, shape))
    if not (isinstance(s1, ast.AugAssign) and isinstance(s1.op, ast.Div) and isinstance(s1.target, ast.Name) and s1.target.id == var):
        raise Unsupported("%s: second statement is not `window /= ...`" % cls.name)
    if not (isinstance(s2, ast.Return) and isinstance(s2.value, ast.Name) and s2.value.id == var):
        raise Unsupported("%s: does not return the window" % cls.name)
    norm = RTr({"width": "width"}).expr(s1.value)
    return [
        "Definition %s_shape : np_shape := %s." % (alias, NP_SHAPES[shape]),
        "Definition %s_norm (width : R) : R := %s." % (alias, norm),
        "",
    ]


def tr_gamma_window(cls):
    init = _method(cls, "__init__")
    ia = [a.arg for a in init.args.args]
    if ia != ["self", "order", "peak"]:
        raise Unsupported("GammaWindow.__init__ signature %s" % ia)
    for st in _body(init):
        ok = (
            isinstance(st, ast.Assign)
            and len(st.targets) == 1
            and isinstance(st.targets[0], ast.Attribute)
            and isinstance(st.targets[0].value, ast.Name)
            and st.targets[0].value.id == "self"
            and isinstance(st.value, ast.Name)
            and st.value.id == st.targets[0].attr
        )
        if not ok:
            raise Unsupported("GammaWindow.__init__ does more than store its arguments")
    m = _method(cls, "get_impulse_response")
    if [a.arg for a in m.args.args] != ["self", "width"]:
        raise Unsupported("GammaWindow.get_impulse_response signature")
    b = _body(m)
    if len(b) != 8:
        raise Unsupported("GammaWindow.get_impulse_response: expected 8 statements, found %d" % len(b))
    out = []
    env = {"width": "(IZR width)", "self.order": "(IZR order)", "self.peak": "peak"}
    zenv = {"width": "width", "self.order": "order"}
    t = RTr(env, zenv)

    def np_array_literal(e):
        # np.array([..], dtype=float)
        if not (isinstance(e, ast.Call) and _np_attr(e.func, "array") and len(e.args) == 1 and isinstance(e.args[0], ast.List)):
            raise Unsupported("expected np.array([...]) literal")
        for kw in e.keywords:
            if not (kw.arg == "dtype" and isinstance(kw.value, ast.Name) and kw.value.id == "float"):
                raise Unsupported("np.array keyword")
        return "[" + "; ".join(t.expr(x) for x in e.args[0].elts) + "]"

    # statement 0: if width <= 0: return [] elif width == 1: return [1]
    s0 = b[0]
    if not (isinstance(s0, ast.If) and len(s0.body) == 1 and isinstance(s0.body[0], ast.Return) and len(s0.orelse) == 1 and isinstance(s0.orelse[0], ast.If)):
        raise Unsupported("GammaWindow: early-return chain")
    s0b = s0.orelse[0]
    if not (len(s0b.body) == 1 and isinstance(s0b.body[0], ast.Return) and not s0b.orelse):
        raise Unsupported("GammaWindow: early-return chain (elif)")

    def zcond(c):
        if not (isinstance(c, ast.Compare) and len(c.ops) == 1):
            raise Unsupported("integer condition")
        a, bb = t.zexpr(c.left), t.zexpr(c.comparators[0])
        sym = {ast.LtE: "<=?", ast.Lt: "<?", ast.Eq: "=?", ast.GtE: ">=?", ast.Gt: ">?"}.get(type(c.ops[0]))
        if sym is None:
            raise Unsupported("integer comparison")
        return "(%s %s %s)%%Z" % (a, sym, bb)

    out.append("Definition gamma_early (width : Z) : option (list R) :=")
    out.append("  if %s then Some %s else if %s then Some %s else None." % (
        zcond(s0.test), np_array_literal(s0.body[0].value), zcond(s0b.test), np_array_literal(s0b.body[0].value)))
    # statement 1: peak = self.peak * width
    s1 = b[1]
    if not (isinstance(s1, ast.Assign) and len(s1.targets) == 1 and isinstance(s1.targets[0], ast.Name) and s1.targets[0].id == "peak"):
        raise Unsupported("GammaWindow: `peak = ...` expected")
    out.append("Definition gamma_peak (order : Z) (peak : R) (width : Z) : R := %s." % t.expr(s1.value))
    t.env["peak"] = "(gamma_peak order peak width)"
    # statement 2: ret = np.arange(width - 1, -1, -1, dtype=float)
    s2 = b[2]
    ok2 = (
        isinstance(s2, ast.Assign)
        and len(s2.targets) == 1
        and isinstance(s2.targets[0], ast.Name)
        and isinstance(s2.value, ast.Call)
        and _np_attr(s2.value.func, "arange")
        and len(s2.value.args) == 3
    )
    if not ok2:
        raise Unsupported("GammaWindow: `ret = np.arange(a, b, c)` expected")
    ret = s2.targets[0].id
    a0, a1, a2 = (t.zexpr(x) for x in s2.value.args)
    out.append("Definition gamma_arange (width : Z) : Z * Z * Z := (%s, %s, %s)." % (a0, a1, a2))
    # statement 3: if self.order > 1: alpha = ..; offs = .. else: alpha = ..; offs = ..
    s3 = b[3]
    if not (isinstance(s3, ast.If) and len(s3.body) == 2 and len(s3.orelse) == 2):
        raise Unsupported("GammaWindow: alpha/offs branch")
    cond = zcond(s3.test)
    vals = {}
    for branch, sts in (("then", s3.body), ("else", s3.orelse)):
        for st in sts:
            if not (isinstance(st, ast.Assign) and len(st.targets) == 1 and isinstance(st.targets[0], ast.Name)):
                raise Unsupported("GammaWindow: alpha/offs branch statement")
            vals[(branch, st.targets[0].id)] = st.value
    if set(vals) != {("then", "alpha"), ("then", "offs"), ("else", "alpha"), ("else", "offs")}:
        raise Unsupported("GammaWindow: alpha/offs branch assigns %s" % sorted(vals))
    out.append("Definition gamma_alpha (order : Z) (peak : R) (width : Z) : R :=")
    out.append("  if %s then %s else %s." % (cond, t.expr(vals[("then", "alpha")]), t.expr(vals[("else", "alpha")])))
    out.append("Definition gamma_offs (order : Z) (width : Z) : Z :=")
    out.append("  if %s then %s else %s." % (cond, t.zexpr(vals[("then", "offs")]), t.zexpr(vals[("else", "offs")])))
    t.env["alpha"] = "(gamma_alpha order peak width)"
    # statements 4, 5: ln_c = ...; ln_c -= ...
    t2 = t.clone()
    lnc = t2.block([b[4], b[5], ast.Return(value=ast.Name(id="ln_c", ctx=ast.Load()))])
    if not (isinstance(b[4], ast.Assign) and isinstance(b[5], ast.AugAssign)):
        raise Unsupported("GammaWindow: ln_c statements")
    out.append("Definition gamma_ln_c (order : Z) (peak : R) (width : Z) : R := %s." % lnc)
    t.env["ln_c"] = "(gamma_ln_c order peak width)"
    # statement 6: ret[:offs] = f(ret[:offs])
    s6 = b[6]

    def is_slice(e):
        return (
            isinstance(e, ast.Subscript)
            and isinstance(e.value, ast.Name)
            and e.value.id == ret
            and isinstance(e.slice, ast.Slice)
            and e.slice.lower is None
            and e.slice.step is None
            and isinstance(e.slice.upper, ast.Name)
            and e.slice.upper.id == "offs"
        )

    if not (isinstance(s6, ast.Assign) and len(s6.targets) == 1 and is_slice(s6.targets[0])):
        raise Unsupported("GammaWindow: `ret[:offs] = ...` expected")

    class Sub(ast.NodeTransformer):
        def visit_Subscript(self, node):
            if is_slice(node):
                return ast.Name(id="__elem__", ctx=ast.Load())
            raise Unsupported("GammaWindow: subscript other than ret[:offs]")

    rhs = Sub().visit(s6.value)
    for n in ast.walk(rhs):
        if isinstance(n, ast.Name) and n.id == ret:
            raise Unsupported("GammaWindow: whole-array use of ret in the update")
    t.env["__elem__"] = "t"
    out.append("Definition gamma_elem (order : Z) (peak : R) (width : Z) (t : R) : R := %s." % t.expr(rhs))
    s7 = b[7]
    if not (isinstance(s7, ast.Return) and isinstance(s7.value, ast.Name) and s7.value.id == ret):
        raise Unsupported("GammaWindow: does not return ret")
    out.append("")
    return out


# ---------------------------------------------------------------- util helpers


def tr_scalar_function(fn, coqname, params):
    args = [a.arg for a in fn.args.args]
    if args != params or fn.args.vararg or fn.args.kwarg or fn.args.kwonlyargs:
        raise Unsupported("%s signature %s" % (fn.name, args))
    env = {p: p for p in params}
    body = RTr(env).block(fn.body)
    binders = " ".join("(%s : R)" % p for p in params)
    return ["Definition %s %s : R :=\n  %s." % (coqname, binders, body), ""]


def tr_defaults(fn, expected):
    d = fn.args.defaults
    names = [a.arg for a in fn.args.args][len(fn.args.args) - len(d):]
    got = {}
    for n, v in zip(names, d):
        if not isinstance(v, ast.Constant):
            raise Unsupported("default of %s" % n)
        got[n] = v.value
    if got != expected:
        raise Unsupported("%s defaults %r, expected %r" % (fn.name, got, expected))


def tr_circshift(fn):
    args = [a.arg for a in fn.args.args]
    if args != ["filt", "shift", "start_idx", "dft_size", "copy"]:
        raise Unsupported("circshift_fourier signature %s" % args)
    tr_defaults(fn, {"start_idx": 0, "dft_size": None, "copy": True})
    b = _body(fn)
    if len(b) != 3:
        raise Unsupported("circshift_fourier: expected 3 statements, found %d" % len(b))
    s0, s1, s2 = b
    zenv = {"start_idx": "start_idx", "dft_size": "dft_size", "len:filt": "len_filt"}
    t = RTr({"shift": "shift", "dft_size": "(IZR dft_size)"}, zenv)
    # 1. default filled in first
    ok0 = (
        isinstance(s0, ast.If)
        and not s0.orelse
        and isinstance(s0.test, ast.Compare)
        and isinstance(s0.test.left, ast.Name)
        and s0.test.left.id == "dft_size"
        and len(s0.test.ops) == 1
        and isinstance(s0.test.ops[0], ast.Is)
        and isinstance(s0.test.comparators[0], ast.Constant)
        and s0.test.comparators[0].value is None
        and len(s0.body) == 1
        and isinstance(s0.body[0], ast.Assign)
        and isinstance(s0.body[0].targets[0], ast.Name)
        and s0.body[0].targets[0].id == "dft_size"
    )
    if not ok0:
        raise Unsupported("circshift_fourier: first statement must fill in the default dft_size")
    default = t.zexpr(s0.body[0].value)
    # 2. shift %= dft_size
    ok1 = (
        isinstance(s1, ast.AugAssign)
        and isinstance(s1.op, ast.Mod)
        and isinstance(s1.target, ast.Name)
        and s1.target.id == "shift"
        and isinstance(s1.value, ast.Name)
        and s1.value.id == "dft_size"
    )
    if not ok1:
        raise Unsupported("circshift_fourier: second statement must be `shift %= dft_size`")
    # 3. if copy or filt.dtype != np.complex128: return filt * np.exp(E) else: filt *= np.exp(E); return filt
    if not (isinstance(s2, ast.If) and len(s2.body) == 1 and len(s2.orelse) == 2):
        raise Unsupported("circshift_fourier: copy / in-place branch")
    c = s2.test
    okc = (
        isinstance(c, ast.BoolOp)
        and isinstance(c.op, ast.Or)
        and len(c.values) == 2
        and isinstance(c.values[0], ast.Name)
        and c.values[0].id == "copy"
        and isinstance(c.values[1], ast.Compare)
        and len(c.values[1].ops) == 1
        and isinstance(c.values[1].ops[0], ast.NotEq)
        and ast.dump(c.values[1].left) == ast.dump(ast.parse("filt.dtype", mode="eval").body)
        and ast.dump(c.values[1].comparators[0]) == ast.dump(ast.parse("np.complex128", mode="eval").body)
    )
    if not okc:
        raise Unsupported("circshift_fourier: out-of-place condition is not `copy or filt.dtype != np.complex128`")
    r0 = s2.body[0]
    okr = (
        isinstance(r0, ast.Return)
        and isinstance(r0.value, ast.BinOp)
        and isinstance(r0.value.op, ast.Mult)
        and isinstance(r0.value.left, ast.Name)
        and r0.value.left.id == "filt"
    )
    if not okr:
        raise Unsupported("circshift_fourier: out-of-place branch must return filt * <ramp>")
    ramp1 = r0.value.right
    i0, i1 = s2.orelse
    oki = (
        isinstance(i0, ast.AugAssign)
        and isinstance(i0.op, ast.Mult)
        and isinstance(i0.target, ast.Name)
        and i0.target.id == "filt"
        and isinstance(i1, ast.Return)
        and isinstance(i1.value, ast.Name)
        and i1.value.id == "filt"
    )
    if not oki:
        raise Unsupported("circshift_fourier: in-place branch must be `filt *= <ramp>; return filt`")
    ramp2 = i0.value
    if ast.dump(ramp1) != ast.dump(ramp2):
        raise Unsupported("circshift_fourier: the two branches use different phase ramps")
    if not (isinstance(ramp1, ast.Call) and _np_attr(ramp1.func, "exp") and len(ramp1.args) == 1 and not ramp1.keywords):
        raise Unsupported("circshift_fourier: ramp is not np.exp(...)")
    bins = {}

    def is_bins(e):
        return (
            isinstance(e, ast.BinOp)
            and isinstance(e.op, ast.Mod)
            and isinstance(e.left, ast.Call)
            and _np_attr(e.left.func, "arange")
            and len(e.left.args) == 2
            and not e.left.keywords
        )

    def real(e):
        if is_bins(e):
            if bins:
                raise Unsupported("circshift_fourier: two bin ranges")
            bins["lo"] = t.zexpr(e.left.args[0])
            bins["hi"] = t.zexpr(e.left.args[1])
            bins["mod"] = t.zexpr(e.right)
            return "(IZR k)"
        if isinstance(e, ast.BinOp) and isinstance(e.op, (ast.Mult, ast.Div)):
            return "(%s %s %s)" % (real(e.left), "*" if isinstance(e.op, ast.Mult) else "/", real(e.right))
        if isinstance(e, ast.Constant) and isinstance(e.value, complex):
            raise Unsupported("second imaginary factor")
        return t.expr(e)

    def imag(e):
        """e = j * (returned real term)"""
        if isinstance(e, ast.Constant) and isinstance(e.value, complex) and e.value.real == 0:
            return lit(e.value.imag)
        if isinstance(e, ast.UnaryOp) and isinstance(e.op, ast.USub):
            return "(- %s)" % imag(e.operand)
        if isinstance(e, ast.BinOp) and isinstance(e.op, ast.Mult):
            try:
                return "(%s * %s)" % (imag(e.left), real(e.right))
            except Unsupported:
                return "(%s * %s)" % (real(e.left), imag(e.right))
        if isinstance(e, ast.BinOp) and isinstance(e.op, ast.Div):
            return "(%s / %s)" % (imag(e.left), real(e.right))
        raise Unsupported("not a purely imaginary product: %s" % ast.dump(e)[:80])

    angle = imag(ramp1.args[0])
    if not bins:
        raise Unsupported("circshift_fourier: no `np.arange(lo, hi) % m` in the ramp")
    return [
        "(* circshift_fourier: 1. default dft_size, 2. shift %= dft_size, 3. filt * exp(j * csf_angle) *)",
        "Definition csf_default_dft_size (len_filt start_idx : Z) : Z := %s." % default,
        "Definition csf_shift_reduced (shift : R) (dft_size : Z) : R := pymod shift (IZR dft_size).",
        "Definition csf_out_of_place (copy is_complex128 : bool) : bool := copy || negb is_complex128.",
        "Definition csf_bin_lo (len_filt start_idx : Z) : Z := %s." % bins["lo"],
        "Definition csf_bin_hi (len_filt start_idx : Z) : Z := %s." % bins["hi"],
        "Definition csf_bin_mod (dft_size : Z) : Z := %s." % bins["mod"],
        "(* exponent of the ramp at bin k is j * csf_angle *)",
        "Definition csf_angle (shift : R) (dft_size : Z) (k : Z) : R := %s." % angle,
        "",
    ]


def translate(filters_src, util_src):
    out = [
        "(* GENERATED by /verif/gen/winhelp.py from src/pydrobert/speech/{filters,util}.py - do not edit *)",
        "From Coq Require Import Reals ZArith List Bool.",
        "From Verif Require Import lib.C20_Numpy.",
        "Import ListNotations.",
        "Open Scope R_scope.",
        "",
    ]
    ftree = ast.parse(filters_src)
    cls = _classes(ftree)
    # every WindowFunction subclass must be one we know
    for name, node in cls.items():
        bases = [b.id for b in node.bases if isinstance(b, ast.Name)]
        if "WindowFunction" in bases and name not in WINDOWS and name != "GammaWindow":
            raise Unsupported("unknown window class %s" % name)
    for name, (alias, npname) in WINDOWS.items():
        if name not in cls:
            raise Unsupported("missing window class %s" % name)
        lines = tr_plain_window(cls[name], alias, npname)
        out += lines
    if "GammaWindow" not in cls:
        raise Unsupported("missing GammaWindow")
    out += tr_gamma_window(cls["GammaWindow"])
    utree = ast.parse(util_src)
    fns = _functions(utree)
    for need in ("_gauss_quant_odeh_evans", "hertz_to_angular", "angular_to_hertz", "circshift_fourier"):
        if need not in fns:
            raise Unsupported("util.py lacks %s" % need)
    tr_defaults(fns["_gauss_quant_odeh_evans"], {"mu": 0, "std": 1})
    out += tr_scalar_function(fns["_gauss_quant_odeh_evans"], "gauss_quant", ["p", "mu", "std"])
    out += tr_scalar_function(fns["hertz_to_angular"], "hertz_to_angular", ["hertz", "samp_rate"])
    out += tr_scalar_function(fns["angular_to_hertz"], "angular_to_hertz", ["angle", "samp_rate"])
    out += tr_circshift(fns["circshift_fourier"])
    return "\n".join(out) + "\n"


def main(src_path, out_path):
    d = src_path if os.path.isdir(src_path) else os.path.dirname(src_path)
    text = translate(open(os.path.join(d, "filters.py")).read(), open(os.path.join(d, "util.py")).read())
    if not os.path.exists(out_path) or open(out_path).read() != text:
        os.makedirs(os.path.dirname(out_path), exist_ok=True)
        open(out_path, "w").write(text)
    return text


if __name__ == "__main__":
    print(main(sys.argv[1], sys.argv[2]))
