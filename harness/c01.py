"""C01 - chunked streaming equals whole-signal computation, for every chunking.

Proof: coq/C01/Props.v (STFT: stream = full for ALL chunk lists, by the invariant
of coq/Stft/Stream.v) and coq/C03/Props.v (short integration).
Tie: hand-written model + correspondence (index-coded signals; the frames the
implementation hands to its per-frame routine are compared, inside Coq, with the
model's, over the whole utterance).  Search: chunked vs full on the real code,
also when the caller hands the chunks over in one re-used (overwritten) block buffer.
"""

import itertools
import os

import numpy as np

from . import common as C
from . import stft


def compositions(n):
    """All compositions of n (ordered lists of positive parts)."""
    if n == 0:
        yield []
        return
    for bits in itertools.product([0, 1], repeat=n - 1):
        parts, cur = [], 1
        for b in bits:
            if b:
                parts.append(cur)
                cur = 1
            else:
                cur += 1
        parts.append(cur)
        yield parts


def gen_cases(ctx):
    rng = ctx.rng
    cases = []
    n = ctx.scale(700, 6000)
    for _ in range(n):
        cfg = stft.rand_cfg(rng, maxL=24 if not ctx.thorough else 40)
        N = rng.choice(stft.interesting_lengths(cfg) + [rng.randint(0, 5 * cfg[0])] * 3)
        style = rng.choice(["one", "ones", "small", "big", "mix", "mix"])
        parts = stft.rand_composition(rng, N, style)
        cases.append((cfg, N, parts, None))
    # frame_by_frame_calculation with assorted chunk sizes
    for _ in range(n // 6):
        cfg = stft.rand_cfg(rng)
        N = rng.choice(stft.interesting_lengths(cfg) + [rng.randint(0, 5 * cfg[0])])
        cases.append((cfg, N, None, rng.choice([1, 2, 3, cfg[1], cfg[0], 7, 16, 1024])))
    if ctx.thorough:
        # every composition of every N <= 9 for every (L,S) with L <= 6, all styles
        for Lv in range(1, 7):
            for Sv in range(1, Lv + 1):
                for cen, kal in ((False, False), (True, False), (True, True)):
                    for N in range(0, 10):
                        for parts in compositions(N):
                            cases.append(((Lv, Sv, cen, kal), N, parts, None))
        # speech-scale framings
        for Lv, Sv in ((400, 160), (200, 80), (401, 161)):
            for cen, kal in ((False, False), (True, False), (True, True)):
                for N in (0, 100, 200, 201, 399, 400, 401, 560, 561, 565, 890, 1600, 3001):
                    for style in ("ones", "small", "mix", "big"):
                        if style == "ones" and N > 900:
                            continue
                        cases.append(((Lv, Sv, cen, kal), N, stft.rand_composition(rng, N, style), None))
    return cases


def ops_of(case):
    cfg, N, parts, k = case
    x = list(range(N))
    if parts is None:
        return [("fbf", x, k)]
    ops, p = [], 0
    for m in parts:
        ops.append(("chunk", x[p:p + m]))
        p += m
    ops.append(("finalize",))
    return ops


def float_oracle(ctx):
    """chunked == full on real banks with float signals (the property itself)."""
    C.ensure_impl_path()
    from pydrobert.speech import compute, filters

    rng = ctx.rng
    nprng = np.random.RandomState(ctx.seed + 17)
    banks = [
        lambda: filters.Fbank(num_filts=8, sampling_rate=8000),
        lambda: filters.GaborFilterBank("mel", num_filts=5, sampling_rate=8000),
        lambda: filters.TriangularOverlappingFilterBank("bark", num_filts=6, sampling_rate=8000, analytic=True),
    ]
    bad = []
    for rep in range(ctx.scale(12, 80)):
        bank = rng.choice(banks)()
        flm = rng.choice([5.0, 6.3, 10.0, 25.0])
        fsm = rng.choice([1.0, 2.5, flm / 2, flm, flm, 0.8 * flm])
        style = rng.choice(["causal", "centered"])
        kal = rng.random() < 0.4
        c = compute.STFTFrameComputer(bank, frame_length_ms=flm, frame_shift_ms=fsm, frame_style=style,
                                      kaldi_shift=kal, include_energy=rng.random() < 0.5,
                                      pad_to_nearest_power_of_two=rng.random() < 0.5)
        Lv, Sv = c.frame_length, c.frame_shift
        if not (0 < Sv <= Lv):
            continue
        for N in [0, Sv // 2, Lv // 2, Lv // 2 + 1, Lv, Lv + Sv + 1, rng.randint(0, 6 * Lv)] + ([3 * Sv + Lv] if 2 * Lv < 3 * Sv else []):
            dt = rng.choice([np.float64, np.float32])
            x = nprng.randn(N).astype(dt)
            # the caller's signal may be a view (one channel of an interleaved recording, every second sample, ...):
            # the whole-signal call and the chunked calls see the same samples
            layout = rng.choice(stft.LAYOUTS)
            x = stft.laid_out(x, layout)[0]
            ctx.count("float_oracle:layout=" + layout)
            full = c.compute_full(x)
            parts = stft.rand_composition(rng, N, rng.choice(["ones", "small", "mix", "big"]) if N < 400 else "mix")
            outs, p = [], 0
            for m in parts:
                outs.append(c.compute_chunk(x[p:p + m]))
                p += m
            outs.append(c.finalize())
            got = np.concatenate(outs)
            ctx.count("float_oracle")
            # float32 input: the energy coefficient is accumulated in single precision on
            # frames that are pure chunk slices, so only float32 round-off agreement is meant
            rtol, atol = (1e-9, 1e-12) if dt is np.float64 else (2e-4, 1e-5)
            ok = got.shape == full.shape and (got.dtype == full.dtype or not parts) and np.allclose(got, full, rtol=rtol, atol=atol)
            if not ok:
                bad.append(dict(bank=type(bank).__name__, frame_length=Lv, frame_shift=Sv, style=style, kaldi_shift=kal,
                                N=N, chunk_lengths=parts, dtype=str(np.dtype(dt)), got_shape=list(got.shape), full_shape=list(full.shape),
                                signal_layout=layout))
            fb = compute.frame_by_frame_calculation(c, x, rng.choice([1, 7, Sv, 1024]))
            if not (fb.shape == full.shape and np.allclose(fb, full, rtol=rtol, atol=atol)):
                bad.append(dict(kind="frame_by_frame_calculation", frame_length=Lv, frame_shift=Sv, style=style, kaldi_shift=kal, N=N))
    # "the same matrix for every chunk_size": a chunk size held in a narrow numpy integer (read from a header, an int16
    # configuration array) on a signal longer than that type can index
    bank = banks[0]()
    c = compute.STFTFrameComputer(bank, frame_length_ms=25.0, frame_shift_ms=25.0, frame_style="causal")
    for N, cs in ((40000, np.int16(1024)), (65000, np.uint16(1024)), (70000, np.uint16(4096)), (400, np.int8(100)), (300, np.uint8(200))):
        x = nprng.randn(N)
        full = c.compute_full(x)
        ctx.count("float_oracle:numpy-chunk_size")
        try:
            fb = compute.frame_by_frame_calculation(c, x, cs)
            ok = fb.shape == full.shape and np.allclose(fb, full, rtol=1e-9, atol=1e-12)
            why = "shape %s vs %s" % (fb.shape, full.shape)
        except Exception as e:  # noqa: BLE001
            ok, why = False, "raised %s: %s" % (type(e).__name__, str(e)[:100])
            if c.started:
                c.finalize()
        if not ok:
            bad.append(dict(kind="frame_by_frame_calculation", N=N, chunk_size="%s(%d)" % (type(cs).__name__, int(cs)), problem=why,
                            frame_length=c.frame_length, frame_shift=c.frame_shift, style="causal", kaldi_shift=False))
    return bad


STFT_BANKS = {
    "fbank": lambda f: f.Fbank(num_filts=8, sampling_rate=8000),
    "gabor": lambda f: f.GaborFilterBank("mel", num_filts=5, sampling_rate=8000),
    "tri-analytic": lambda f: f.TriangularOverlappingFilterBank("bark", num_filts=6, sampling_rate=8000, analytic=True),
}


def build_block_computer(spec):
    from pydrobert.speech import compute, filters

    if spec["computer"] == "si":
        from . import c03

        return c03.build_real_computer(spec["config"])
    return compute.STFTFrameComputer(STFT_BANKS[spec["bank"]](filters), **spec["config"])


def check_reused_block(spec):
    """The caller streams the signal through ONE preallocated block buffer: it copies the next
    block_size samples into the buffer, passes (the filled part of) the buffer to compute_chunk and,
    once the call has returned, overwrites the buffer - with the next block, and with NaN / zeros when
    spec['scribble'] says so, always before finalize.  That is one way of cutting the signal into
    consecutive chunks, so the concatenated result equals compute_full.  -> list of failure texts."""
    c = build_block_computer(spec)
    dt = np.dtype(spec["dtype"])
    x = np.random.RandomState(spec["seed"]).randn(spec["N"]).astype(dt)
    x.setflags(write=False)
    full = c.compute_full(x)
    B, N = spec["block_size"], spec["N"]
    junk = {"nan": np.nan, "zeros": 0.0, "next": None}[spec["scribble"]]
    block = np.full(B, np.nan, dtype=dt)
    outs = []
    for p in range(0, N, B):
        m = min(B, N - p)
        block[:m] = x[p:p + m]
        outs.append(c.compute_chunk(block[:m]))
        if junk is not None:
            block[:] = junk
    block[:] = np.nan if junk is None else junk
    outs.append(c.finalize())
    block[:] = 0.0
    got = np.concatenate(outs)
    if spec["computer"] == "si":
        tol = 1e-9 if dt.itemsize >= 8 else 1e-3
        rtol, atol = tol, tol * max(1.0, float(np.max(np.abs(full))) if full.size else 1.0)
    else:
        rtol, atol = (1e-9, 1e-12) if dt.itemsize >= 8 else (2e-4, 1e-5)
    if got.shape != full.shape:
        return ["streaming through a reused block gives shape %r, compute_full %r" % (got.shape, full.shape)]
    okm = np.isclose(got, full, rtol=rtol, atol=atol)
    if not np.all(okm):
        rows = sorted(set(int(k) for k in np.argwhere(~okm)[:, 0]))
        return ["streaming through a reused block buffer of %d samples (frame_length %d, frame_shift %d): frames %s of %d "
                "differ from compute_full (first: got %r, expected %r)"
                % (B, c.frame_length, c.frame_shift, rows[:8], len(full), float(got[tuple(np.argwhere(~okm)[0])]),
                   float(full[tuple(np.argwhere(~okm)[0])]))]
    return []


def reused_block_oracle(ctx):
    """chunked == full when the chunks are handed over in a buffer the caller re-uses (the array
    passed to compute_chunk belongs to the caller again as soon as the call returns): block sizes
    below, at and above frame_length, STFT and short-integration computers."""
    C.ensure_impl_path()
    from . import c03

    rng = ctx.rng
    bad = []
    for rep in range(ctx.scale(24, 160)):
        if rng.random() < 0.6:
            flm = rng.choice([5.0, 6.3, 10.0, 25.0])
            spec = dict(computer="stft", bank=rng.choice(sorted(STFT_BANKS)),
                        config=dict(frame_length_ms=flm, frame_shift_ms=rng.choice([1.0, 2.5, flm / 2, flm]),
                                    frame_style=rng.choice(["causal", "centered"]), kaldi_shift=rng.random() < 0.4,
                                    include_energy=rng.random() < 0.5, pad_to_nearest_power_of_two=rng.random() < 0.5))
            c = build_block_computer(spec)
            unit = c.frame_length
        else:
            c, cfgd = c03.make_real_computer(rng)
            if not c03.comp_pre(c, cfgd):
                continue
            spec = dict(computer="si", config=cfgd)
            unit = c._dft_size - c._max_support + 1
        Lv, Sv = c.frame_length, c.frame_shift
        if not (0 < Sv <= Lv):
            continue
        sizes = {1, Sv, max(1, Lv // 2), max(1, Lv - 1), Lv, Lv + 1, Lv + Sv, 2 * Lv + 3, unit, unit + 1, rng.randint(1, 3 * Lv)}
        for B in sorted(set(rng.sample(sorted(sizes), min(6, len(sizes)))) | {Lv}):
            N = rng.choice([B, 2 * B, 2 * B + Sv // 2, 3 * B + 1, Lv + B, rng.randint(0, 4 * max(B, Lv))])
            if B < 4 and N > 300:
                N = rng.randint(0, 300)
            sp = dict(spec, kind="reused-block", N=N, block_size=B, dtype=rng.choice(["float64", "float64", "float32"]),
                      seed=rng.randint(0, 1 << 30), scribble=rng.choice(["nan", "next", "zeros"]))
            ctx.count("reused-block:%s:%s" % (spec["computer"], "B<L" if B < Lv else ("B=L" if B == Lv else "B>L")))
            ctx.case(dict(kind="reused-block", computer=spec["computer"], config=spec["config"], bank=spec.get("bank"), N=N,
                          block_size=B, scribble=sp["scribble"]), nontrivial=N > B and N + Sv // 2 >= Sv)
            try:
                msgs = check_reused_block(sp)
            except Exception as e:  # noqa - every call of this streaming pattern is valid
                msgs = ["streaming through a reused block buffer of %d samples raised %s: %s" % (B, type(e).__name__, e)]
            for msg in msgs[:1]:
                bad.append((msg, dict(sp, frame_length=Lv, frame_shift=Sv,
                                      how="harness/c01.py:check_reused_block(spec); signal = "
                                          "np.random.RandomState(seed).randn(N).astype(dtype)")))
    return bad


def run(ctx):
    C.ensure_impl_path()
    stft.regenerate(ctx)
    stft.regenerate_si(ctx)
    pr = C.proof_step(ctx)
    cases = gen_cases(ctx)
    # corpus of earlier failures first
    corpus = [
        ((25, 10, False, False), 25, [25], None), ((25, 10, False, False), 36, [10, 26], None),
        ((25, 10, True, False), 7, [7], None), ((2, 1, True, True), 1, [1], None),
        ((5, 2, False, False), 5, [1, 1, 1, 1, 1], None), ((400, 160, False, False), 561, [560, 1], None),
    ]
    cases = corpus + cases
    full_cases, impl_bad = [], []
    for case in cases:
        cfg, N, parts, k = case
        ops = ops_of(case)
        outs, sts, shapes_ok = stft.run_history(cfg, ops)
        x = list(range(N))
        fouts, _, _ = stft.run_history(cfg, [("full", x)])
        got = [f for o in outs if o is not None for f in o]
        nontrivial = len(got) >= 1 and (parts is None or len(parts) >= 2)
        desc = dict(L=cfg[0], S=cfg[1], centered=cfg[2], kaldi_shift=cfg[3], N=N,
                    chunk_lengths=parts if parts is not None else "frame_by_frame_calculation(chunk_size=%d)" % k,
                    frames=len(got))
        ctx.case(desc, nontrivial=nontrivial)
        ctx.count("style:%s%s" % ("centered" if cfg[2] else "causal", "+kaldi" if cfg[3] else ""))
        ctx.count("N<L/2+1" if N < cfg[0] // 2 + 1 else ("N<L" if N < cfg[0] else "N>=L"))
        ctx.count("chunks:%s" % ("fbf" if parts is None else min(len(parts), 5)))
        if not shapes_ok or got != fouts[0]:
            impl_bad.append(dict(desc, streamed_frames=got[:6], full_frames=fouts[0][:6], shapes_ok=shapes_ok))
        full_cases.append((cfg, ops, outs, sts))
    for b in impl_bad[:5]:
        ctx.fail("chunked streaming differs from compute_full on the implementation (index-coded signal 0..N-1)", b, kind="impl")
    bad = stft.compare_with_model(ctx, full_cases, "c01")
    if bad:
        k = bad[0]
        rp = dict(correspondence="coq/Stft/Model.v vs ShortTimeFourierTransformFrameComputer (frames handed to _compute_frame)",
                  cfg=full_cases[k][0], ops=[list(map(str, o)) for o in full_cases[k][1]][:40], impl_outputs=str(full_cases[k][2])[:2000],
                  model_outputs=stft.model_output(ctx, full_cases[k])[:2000], mismatching_cases=len(bad))
        ctx.fail("model and implementation disagree on %d histories" % len(bad), rp, kind="correspondence", no_input=not impl_bad)
    elif bad is not None:
        ctx.cov["traces_validated_against_impl"] += len(full_cases)
    fb = float_oracle(ctx)
    for b in fb[:5]:
        ctx.fail("chunked streaming differs from compute_full (float signal, real bank)", b, kind="impl")
    # short-integration half
    try:
        from . import c03

        if hasattr(c03, "run_si_stream_correspondence"):
            c03.run_si_stream_correspondence(ctx)
    except ImportError:
        ctx.assumptions.append("short-integration half not available in this build (harness/c03.py missing)")
    # (after everything else: the random choices of the searches above stay what they were)
    for msg, b in reused_block_oracle(ctx)[:5]:
        ctx.fail("chunked streaming differs from compute_full when the caller re-uses its chunk buffer: " + msg, b, kind="impl")
    ctx.cov["rule"] = (
        "STFT: random (L<=24/40, S<=L, style) x signal lengths biased to the boundaries {S//2, L//2, L//2+1, L-1, L, L+jS+r} "
        "x compositions (one chunk, all ones, small, big, mixed with empty chunks) and frame_by_frame_calculation chunk sizes; "
        "thorough adds every composition of every N<=9 for every L<=6 and speech-scale framings. Signals are 0..N-1 so every "
        "frame is an exact index list, compared inside Coq with the model. non-trivial = at least one frame and at least two chunks; "
        "distinct = distinct (cfg, N, chunk lengths). Float search on real banks: random chunkings, and fixed-size blocks "
        "(below / at / above frame_length) streamed through ONE caller-owned buffer that is overwritten after every call."
    )
    ctx.cov["trusted_base"] += [
        "model of NumPy slicing / np.pad(symmetric) in coq/lib/ZList.v + coq/Stft/Model.v (validated by the correspondence)",
        "the per-frame routine _compute_frame is a pure function of the frame (so equal frames => bit-identical features)",
        "harness: frame capture by wrapping _compute_frame, index-coded signals",
    ]
    ctx.assumptions += ["0 < frame_shift <= frame_length", "numpy errors (shape mismatch) do not occur on the modelled paths; the tie would expose them"]
    return C.finish(ctx, "proof")


def replay(ctx, rp):
    """Re-run the recorded failing case on the implementation (chunked vs compute_full)."""
    C.ensure_impl_path()
    import json

    f = rp.get("failure", {}).get("replay", {})
    print(json.dumps(rp.get("failure", {}), indent=1, default=str)[:4000])
    if f.get("kind") == "reused-block":
        msgs = check_reused_block(f)
        for m in msgs:
            print("VIOLATION property=C01 replay=(replayed case reproduces):", m)
        if not msgs:
            print("replayed case does not reproduce on this tree")
        return 1 if msgs else 0
    if not all(k in f for k in ("L", "S", "N")) or not isinstance(f.get("chunk_lengths"), list):
        print("replay: nothing executable recorded (proof / correspondence failure): see the fields above")
        return 0
    cfg = (f["L"], f["S"], bool(f.get("centered")), bool(f.get("kaldi_shift")))
    x = list(range(f["N"]))
    ops, p0 = [], 0
    for m in f["chunk_lengths"]:
        ops.append(("chunk", x[p0:p0 + m]))
        p0 += m
    ops.append(("finalize",))
    outs, _, _ = stft.run_history(cfg, ops)
    fouts, _, _ = stft.run_history(cfg, [("full", x)])
    got = [fr for o in outs if o is not None for fr in o]
    print("streamed frames:", got)
    print("compute_full frames:", fouts[0])
    if got != fouts[0]:
        print("VIOLATION property=C01 replay=(replayed case reproduces)")
        return 1
    print("replayed case does not reproduce on this tree")
    return 0
