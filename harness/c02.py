"""C02 - STFT coefficients equal their documented definition.

Proof: coq/C02/Props.v (frame count / length / documented ranges / symmetric
reflection element by element; the segment walk meets bin (start + j) mod D for ALL
D, start, len; the accumulated coefficient equals the full-spectrum sum with the
response rebuilt by the documented recipe; default frame length keeps a bin).
Tie: (i) the walk of the real `_compute_frame` (and of the torch port) is probed with
one-hot filters on a frame whose half spectrum is 1, 2, 3, ... and compared exactly
with the model; (ii) compute_full's frames (index-coded) against full_frames;
Search: independent oracle sum_k |fft(w * frame)[k] * H_full[k]|^p with H_full
rebuilt from get_truncated_response by the documented recipes; the same oracle with the
package setting config.LOG_FLOOR_VALUE re-assigned after import (the floor of the property is the
value in force) and on long 16-bit-scale loud leads followed by a quiet non-zero tail (energy).
"""

import numpy as np

from . import common as C
from . import stft


def stub_bank(n, real):
    C.ensure_impl_path()
    from pydrobert.speech import filters

    class StubBank(filters.LinearFilterBank):
        aliases = set()

        def __init__(self):
            pass

        is_real = real
        is_analytic = False
        is_zero_phase = True
        num_filts = n
        sampling_rate = 1000.0
        supports_hz = tuple((0.0, 500.0) for _ in range(n))
        supports = tuple((-2, 2) for _ in range(n))

        def get_impulse_response(self, i, w):
            raise NotImplementedError

        def get_frequency_response(self, i, w, half=False):
            raise NotImplementedError

        def get_truncated_response(self, i, w):
            return 0, np.ones(1, dtype=np.complex128)

    return StubBank()


def probe_numpy(D, start, ln):
    from pydrobert.speech import compute

    c = compute.STFTFrameComputer(stub_bank(ln, False), frame_length_ms=D, frame_shift_ms=max(1, D), frame_style="causal",
                                  use_log=False, use_power=False, pad_to_nearest_power_of_two=False)
    assert c.frame_length == D and c._dft_size == D
    c._window = np.ones(D)
    c._filt_start_idxs = [start] * ln
    filts = []
    for j in range(ln):
        f = np.zeros(ln, dtype=np.complex128)
        f[j] = 1.0
        filts.append(f)
    c._truncated_filts = filts
    half = D // 2 + 1
    target = np.arange(1, half + 1, dtype=np.float64).astype(np.complex128)
    frame = np.fft.irfft(target, n=D)
    coeffs = np.empty(ln)
    c._compute_frame(frame, coeffs)
    r = np.rint(coeffs)
    if np.max(np.abs(r - coeffs)) > 1e-6:
        return None
    return [int(v) - 1 for v in r]


def probe_torch(D, start, ln):
    import torch
    from pydrobert.speech.torch import pytorch_stft_frame_computer

    half = D // 2 + 1
    target = np.arange(1, half + 1, dtype=np.float64).astype(np.complex128)
    frame = torch.tensor(np.fft.irfft(target, n=D), dtype=torch.float64)
    filts = []
    for j in range(ln):
        f = torch.zeros(ln, dtype=torch.complex128)
        f[j] = 1.0
        filts.append(f)
    out = pytorch_stft_frame_computer(frame, filts, [start] * ln, D, max(1, D), centered=False, window=None, dft_size=D,
                                      use_log=False, use_power=False, include_energy=False, kaldi_shift=False, is_real=False)
    v = out.detach().numpy().reshape(-1)
    r = np.rint(v)
    if v.shape != (ln,) or np.max(np.abs(r - v)) > 1e-6:
        return None
    return [int(x) - 1 for x in r]


def full_response(bank, i, D):
    """The documented recipes of get_truncated_response."""
    st, tr = bank.get_truncated_response(i, D)
    H = np.zeros(D, dtype=np.complex128)
    if bank.is_real:
        H[st:st + len(tr)] = tr
        H[D - st - len(tr) + 1:D - st + 1] = tr[:None if st else 0:-1].conj()
        return H
    wrap = min(st + len(tr), D) - st
    H[st:st + wrap] = tr[:wrap]
    H[:len(tr) - wrap] = tr[wrap:]
    return H


def documented_dft_size(Lv, pad):
    """frame_length, or the first power of two at or beyond it (never read from the computer)."""
    if not pad:
        return Lv
    D = 1
    while D < Lv:
        D *= 2
    return D


from .stft import LAYOUTS, laid_out  # noqa: E402


def oracle_features(c, x, config, D, window=None):
    Lv, Sv = c.frame_length, c.frame_shift
    N = len(x)
    ncoef = c.bank.num_filts + int(c.includes_energy)
    if N < Lv // 2 + 1:
        return np.zeros((0, ncoef))
    if c.frame_style == "causal":
        pl = 0
    elif c.kaldi_shift:
        pl = Lv // 2 - Sv // 2
    else:
        pl = (Lv + 1) // 2 - 1
    nf = (N + Sv // 2) // Sv
    idx = np.arange(nf * 0 - pl, (nf - 1) * Sv - pl + Lv)  # positions in signal coordinates
    m = np.mod(idx, 2 * N)
    src = np.where(m < N, m, 2 * N - 1 - m)  # symmetric extension, element by element
    xp = x[src]
    Hs = [full_response(c.bank, i, D) for i in range(c.bank.num_filts)]
    out = []
    for k in range(nf):
        fr = xp[k * Sv:k * Sv + Lv]
        X = np.fft.fft(fr * (window if window is not None else c._window), n=D)
        row = []
        if c.includes_energy:
            e = np.mean(fr.astype(np.float64) ** 2)
            row.append(e if c._power else e ** 0.5)
        for H in Hs:
            v = np.abs(X * H)
            row.append((v ** 2).sum() if c._power else v.sum())
        row = np.array(row)
        if c._log:
            row = np.log(np.maximum(row, config.LOG_FLOOR_VALUE))
        out.append(row)
    return np.array(out).reshape(nf, ncoef)


def end_to_end(ctx):
    C.ensure_impl_path()
    from pydrobert.speech import compute, config, filters

    rng = ctx.rng
    nprng = np.random.RandomState(ctx.seed + 5)
    bad = []
    mk = [
        ("gabor", lambda r, lo: filters.GaborFilterBank(rng.choice(["mel", "bark"]), num_filts=5, sampling_rate=r, low_hz=lo)),
        ("gabor_erb", lambda r, lo: filters.GaborFilterBank("mel", num_filts=5, sampling_rate=r, low_hz=lo, erb=True)),
        ("gammatone", lambda r, lo: filters.ComplexGammatoneFilterBank("mel", num_filts=5, sampling_rate=r, low_hz=lo)),
        ("tri", lambda r, lo: filters.TriangularOverlappingFilterBank("mel", num_filts=6, sampling_rate=r, low_hz=lo)),
        ("tri_analytic", lambda r, lo: filters.TriangularOverlappingFilterBank("bark", num_filts=6, sampling_rate=r, low_hz=lo, analytic=True)),
        ("fbank", lambda r, lo: filters.Fbank(num_filts=6, sampling_rate=r, low_hz=lo)),
        ("fbank_analytic", lambda r, lo: filters.Fbank(num_filts=6, sampling_rate=r, low_hz=lo, analytic=True)),
    ]
    for rep in range(ctx.scale(70, 600)):
        name, ctor = rng.choice(mk)
        rate = rng.choice([8000, 16000])
        lo = rng.choice([0.0, 20.0, 100.0])
        bank = ctor(rate, lo)
        flm = rng.choice([None, 2.5, 3.1, 4.0, 5.1, 6.3, 8.0, 12.7, 16.0, 25.0, 32.0])
        fsm = rng.choice([1.0, 2.0, 2.5, 10.0])
        kw = dict(frame_length_ms=flm, frame_shift_ms=fsm, frame_style=rng.choice(["causal", "centered", None]),
                  kaldi_shift=rng.random() < 0.4, include_energy=rng.random() < 0.5,
                  pad_to_nearest_power_of_two=rng.random() < 0.5, use_log=rng.random() < 0.5, use_power=rng.random() < 0.5,
                  window_function=rng.choice([None, None, "hamming", "hann", "bartlett", "blackman"]))
        if rep % 10 == 9:
            # every documented default at once, on each kind of bank in turn (the defaults depend on the bank's phase)
            name, ctor = mk[(rep // 10) % len(mk)]
            bank = ctor(rate, lo)
            kw.update(frame_style=None, window_function=None, frame_length_ms=None)
            flm = None
            ctx.count("e2e:all-defaults")
        try:
            c = compute.STFTFrameComputer(bank, **kw)
        except ValueError:
            continue
        # the documented defaults, worked out here and not read from the computer: the frame style of a bank that is
        # not zero-phase is "causal", and the window is GammaWindow for causal frames, HannWindow otherwise
        style_doc = kw["frame_style"] or ("centered" if bank.is_zero_phase else "causal")
        if c.frame_style != style_doc:
            bad.append(dict(what="default frame_style", bank=name, got=c.frame_style, documented=style_doc))
            continue
        wname = kw["window_function"] or ("gamma" if style_doc == "causal" else "hann")
        doc_window = filters.WindowFunction.from_alias(wname).get_impulse_response(c.frame_length)
        Lv, Sv = c.frame_length, c.frame_shift
        if not (0 < Sv <= Lv):
            continue
        D = documented_dft_size(Lv, kw["pad_to_nearest_power_of_two"])
        for N in [Lv // 2, Lv // 2 + 1, Lv, rng.randint(Lv // 2 + 1, 3 * Lv + 7)] + ([3 * Sv + Lv] if 2 * Lv < 3 * Sv else []):
            # loud noise, quiet and very quiet noise (mean square below LOG_FLOOR_VALUE), digital silence,
            # a loud burst followed by silence (frames on both sides of the floor)
            level = rng.choice(["loud", "loud", "quiet", "faint", "silence", "burst"])
            x = nprng.randn(N) * {"loud": 1.0, "quiet": 1e-3, "faint": 1e-6, "silence": 0.0, "burst": 1.0}[level]
            if level == "burst":
                x[N // 3:] *= 1e-4
            # the signal is whatever 1-D array the caller has: a view into a longer or multi-channel recording, a
            # reversed view or a read-only array hold the same samples (N = 3S + L with light overlap needs no padding at
            # all in the causal style, so the frames come straight out of the caller's memory)
            layout = rng.choice(LAYOUTS)
            xin, back, back0 = laid_out(x, layout)
            try:
                got = c.compute_full(xin)
            except Exception as e:  # noqa: BLE001
                bad.append(dict(what="compute_full raises %s: %s" % (type(e).__name__, str(e)[:200]), bank=name, N=N, layout=layout,
                                **{k: str(v) for k, v in kw.items()}))
                continue
            if not np.array_equal(back, back0):
                bad.append(dict(what="compute_full modified the caller's signal", bank=name, N=N, layout=layout, **{k: str(v) for k, v in kw.items()}))
                continue
            ctx.count("e2e:layout=" + layout)
            ref = oracle_features(c, x, config, D, window=doc_window)
            desc = dict(bank=name, rate=rate, low_hz=lo, frame_length=Lv, frame_shift=Sv, dft_size=D, N=N, level=level, layout=layout,
                        **{k: str(v) for k, v in kw.items()})
            ctx.case(desc, nontrivial=got.shape[0] > 0)
            ctx.count("e2e:" + name)
            ctx.count("e2e:level=" + level)
            ctx.count("e2e:frame_length_is_power_of_two=%s" % (Lv & (Lv - 1) == 0))
            ctx.count("dft%%4=%d" % (D % 4))
            if got.shape != ref.shape:
                bad.append(dict(desc, what="shape", got=list(got.shape), expected=list(ref.shape)))
                continue
            if got.size:
                if c._log:
                    err = np.max(np.abs(got - ref))
                    okv = err <= 1e-8
                else:
                    err = np.max(np.abs(got - ref) / (np.abs(ref) + 1e-30))
                    okv = err <= 1e-8
                if not okv:
                    worst = np.unravel_index(np.argmax(np.abs(got - ref)), got.shape)
                    bad.append(dict(desc, what="value", max_err=float(err), frame=int(worst[0]), coeff=int(worst[1]),
                                    got=float(got[worst]), expected=float(ref[worst])))
        # default frame length keeps a bin per filter
        if flm is None:
            for i in range(bank.num_filts):
                st, tr = bank.get_truncated_response(i, D)
                if not (len(tr) >= 1 and np.any(np.abs(tr) > 0)):
                    bad.append(dict(desc, what="default frame length leaves filter %d without a non-zero bin" % i))
    return bad


def value_mismatch(c, got, ref, desc):
    """The comparison of end_to_end (1e-8: absolute on logs, relative otherwise); a finding dict or None."""
    if got.shape != ref.shape:
        return dict(desc, what="shape", got=list(got.shape), expected=list(ref.shape))
    if not got.size:
        return None
    if c._log:
        d = np.abs(got - ref)
    else:
        d = np.abs(got - ref) / (np.abs(ref) + 1e-30)
    d = np.where(np.isfinite(d), d, np.inf)
    if np.max(d) <= 1e-8:
        return None
    worst = np.unravel_index(np.argmax(d), got.shape)
    return dict(desc, what="value", max_err=float(d[worst]), frame=int(worst[0]), coeff=int(worst[1]),
                got=float(got[worst]), expected=float(ref[worst]))


def small_bank(rng, filters, rate):
    kind = rng.choice(["gabor", "gammatone", "tri", "fbank", "tri_analytic"])
    if kind == "gabor":
        return kind, filters.GaborFilterBank(rng.choice(["mel", "bark"]), num_filts=4, sampling_rate=rate)
    if kind == "gammatone":
        return kind, filters.ComplexGammatoneFilterBank("mel", num_filts=4, sampling_rate=rate)
    if kind == "tri":
        return kind, filters.TriangularOverlappingFilterBank("mel", num_filts=5, sampling_rate=rate)
    if kind == "tri_analytic":
        return kind, filters.TriangularOverlappingFilterBank("bark", num_filts=5, sampling_rate=rate, analytic=True)
    return kind, filters.Fbank(num_filts=5, sampling_rate=rate)


def narrow_bank_default_length(ctx):
    """'With the default frame length every filter keeps at least one non-zero DFT bin' on banks whose filters are narrow
    next to their temporal support (many filters in a narrow range; ordinary banks after EFFECTIVE_SUPPORT_THRESHOLD was
    raised): for every filter the response rebuilt for the computer's DFT size has a non-zero bin, and a tone at the
    filter's centre lifts its coefficient off the log floor."""
    C.ensure_impl_path()
    from pydrobert.speech import compute, config, filters, scales

    bad = []
    shipped = config.EFFECTIVE_SUPPORT_THRESHOLD
    plans = [
        ("60 linear triangles in 100-200 Hz @16k", shipped,
         lambda: filters.TriangularOverlappingFilterBank(scales.LinearScaling(0.0), num_filts=60, low_hz=100.0, high_hz=200.0, sampling_rate=16000)),
        ("40 linear triangles in 300-400 Hz @8k", shipped,
         lambda: filters.TriangularOverlappingFilterBank(scales.LinearScaling(0.0), num_filts=40, low_hz=300.0, high_hz=400.0, sampling_rate=8000)),
        ("40 mel triangles @16k, threshold 0.02", 0.02,
         lambda: filters.TriangularOverlappingFilterBank("mel", num_filts=40, sampling_rate=16000)),
        ("40 mel triangles @16k, threshold 0.05", 0.05,
         lambda: filters.TriangularOverlappingFilterBank("mel", num_filts=40, sampling_rate=16000)),
        ("30 bark triangles in 50-600 Hz @8k, threshold 0.01", 0.01,
         lambda: filters.TriangularOverlappingFilterBank("bark", num_filts=30, low_hz=50.0, high_hz=600.0, sampling_rate=8000)),
    ]
    try:
        for label, thr, mkb in plans:
            config.EFFECTIVE_SUPPORT_THRESHOLD = thr
            for pad in (True, False):
                try:
                    bank = mkb()
                    c = compute.STFTFrameComputer(bank, frame_shift_ms=10, pad_to_nearest_power_of_two=pad, use_log=True, use_power=True)
                except ValueError:
                    continue
                Lv = c.frame_length
                D = documented_dft_size(Lv, pad)
                rate = bank.sampling_rate
                desc = dict(bank=label, EFFECTIVE_SUPPORT_THRESHOLD=thr, default_frame_length=Lv, dft_size=D, pad_to_nearest_power_of_two=pad)
                ctx.count("narrow-bank-default-length")
                ctx.case(desc, nontrivial=True)
                dead = []
                for i in range(bank.num_filts):
                    st, tr = bank.get_truncated_response(i, D)
                    if not (len(tr) >= 1 and np.any(np.abs(tr) > 0)):
                        dead.append(i)
                if dead:
                    bad.append(dict(desc, what="default frame length leaves filters %s without a non-zero DFT bin" % dead[:8], n_dead=len(dead)))
                    continue
                # tones at a few centres: the matching coefficient is well above the floor
                t = np.arange(4 * Lv) / float(rate)
                for i in sorted({0, bank.num_filts // 2, bank.num_filts - 1}):
                    f0 = float(bank.centers_hz[i])
                    got = c.compute_full(1000.0 * np.cos(2 * np.pi * f0 * t))
                    if got.shape[0] and not np.all(got[1:-1, i] > np.log(config.LOG_FLOOR_VALUE) + 1.0):
                        bad.append(dict(desc, what="a tone at the centre of filter %d (%.3f Hz) leaves its coefficient at the log floor" % (i, f0)))
                        break
    finally:
        config.EFFECTIVE_SUPPORT_THRESHOLD = shipped
    return bad


def retuned_floor(ctx):
    """LOG_FLOOR_VALUE is a documented run-time setting: the log floor of the property is the value IN FORCE when the
    features are computed.  Re-assign it after the package was imported (before or after the computer is built), use_log
    computers, signals made of loud / quiet / faint / silent stretches so that coefficients fall on both sides of the
    shipped and of the new floor; the oracle reads the floor in force."""
    C.ensure_impl_path()
    from pydrobert.speech import compute, config, filters

    rng = ctx.rng
    nprng = np.random.RandomState(ctx.seed + 6)
    bad = []
    shipped = config.LOG_FLOOR_VALUE
    try:
        for rep in range(ctx.scale(40, 300)):
            floor = rng.choice([1e-2, 1e-12, 1e-2, 1e-12, 1.0, 1e-8, 3e-4, shipped])
            when = rng.choice(["before_construction", "after_construction"])
            rate = rng.choice([8000, 16000])
            config.LOG_FLOOR_VALUE = shipped
            name, bank = small_bank(rng, filters, rate)
            kw = dict(frame_length_ms=rng.choice([4.0, 6.3, 8.0, 16.0]), frame_shift_ms=rng.choice([2.0, 2.5, 4.0]),
                      frame_style=rng.choice(["causal", "centered"]), include_energy=rng.random() < 0.5,
                      pad_to_nearest_power_of_two=rng.random() < 0.5, use_log=True, use_power=rng.random() < 0.5,
                      window_function=rng.choice([None, "hamming", "hann"]))
            if when == "before_construction":
                config.LOG_FLOOR_VALUE = floor
            try:
                c = compute.STFTFrameComputer(bank, **kw)
            except ValueError:
                continue
            config.LOG_FLOOR_VALUE = floor
            Lv, Sv = c.frame_length, c.frame_shift
            if not (0 < Sv <= Lv):
                continue
            D = documented_dft_size(Lv, kw["pad_to_nearest_power_of_two"])
            # stretches of 2-3 frames each: loud, quiet, faint, fainter, digital silence (in random order)
            levels = [1.0, 1e-1, 1e-2, 1e-3, 1e-4, 1e-6, 0.0, 0.0]
            rng.shuffle(levels)
            levels = levels[:rng.randint(3, 6)]
            x = np.concatenate([nprng.randn(rng.randint(2 * Lv, 3 * Lv)) * lv for lv in levels])
            got = c.compute_full(x)
            ref = oracle_features(c, x, config, D)
            desc = dict(bank=name, rate=rate, frame_length=Lv, frame_shift=Sv, dft_size=D, N=len(x),
                        LOG_FLOOR_VALUE=floor, shipped_LOG_FLOOR_VALUE=shipped, setting_reassigned=when,
                        signal="white noise stretches (seed %d + 6) scaled by %s" % (ctx.seed, levels),
                        **{k: str(v) for k, v in kw.items()})
            ctx.case(desc, nontrivial=got.shape[0] > 0 and floor != shipped)
            ctx.count("floor:LOG_FLOOR_VALUE=%g" % floor)
            ctx.count("floor:" + when)
            if ref.size:
                un = np.exp(ref)  # max(sum, floor in force)
                lo, hi = min(shipped, floor), max(shipped, floor)
                ctx.count("floor:coeff_floored", int(np.sum(un <= floor * (1 + 1e-12))))
                ctx.count("floor:coeff_between_shipped_and_new_floor", int(np.sum((un > lo * (1 + 1e-12)) & (un < hi))))
                ctx.count("floor:coeff_above_both_floors", int(np.sum(un >= hi * (1 + 1e-12))))
            b = value_mismatch(c, got, ref, desc)
            if b is not None:
                b["what"] += " (log floor is the LOG_FLOOR_VALUE in force = %g)" % floor
                bad.append(b)
    finally:
        config.LOG_FLOOR_VALUE = shipped
    return bad


def loud_then_quiet(ctx):
    """Energy (and every other) coefficient of each frame depends on that frame alone: a long loud lead at 16-bit
    integer scale followed by a much quieter, non-zero tail.  The tail frames' energy is the mean square of the frame."""
    C.ensure_impl_path()
    from pydrobert.speech import compute, config, filters

    rng = ctx.rng
    nprng = np.random.RandomState(ctx.seed + 7)
    bad = []
    for rep in range(ctx.scale(16, 120)):
        rate = rng.choice([8000, 16000])
        name, bank = small_bank(rng, filters, rate)
        kw = dict(frame_length_ms=rng.choice([8.0, 16.0, 25.0]), frame_shift_ms=rng.choice([4.0, 10.0]),
                  frame_style=rng.choice(["causal", "centered"]), include_energy=True,
                  pad_to_nearest_power_of_two=rng.random() < 0.5, use_log=rng.random() < 0.5, use_power=rng.random() < 0.5,
                  window_function=rng.choice([None, "hamming"]))
        try:
            c = compute.STFTFrameComputer(bank, **kw)
        except ValueError:
            continue
        Lv, Sv = c.frame_length, c.frame_shift
        if not (0 < Sv <= Lv):
            continue
        D = documented_dft_size(Lv, kw["pad_to_nearest_power_of_two"])
        n_lead = rng.randint(3000, ctx.scale(8000, 40000))
        n_tail = rng.randint(2 * Lv, 6 * Lv)
        a_lead = rng.choice([1e4, 2e4, 3e4])
        a_tail = rng.choice([1e-3, 1e-2, 1e-1, 1.0])
        integer_lead = rng.random() < 0.5
        lead = nprng.randn(n_lead) * a_lead
        if integer_lead:
            lead = np.clip(np.rint(lead), -32768, 32767)
        x = np.concatenate([lead, nprng.randn(n_tail) * a_tail])
        got = c.compute_full(x)
        ref = oracle_features(c, x, config, D)
        desc = dict(bank=name, rate=rate, frame_length=Lv, frame_shift=Sv, dft_size=D, N=len(x),
                    signal="white noise (seed %d + 7): %d samples of amplitude %g%s, then %d samples of amplitude %g"
                           % (ctx.seed, n_lead, a_lead, " rounded to 16-bit integers" if integer_lead else "", n_tail, a_tail),
                    **{k: str(v) for k, v in kw.items()})
        ctx.case(desc, nontrivial=got.shape[0] > 0)
        ctx.count("lead:tail_amplitude=%g" % a_tail)
        ctx.count("lead:use_log=%s,use_power=%s" % (kw["use_log"], kw["use_power"]))
        b = value_mismatch(c, got, ref, desc)
        if b is not None:
            if b["what"] == "value":
                b["what"] = "value of %s in frame %d (loud lead then quiet tail; the quiet tail begins at sample %d)" % (
                    "the energy coefficient" if b["coeff"] == 0 else "coefficient %d" % b["coeff"], b["frame"], n_lead)
            bad.append(b)
    return bad


def run(ctx):
    C.ensure_impl_path()
    stft.regenerate(ctx)
    stft.regenerate_scalar(ctx)
    pr = C.proof_step(ctx)
    rng = ctx.rng
    # (i) walk probes
    wcases, labels = [], []
    maxD = ctx.scale(14, 34)
    for D in range(1, maxD + 1):
        for start in range(0, D):
            lens = sorted(set([1, D // 2, D // 2 + 1, D - 1, D, D + 1, rng.randint(1, D + 2)]) - {0})
            if ctx.thorough:
                lens = list(range(1, D + 3))
            for ln in lens:
                for impl, fn in (("numpy", probe_numpy), ("torch", probe_torch)):
                    if impl == "torch" and not ctx.thorough and (D + start + ln) % 3:
                        continue
                    obs = fn(D, start, ln)
                    ctx.count("walk:" + impl)
                    ctx.count("walk:D%%4=%d" % (D % 4))
                    ctx.case(dict(kind="walk", impl=impl, D=D, start=start, len=ln, half_bins=obs), nontrivial=start + ln > D // 2 + 1)
                    if obs is None:
                        ctx.fail("walk probe did not yield integral bins", dict(impl=impl, D=D, start=start, len=ln), kind="impl")
                        continue
                    # the property itself: tap j must meet full bin (start + j) mod D
                    exp = [((start + j) % D) for j in range(ln)]
                    exph = [b if b <= D // 2 else D - b for b in exp]
                    if obs != exph:
                        ctx.fail("filter tap meets the wrong DFT bin (%s _compute_frame walk)" % impl,
                                 dict(impl=impl, dft_size=D, start_bin=start, trunc_len=ln, half_bins_met=obs, half_bins_expected=exph), kind="impl")
                    wcases.append((D, start, ln, obs))
                    labels.append(impl)
    ok, out = C.coq_make(["Stft/Exec.v"])
    if not ok:
        ctx.fail("model coq/Stft no longer compiles", dict(correspondence="coq/Stft/Exec.v", log_tail=out[-1500:]), kind="tie", no_input=True)
    else:
        files = []
        shard = 400
        for i in range(0, len(wcases), shard):
            body = "Definition cases : list walk_case := [\n%s\n].\nEval vm_compute in (walk_bad 0 cases).\n" % ";\n".join(
                "(%d, %d, %d, %s)" % (d, s, l, C.zlist(o)) for (d, s, l, o) in wcases[i:i + shard])
            files.append(("walk_%d" % (i // shard), body))
        res = C.coq_eval_many(ctx, files, stft.REQ)
        wb = []
        for n, (ans, log) in enumerate(res):
            if ans is None or len(ans) != 1:
                ctx.fail("walk model evaluation failed", dict(correspondence=files[n][0], log_tail=(log or "")[-1200:]), kind="tie", no_input=True)
                break
            wb += [n * shard + int(j) for j in C.parse_coq(ans[0])]
        else:
            ctx.cov["traces_validated_against_impl"] += len(wcases)
        if wb:
            k = wb[0]
            ctx.fail("walk model and implementation disagree on %d probes" % len(wb),
                     dict(correspondence="coq/Stft/Walk.v vs %s walk" % labels[k], D=wcases[k][0], start=wcases[k][1], len=wcases[k][2],
                          implementation_half_bins=wcases[k][3]), kind="correspondence",
                     no_input=not any(f["kind"] == "impl" for f in ctx.failures))
    # (ii) frames of compute_full
    fcases = []
    for _ in range(ctx.scale(400, 3000)):
        cfg = stft.rand_cfg(rng, maxL=24)
        N = rng.choice(stft.interesting_lengths(cfg) + [rng.randint(0, 5 * cfg[0])] * 3)
        ops = [("full", list(range(N)))]
        outs, sts, shapes_ok = stft.run_history(cfg, ops)
        Lv, Sv = cfg[0], cfg[1]
        exp_n = 0 if N < Lv // 2 + 1 else (N + Sv // 2) // Sv
        ctx.case(dict(kind="frames", L=Lv, S=Sv, centered=cfg[2], kaldi_shift=cfg[3], N=N, frames=len(outs[0])), nontrivial=exp_n > 0)
        ctx.count("frames:%s" % ("centered+kaldi" if cfg[3] and cfg[2] else "centered" if cfg[2] else "causal"))
        if len(outs[0]) != exp_n or not shapes_ok:
            ctx.fail("compute_full returns the wrong number of frames", dict(L=Lv, S=Sv, centered=cfg[2], kaldi_shift=cfg[3], N=N,
                                                                          frames=len(outs[0]), expected=exp_n), kind="impl")
        else:
            # documented range with symmetric reflection, element by element
            pl = 0 if not cfg[2] else (Lv // 2 - Sv // 2 if cfg[3] else (Lv + 1) // 2 - 1)
            for k, fr in enumerate(outs[0]):
                exp = []
                for j in range(Lv):
                    m = (k * Sv + j - pl) % (2 * N)
                    exp.append(m if m < N else 2 * N - 1 - m)
                if fr != exp:
                    ctx.fail("frame does not cover the documented sample range", dict(L=Lv, S=Sv, centered=cfg[2], kaldi_shift=cfg[3], N=N,
                                                                                      frame=k, got=fr, expected=exp), kind="impl")
                    break
        fcases.append((cfg, ops, outs, sts))
    fb = stft.compare_with_model(ctx, fcases, "c02f")
    if fb:
        k = fb[0]
        ctx.fail("full_frames model and compute_full disagree on %d signals" % len(fb),
                 dict(correspondence="coq/Stft/Model.v full_frames vs compute_full", cfg=fcases[k][0], N=len(fcases[k][1][0][1]),
                      impl=str(fcases[k][2])[:1500], model=stft.model_output(ctx, fcases[k])[:1500]), kind="correspondence",
                 no_input=not any(f["kind"] == "impl" for f in ctx.failures))
    elif fb is not None:
        ctx.cov["traces_validated_against_impl"] += len(fcases)
    # (iii) end-to-end oracle
    for b in end_to_end(ctx)[:6]:
        ctx.fail("compute_full differs from the documented definition: %s" % b.get("what"), b, kind="impl")
    # (iv) the same oracle with the package setting LOG_FLOOR_VALUE re-assigned at run time
    for b in retuned_floor(ctx)[:4]:
        ctx.fail("compute_full differs from the documented definition after config.LOG_FLOOR_VALUE was re-assigned: %s" % b.get("what"),
                 b, kind="impl")
    for b in narrow_bank_default_length(ctx)[:4]:
        ctx.fail("default frame length: %s" % b.get("what"), b, kind="impl")
    # (v) the same oracle on a long loud lead followed by a quiet tail
    # (v) the same oracle on a long loud lead followed by a quiet tail
    for b in loud_then_quiet(ctx)[:4]:
        ctx.fail("compute_full differs from the documented definition: %s" % b.get("what"), b, kind="impl")
    ctx.cov["rule"] = (
        "walk probes: every DFT size D<=%d, every start bin, lengths {1, D/2, D/2+1, D-1, D, D+1, random} (all lengths in thorough), "
        "numpy and torch, one-hot filters on a frame with half spectrum 1,2,3,..; frames: random (L,S,style,N) index-coded; "
        "end to end: random real/analytic/complex banks x rates x frame lengths (incl. default) x shifts x styles x windows x flags "
        "against an independent full-spectrum oracle (1e-8); the same oracle with config.LOG_FLOOR_VALUE re-assigned after import "
        "(1e-12 .. 1, before / after construction, use_log computers, loud / quiet / faint / silent stretches: coefficients on both "
        "sides of the shipped and the new floor) and on 16-bit-scale loud leads of thousands of samples followed by a quiet non-zero "
        "tail (include_energy). non-trivial: walk reaches the mirrored half / at least one frame."
    ) % maxD
    ctx.cov["trusted_base"] += [
        "np.fft.rfft / torch.fft.rfft compute the DFT of a real frame, hence the Hermitian symmetry assumed by stft_coeff_full_spectrum",
        "coq/Stft/Walk.v and Model.v are hand-written transcriptions, tied by exact probes",
        "real banks: the factor 2 (sum over both halves) is covered by the end-to-end oracle, not by a theorem",
    ]
    ctx.assumptions += ["0 < frame_shift <= frame_length", "energy / log-floor clauses are checked by the oracle only"]
    return C.finish(ctx, "proof")
