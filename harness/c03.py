"""C03 - short-integration coefficients equal their documented definition, and
the short-integration half of C01 (chunked streaming = whole-signal computation).

Proof: coq/C03 (Model.v = statement-by-statement model of
ShortIntegrationFrameComputer; Props.v = compute_full / any stream of chunks /
frame_by_frame_calculation equal the documented definition [si_spec]).

Tie (hand-written model + correspondence, re-run on every check):
 * integer-coded runs: computers are built by the real constructor on a stub
   bank with integer impulse responses (real -> rfft path, complex -> fft path)
   and a stub integer window; integer signals; use_log=False.  Geometry
   (max_support, translation, dft_size, y-blocks), the prepared filters
   (inverse transform of ``_filts``), and the outcome of every operation
   (compute_full, arbitrary chunk streams + finalize, frame_by_frame_calculation,
   several utterances on one computer, wrong dtypes) are compared *exactly*
   with the model evaluated by vm_compute inside Coq (Z / Gaussian integers),
   and with the documented definition ``si_spec`` evaluated in Coq.
 * real banks (float): compute_full against an independent NumPy evaluation of
   the definition (np.convolve), chunked against full, dtype rule (also for
   utterances of different floating dtypes following each other on ONE computer).
"""

import itertools
import math
import os

from . import common as C

PID = "C03"
DTYPES = ["float16", "float32", "float64", "longdouble", "int32", "bool", "complex64"]
REQ = (
    "From Coq Require Import ZArith List Bool.\n"
    "From Verif Require Import lib.C03_ListZ C03.Model C03.Exec.\n"
    "Import ListNotations.\nOpen Scope Z_scope.\n"
)

_STUBS = {}


def stubs():
    """Stub bank / window classes (created once, after the implementation is importable)."""
    if _STUBS:
        return _STUBS["bank"], _STUBS["window"]
    import numpy as np
    from pydrobert.speech.filters import LinearFilterBank, WindowFunction

    class VerifStubBank(LinearFilterBank):
        """Integer impulse responses with declared supports (wrapping into the buffer)."""

        aliases = set()

        def __init__(self, supports, tables, real, rate, width_hz):
            self._sup = tuple((int(a), int(b)) for a, b in supports)
            self._tables = tables  # per filter: dict n -> int or (re, im)
            self._real = real
            self._rate = rate
            self._width_hz = width_hz
            self.calls = []

        is_real = property(lambda self: self._real)
        is_analytic = property(lambda self: False)
        is_zero_phase = property(lambda self: False)
        num_filts = property(lambda self: len(self._sup))
        sampling_rate = property(lambda self: self._rate)
        supports = property(lambda self: self._sup)
        supports_hz = property(lambda self: tuple((0.0, self._width_hz) for _ in self._sup))

        def get_impulse_response(self, filt_idx, width):
            res = np.zeros(width, dtype=np.float64 if self._real else np.complex128)
            for n, v in self._tables[filt_idx].items():
                res[n % width] += v if self._real else complex(v[0], v[1])
            self.calls.append((filt_idx, width, res.copy()))
            return res

        def get_frequency_response(self, filt_idx, width, half=False):
            raise NotImplementedError

        def get_truncated_response(self, filt_idx, width):
            raise NotImplementedError

    class VerifStubWindow(WindowFunction):
        aliases = set()

        def __init__(self, weights):
            self._w = list(weights)

        def get_impulse_response(self, width):
            assert width == len(self._w), (width, len(self._w))
            return np.array(self._w, dtype=np.float64)

    _STUBS["bank"], _STUBS["window"] = VerifStubBank, VerifStubWindow
    return VerifStubBank, VerifStubWindow


# --------------------------------------------------------------------------
# case generation (integer-coded)


def precondition(centered, S, M, tr):
    """The hypothesis of si_full_eq_spec (coq/C03/Proofs.v, [pre])."""
    if centered:
        return M >= 1 and tr <= M - 1 and S - S // 2 <= M
    return M >= 1 and S + tr + 1 <= M


def geometry(centered, sup, S, dmin, pad):
    if centered:
        M = max(r - l for l, r in sup)
        tr = M // 2
    else:
        tr = max([0] + [-l for l, r in sup])
        M = max([0] + [r for l, r in sup]) + tr
    d = max(M + S - 1, dmin)
    if pad:
        d = 1 << max(0, (d - 1).bit_length())
    return M, tr, d


def gen_config(rng, big=False, want_pre=True):
    centered = rng.random() < 0.5
    real = rng.random() < 0.6
    S = rng.choice([1, 2, 2, 3, 4, 4, 5, 6, 8] + ([12, 16] if big else []))
    nf = rng.choice([1, 1, 2, 3])
    for _ in range(200):
        sup = []
        for _i in range(nf):
            if centered:
                l = rng.randint(-8, 2)
                r = l + rng.randint(1, 14 if not big else 30)
            else:
                l = rng.randint(-5, 3)
                r = rng.randint(max(l + 1, -1), 14 if not big else 30)
            sup.append((l, r))
        M, tr, _ = geometry(centered, sup, S, 1, False)
        if M < 1:
            continue
        if precondition(centered, S, M, tr) == want_pre and tr < M:
            # (tr >= M, possible only outside the precondition, puts the energy impulse beyond
            # the clamp length: _filts[0] is then not an M-tap filter and the model does not apply)
            break
    else:
        return None
    u = rng.random()
    if u < 0.35:
        dmin = 1
    elif u < 0.75:
        dmin = M + S - 1 + rng.randint(0, 9)
    else:
        dmin = rng.randint(M + S - 1, 3 * (M + S) + 8)
    pad = rng.random() < 0.4
    energy = rng.random() < 0.4
    power = True if not real else rng.random() < 0.6
    return dict(centered=centered, real=real, S=S, sup=sup, dmin=dmin, pad=pad, energy=energy, power=power)


def gen_tables(rng, cfg, amp):
    """Integer taps on (and slightly beyond) each declared support."""
    tabs = []
    for l, r in cfg["sup"]:
        t = {}
        for n in range(l - 2, r + 2):
            if rng.random() < 0.85:
                v = rng.randint(-amp, amp)
                t[n] = v if cfg["real"] else (v, rng.randint(-amp, amp))
        tabs.append(t)
    return tabs


def gen_lengths(rng, S, M, D, k):
    V = D - M + 1
    L = M + S - 1
    pool = [0, 0, 1, S // 2, S // 2 + 1, max(0, S // 2 - 1), S, S + S // 2, 2 * S, 2 * S + S // 2,
            3 * S + S // 2, L - 1, L, L + 1, V - 1, V, V + 1, 2 * V, 2 * V + 1, D, D + 1, 3 * V + S // 2]
    out = []
    for _ in range(k):
        u = rng.random()
        if u < 0.55:
            n = rng.choice(pool)
        elif u < 0.8:
            q = rng.randint(0, 6)
            n = q * S + S // 2 + rng.choice([-1, 0, 0, 1])
        else:
            n = rng.randint(0, 3 * D + 5)
        out.append(max(0, n))
    return out


def gen_chunking(rng, n, S, V):
    """A composition of n (possibly with empty parts)."""
    u = rng.random()
    if u < 0.1:
        return [n]
    if u < 0.2:
        return [1] * n
    parts, left = [], n
    style = rng.random()
    while left > 0:
        if rng.random() < 0.2:
            parts.append(0)
            continue
        if style < 0.3:
            m = rng.randint(1, 3)
        elif style < 0.6:
            m = rng.choice([S, V, V + 1, V - 1, 1, 2 * V, S // 2 + 1])
        else:
            m = rng.randint(1, max(1, left))
        m = max(1, min(m, left))
        parts.append(m)
        left -= m
    if rng.random() < 0.3:
        parts.append(0)
    if rng.random() < 0.15:
        parts.insert(0, 0)
    return parts


def out_bound(cfg, M, amp_x, amp_t, amp_w):
    y = M * amp_t * amp_x * (1 if cfg["real"] else 2)
    y = max(y, amp_x)
    v = y * y if cfg["power"] else y
    if not cfg["real"]:
        v = 2 * y * y
    return 2 * cfg["S"] * amp_w * v


def gen_case(rng, big=False, want_pre=True):
    cfg = gen_config(rng, big, want_pre)
    if cfg is None:
        return None
    M, tr, D = geometry(cfg["centered"], cfg["sup"], cfg["S"], cfg["dmin"], cfg["pad"])
    dti = rng.choice([2, 2, 2, 2, 1, 1, 0, 3])
    amp_x, amp_t, amp_w = 9, 4, 5
    if dti == 0:
        amp_x, amp_t, amp_w = 1, 1, 1
    elif dti == 1:
        amp_x, amp_t, amp_w = 3, 2, 2
    cap = {0: 2048, 1: 1 << 24}.get(dti, 1 << 50)
    if out_bound(cfg, M, amp_x, amp_t, amp_w) > cap:
        dti = 2
        amp_x, amp_t, amp_w = 9, 4, 5
    cfg["tables"] = gen_tables(rng, cfg, amp_t)
    cfg["window"] = [rng.randint(-1 if dti != 0 else 0, amp_w) for _ in range(2 * cfg["S"])]
    ops = []
    nutt = rng.choice([1, 2, 2, 3])
    lens = gen_lengths(rng, cfg["S"], M, D, nutt)
    V = D - M + 1
    for n in lens:
        xs = [rng.randint(-amp_x, amp_x) for _ in range(n)]
        u = rng.random()
        if u < 0.3:
            ops.append(dict(op="full", dt=dti, xs=xs))
        elif u < 0.45:
            ops.append(dict(op="fbf", dt=dti, xs=xs, cs=rng.choice([1, 2, cfg["S"], V, V + 1, D, 2 * D + 1, 1024])))
        else:
            parts = gen_chunking(rng, n, cfg["S"], V)
            chunks, pos = [], 0
            for m in parts:
                chunks.append([dti, xs[pos:pos + m]])
                pos += m
            ops.append(dict(op="stream", chunks=chunks, xs=xs, dt=dti))
    # occasionally end with an operation that must be rejected
    u = rng.random()
    if u < 0.08:
        ops.append(dict(op="full", dt=rng.choice([4, 5, 6]), xs=[1, 0, 1]))
    elif u < 0.14 and cfg["S"] > 0:
        other = rng.choice([d for d in (0, 1, 2, 3) if d != dti])
        ops.append(dict(op="stream", dt=dti, xs=[1, 1, 0, 1],
                        chunks=[[dti, [1, 1]], [other, [0, 1]]]))
    cfg["ops"] = ops
    cfg["pre"] = want_pre
    return cfg


# --------------------------------------------------------------------------
# implementation side


def np_dtype(np, code):
    return [np.float16, np.float32, np.float64, np.longdouble, np.int32, np.bool_, np.complex64][code]


def dtype_code(np, dt):
    for i in range(7):
        if np.dtype(dt) == np.dtype(np_dtype(np, i)):
            return i
    return 99


def build_computer(cfg, use_log=False):
    import numpy as np
    import pydrobert.speech.compute as compute

    Bank, Window = stubs()
    rate = 1000.0 * cfg["dmin"]  # so that ceil(2 * rate / width_hz) == dmin exactly
    bank = Bank(cfg["sup"], cfg["tables"], cfg["real"], rate, 2000.0)
    # frame_shift_ms such that int(0.001 * ms * rate) == S
    ms = (cfg["S"] + 0.5) / (0.001 * rate)
    comp = compute.ShortIntegrationFrameComputer(
        bank,
        frame_shift_ms=ms,
        frame_style="centered" if cfg["centered"] else "causal",
        include_energy=cfg["energy"],
        pad_to_nearest_power_of_two=cfg["pad"],
        window_function=Window(cfg["window"]),
        use_power=cfg["power"],
        use_log=use_log,
    )
    return comp, bank


class NotExact(Exception):
    pass


def int_rows(np, arr, what):
    a = np.asarray(arr, dtype=np.float64)
    if a.size and not np.all(np.isfinite(a)):
        raise NotExact("non-finite value in %s" % what)
    r = np.rint(a)
    if a.size and float(np.max(np.abs(a - r))) > 1e-6:
        raise NotExact("integer-coded run produced a non-integer in %s: max distance %g"
                       % (what, float(np.max(np.abs(a - r)))))
    return [[int(v) for v in row] for row in r]


def exc_code(e):
    if isinstance(e, ValueError):
        return 1
    if isinstance(e, AssertionError):
        return 2
    if isinstance(e, IndexError):
        return 3
    return 9


def run_ops_impl(np, comp, ops):
    """-> list of outcomes [err, dtype code, rows, message, streaming-nontrivial];
    stops after the first error."""
    import pydrobert.speech.compute as compute

    outs = []
    for o in ops:
        try:
            nt = False
            if o["op"] == "full":
                res = comp.compute_full(np.array(o["xs"], dtype=np_dtype(np, o["dt"])))
                nt = len(res) >= 2
            elif o["op"] == "fbf":
                res = compute.frame_by_frame_calculation(
                    comp, np.array(o["xs"], dtype=np_dtype(np, o["dt"])), o["cs"])
                nt = len(res) >= 2 and len(o["xs"]) > o["cs"]
            else:
                parts = []
                for d, ch in o["chunks"]:
                    parts.append(comp.compute_chunk(np.array(ch, dtype=np_dtype(np, d))))
                parts.append(comp.finalize())
                # frames from a non-final call AND from finalize
                nt = any(len(p_) for p_ in parts[:-1]) and len(parts[-1]) > 0
                res = np.concatenate(parts)
            if res.ndim != 2 or res.shape[1] != comp.num_coeffs:
                raise RuntimeError("bad result shape %r" % (res.shape,))
            outs.append([0, dtype_code(np, res.dtype), int_rows(np, res, o["op"]), "", bool(nt)])
        except NotExact:
            raise
        except Exception as e:  # noqa - any exception type is an observable outcome
            outs.append([exc_code(e), 0, [], "%s: %s" % (type(e).__name__, e), False])
            break
    return outs


def run_impl(np, cfg):
    comp, bank = build_computer(cfg)
    irs = {}
    for idx, width, arr in bank.calls:
        irs[idx] = arr
    width = max([len(a) for a in irs.values()] + [1])
    S_impl = int(comp.frame_shift)
    info = dict(S=S_impl, frame_length=int(comp.frame_length), num_coeffs=int(comp.num_coeffs), irs=irs,
                width=width, priv=None)
    # private attributes: diagnostic only (reported when an observable comparison fails)
    try:
        M, D = int(comp._max_support), int(comp._dft_size)
        taps = []
        for F in comp._filts:
            t = np.fft.irfft(F, n=D) if cfg["real"] else np.fft.ifft(F)
            if cfg["real"]:
                taps.append([int(v) for v in np.rint(t[:M])])
            else:
                taps.append([(int(a), int(b)) for a, b in zip(np.rint(t[:M].real), np.rint(t[:M].imag))])
        info["priv"] = dict(geom=[M, int(comp._translation), D, int(comp._y_buf.shape[0])], taps=taps)
    except Exception:  # noqa
        pass
    outs = run_ops_impl(np, comp, cfg["ops"])
    return info, outs


# --------------------------------------------------------------------------
# Coq side


def kval(real, v):
    if real:
        return C.zlist(int(v))
    if isinstance(v, (tuple, list)):
        return "(%s, %s)" % (C.zlist(int(v[0])), C.zlist(int(v[1])))
    return "(%s, 0)" % C.zlist(int(v))


def klist(real, xs):
    return "[" + "; ".join(kval(real, v) for v in xs) + "]"


def coq_op(real, o):
    if o["op"] == "full":
        return "OpFull %d %s" % (o["dt"], klist(real, o["xs"]))
    if o["op"] == "fbf":
        return "OpFbf %d %s %d" % (o["dt"], klist(real, o["xs"]), o["cs"])
    return "OpStream [" + "; ".join("(%d, %s)" % (d, klist(real, ch)) for d, ch in o["chunks"]) + "]"


def coq_case(i, cfg, info, outs):
    """Definitions c_i, ok_i for one case; ok_i = [public shape; outcomes; si_spec]."""
    real = cfg["real"]
    n = len(cfg["sup"])
    irs = []
    for k in range(n):
        arr = info["irs"].get(k)
        if arr is None:
            irs.append([0] * info["width"])
        elif real:
            irs.append([int(round(float(v))) for v in arr])
        else:
            irs.append([(int(round(v.real)), int(round(v.imag))) for v in arr])
    mk = "cfgZ" if real else "cfgG"
    s = "Definition c_%d := %s %s %d %s %d %s %s [%s] %s.\n" % (
        i, mk, C.zlist(cfg["centered"]), info["S"], C.zlist([tuple(x) for x in cfg["sup"]]), cfg["dmin"],
        C.zlist(cfg["pad"]), C.zlist(cfg["energy"]), "; ".join(klist(real, ir) for ir in irs),
        klist(real, cfg["window"]))
    K = "Z" if real else "G"
    pub_ok = "(cM %s c_%d + cS %s c_%d - 1 =? %d) && (zlen (cTaps %s c_%d) =? %d)" % (
        K, i, K, i, info["frame_length"], K, i, info["num_coeffs"])
    nops = len(outs)
    ops = "[" + "; ".join(coq_op(real, o) for o in cfg["ops"][:nops]) + "]"
    exp = "[" + "; ".join("(%d, %d, %s)" % (o[0], o[1], C.zlist(o[2])) for o in outs) + "]"
    runner = ("run_opsZ %s" % C.zlist(cfg["power"])) if real else "run_opsG"
    outs_ok = "list_eqb outcome_eqb (%s c_%d %s) %s" % (runner, i, ops, exp)
    # the documented definition against every successful result
    spec_terms = []
    if cfg["pre"]:
        specf = ("specZ %s" % C.zlist(cfg["power"])) if real else "specG"
        for o, r in zip(cfg["ops"], outs):
            if r[0] == 0:
                spec_terms.append("rows_eqb (%s c_%d %s) %s" % (specf, i, klist(real, o["xs"]), C.zlist(r[2])))
    spec_ok = " && ".join(spec_terms) if spec_terms else "true"
    s += "Definition ok_%d := [%s; %s; %s].\n" % (i, pub_ok, outs_ok, spec_ok)
    return s


def coq_debug(i, cfg, info, outs):
    real = cfg["real"]
    K = "Z" if real else "G"
    nops = len(outs)
    ops = "[" + "; ".join(coq_op(real, o) for o in cfg["ops"][:nops]) + "]"
    runner = ("run_opsZ %s" % C.zlist(cfg["power"])) if real else "run_opsG"
    return ("Eval vm_compute in (geometry %s c_%d).\nEval vm_compute in (cTaps %s c_%d).\n"
            "Eval vm_compute in (%s c_%d %s).\n" % (K, i, K, i, runner, i, ops))


def cfg_to_json(cfg):
    d = dict(cfg)
    d["tables"] = [{str(n): v for n, v in t.items()} for t in cfg["tables"]]
    return d


def cfg_from_json(d):
    cfg = dict(d)
    cfg["sup"] = [tuple(x) for x in d["sup"]]
    cfg["tables"] = [{int(n): (v if isinstance(v, int) else tuple(v)) for n, v in t.items()} for t in d["tables"]]
    return cfg


def compare_cases(ctx, cases, label):
    """Evaluate the model on the cases inside Coq; -> indices of disagreeing cases."""
    shard = 40
    files = []
    for b in range(0, len(cases), shard):
        body = ""
        for j, (cfg, info, outs) in enumerate(cases[b:b + shard]):
            body += coq_case(b + j, cfg, info, outs)
        body += "Eval vm_compute in (mismatches (forallb (fun b => b)) [%s]).\n" % "; ".join(
            "ok_%d" % (b + j) for j in range(len(cases[b:b + shard])))
        files.append(("%s_cases_%d" % (label, b), body))
    res = C.coq_eval_many(ctx, files, REQ)
    bad = []
    for (name, body), (ans, log), b in zip(files, res, range(0, len(cases), shard)):
        if ans is None or len(ans) != 1:
            ctx.fail("correspondence file %s did not compile" % name,
                     dict(correspondence="coq/C03 model evaluation", log_tail=(log or "")[-1500:]),
                     kind="tie", no_input=True)
            continue
        idx = C.parse_coq(ans[0])
        ctx.cov["traces_validated_against_impl"] += len(cases[b:b + shard]) - len(idx)
        for k in idx:
            bad.append(b + k)
    return bad


def explain_case(ctx, k, case, label):
    """Re-evaluate one disagreeing case, printing what the model computes."""
    cfg, info, outs = case
    body = coq_case(k, cfg, info, outs) + "Eval vm_compute in ok_%d.\n" % k + coq_debug(k, cfg, info, outs)
    ans, log = C.coq_eval(ctx, "%s_debug_%d" % (label, k), body, REQ)
    parts = ["frame_length / num_coeffs", "operation outcomes", "documented definition (si_spec)"]
    which, model = "?", None
    if ans and len(ans) >= 4:
        flags = C.parse_coq(ans[0])
        which = ", ".join(p for p, f in zip(parts, flags) if not f)
        model = dict(geometry_M_tr_D_nblk=ans[1][:300], prepared_taps=ans[2][:3000], outcomes=ans[3][:6000])
    priv = info["priv"]
    rep = dict(kind="integer", cfg=cfg_to_json(cfg), disagreement=which, model=model,
               impl=dict(frame_shift=info["S"], frame_length=info["frame_length"], num_coeffs=info["num_coeffs"],
                         private_geometry_M_tr_D_nblk=priv["geom"] if priv else None,
                         private_taps=priv["taps"] if priv else None,
                         outcomes=[o[:4] for o in outs]),
               how="harness/c03.py:build_computer(cfg) builds the computer on the stub bank/window; "
                   "run cfg['ops'] in order; ./check C03 --replay <this file> re-runs it")
    what = ("short-integration computer disagrees with the Coq model on: %s (%s, %s bank, frame_shift=%d, "
            "supports=%r)" % (which, "centered" if cfg["centered"] else "causal",
                              "real" if cfg["real"] else "complex", cfg["S"], cfg["sup"]))
    return what, rep


def integer_correspondence(ctx, ncases, label="si", big=False):
    """Build cases, run the implementation, evaluate the model in Coq, compare."""
    import numpy as np

    rng = ctx.rng
    cases = []
    while len(cases) < ncases:
        want_pre = rng.random() < 0.85
        cfg = gen_case(rng, big=big, want_pre=want_pre)
        if cfg is None:
            continue
        try:
            info, outs = run_impl(np, cfg)
        except NotExact as e:
            ctx.fail("integer-coded run of the implementation is not exact: %s" % e,
                     dict(kind="integer", cfg=cfg_to_json(cfg)), kind="impl")
            continue
        except Exception as e:  # noqa
            # the constructor itself fails (energy impulse beyond the DFT buffer): only outside
            # the precondition, where translation >= dft_size is possible
            if cfg["pre"]:
                ctx.fail("constructor raised %s inside the precondition: %s" % (type(e).__name__, e),
                         dict(kind="integer", cfg=cfg_to_json(cfg)), kind="impl")
            ctx.count("%s:constructor-error-outside-pre" % label)
            continue
        cases.append((cfg, info, outs))
        ctx.count("%s:%s:%s:%s" % (label, "centered" if cfg["centered"] else "causal",
                                   "real" if cfg["real"] else "complex", "pre" if cfg["pre"] else "outside-pre"))
        ctx.count("%s:dft:%s" % (label, "padded" if cfg["pad"] else ("odd" if info["width"] % 2 else "even")))
        for o, r in zip(cfg["ops"], outs):
            ctx.count("%s:op:%s:%s" % (label, o["op"], "ok" if r[0] == 0 else "err%d" % r[0]))
            ctx.count("%s:dtype:%s" % (label, DTYPES[o["dt"]]))
            if o["op"] == "stream":
                ctx.count("%s:chunks" % label, len(o["chunks"]))
                ctx.count("%s:empty-chunks" % label, sum(1 for _, ch in o["chunks"] if not ch))
                ctx.count("%s:one-sample-chunks" % label, sum(1 for _, ch in o["chunks"] if len(ch) == 1))
    bad = compare_cases(ctx, cases, label)
    for (cfg, info, outs) in cases:
        ctx.case(dict(kind=label, centered=cfg["centered"], real=cfg["real"], S=cfg["S"], sup=cfg["sup"],
                      dmin=cfg["dmin"], pad=cfg["pad"], energy=cfg["energy"], power=cfg["power"],
                      ops=[(o["op"], len(o["xs"]), [len(c[1]) for c in o.get("chunks", [])], o.get("cs"))
                           for o in cfg["ops"]]),
                 nontrivial=any(o[4] for o in outs))
    # outside the precondition the property promises nothing: a disagreement there is only
    # logged (the model is faithful there today, which is additional evidence, not an obligation)
    judged = [k for k in bad if cases[k][0]["pre"]]
    for k in bad:
        if not cases[k][0]["pre"]:
            ctx.count("%s:disagreement-outside-precondition(not judged)" % label)
    if len(judged) < len(bad):
        ctx.log("%d disagreement(s) with the model outside the precondition (not judged)" % (len(bad) - len(judged)))
    for k in judged[:5]:
        what, rep = explain_case(ctx, k, cases[k], label)
        ctx.fail(what, rep, kind="correspondence")
    return cases, judged


def run_si_stream_correspondence(ctx, ncases=None):
    """C01 (short-integration half): chunk streams / frame_by_frame_calculation of
    the implementation against the Coq model and against compute_full.  Called by
    harness/c01.py with its own ctx."""
    C.ensure_impl_path()
    import numpy as np

    n = ncases if ncases is not None else ctx.scale(200, 2000)
    ok, out = C.coq_make(["C03/Exec.v"])
    if not ok:
        ctx.fail("coq/C03 model no longer compiles", dict(correspondence="coq/C03/Exec.v", log_tail=out[-1500:]),
                 kind="tie", no_input=True)
        return
    integer_correspondence(ctx, n, label="sistream")
    chunk_oracle(ctx, np, ctx.scale(40, 300))


# --------------------------------------------------------------------------
# direct oracles on the implementation (float)


def reference_full(np, comp, x, cfgd):
    """The documented definition, evaluated independently with np.convolve."""
    import pydrobert.speech.config as config

    bank = comp.bank
    S = comp.frame_shift
    sups = bank.supports
    if cfgd["style"] == "causal":
        tr = max([0] + [-l for l, r in sups])
        M = max([0] + [r for l, r in sups]) + tr
    else:
        M = max(r - l for l, r in sups)
        tr = M // 2
    L = M + S - 1
    min_hz = min(r - l for l, r in bank.supports_hz)
    D = max(L, int(np.ceil(2 * bank.sampling_rate / min_hz)))
    if cfgd["pad"]:
        D = int(2 ** np.ceil(np.log2(D)))
    w = comp_window(np, cfgd, S)
    N = len(x)
    nf = (N + S // 2) // S
    hs = []
    if cfgd["energy"]:
        h = np.zeros(M)
        h[tr] = 1
        hs.append(h)
    for i in range(bank.num_filts):
        ir = bank.get_impulse_response(i, D)
        if cfgd["style"] == "centered":
            l, r = sups[i]
            ir = np.roll(ir, tr - (l + r) // 2 + 1)
        else:
            ir = np.roll(ir, tr)
        hs.append(ir[:M])
    off = tr - S if cfgd["style"] == "centered" else tr
    out = np.empty((nf, len(hs)))
    xd = np.asarray(x, dtype=np.float64)
    padl = 2 * S + M
    xp = np.concatenate([np.zeros(padl), xd, np.zeros((nf + 3) * S + M)])
    for i, h in enumerate(hs):
        y = np.convolve(xp, h)
        y = np.abs(y) ** (2 if cfgd["power"] else 1)
        for k in range(nf):
            st = padl + k * S + off
            out[k, i] = np.sum(w * y[st:st + 2 * S])
    if cfgd["log"]:
        out = np.log(np.maximum(out, config.LOG_FLOOR_VALUE))
    return out, (M, tr, D)


def comp_window(np, cfgd, S):
    from pydrobert.speech.alias import alias_factory_subclass_from_arg
    from pydrobert.speech.filters import WindowFunction, GammaWindow, HannWindow

    if cfgd["window"] is None:
        wf = GammaWindow() if cfgd["style"] == "causal" else HannWindow()
    else:
        wf = alias_factory_subclass_from_arg(WindowFunction, cfgd["window"])
    return wf.get_impulse_response(2 * S)


BANKS = [
    ("tri", dict(name="tri", scaling_function="mel", num_filts=3, sampling_rate=2000, low_hz=60, high_hz=900)),
    ("tri-analytic", dict(name="tri", scaling_function="bark", num_filts=2, sampling_rate=2000, low_hz=80,
                          high_hz=950, analytic=True)),
    ("fbank", dict(name="fbank", num_filts=3, sampling_rate=2000, low_hz=60, high_hz=1000)),
    ("gabor", dict(name="gabor", scaling_function="mel", num_filts=3, sampling_rate=2000, low_hz=60, high_hz=900)),
    ("gabor-erb", dict(name="gabor", scaling_function="bark", num_filts=2, sampling_rate=2000, low_hz=100,
                       high_hz=800, erb=True)),
    ("tonebank", dict(name="tonebank", scaling_function="mel", num_filts=3, sampling_rate=2000, low_hz=100,
                      high_hz=900)),
    ("tonebank-o2", dict(name="tonebank", scaling_function="mel", num_filts=2, sampling_rate=2000, low_hz=150,
                         high_hz=900, order=2, max_centered=True)),
]


def build_real_computer(cfgd):
    import pydrobert.speech.compute as compute

    bargs = [b for b in BANKS if b[0] == cfgd["bank"]][0][1]
    return compute.ShortIntegrationFrameComputer(
        dict(bargs), frame_shift_ms=cfgd["ms"], frame_style=cfgd["style"], include_energy=cfgd["energy"],
        pad_to_nearest_power_of_two=cfgd["pad"], window_function=cfgd["window"], use_power=cfgd["power"],
        use_log=cfgd["log"])


def make_real_computer(rng, bank_key=None):
    bk = rng.choice(BANKS)[0] if bank_key is None else bank_key
    cfgd = dict(
        bank=bk,
        style=rng.choice(["causal", "centered"]),
        ms=rng.choice([2.0, 3.0, 4.0, 5.5, 8.0, 8.5, 12.5]),
        pad=rng.random() < 0.5,
        window=rng.choice([None, "hanning", "hamming", "bartlett", "blackman", "gamma"]),
        power=rng.random() < 0.5,
        log=rng.random() < 0.5,
        energy=rng.random() < 0.5,
    )
    return build_real_computer(cfgd), cfgd


def comp_pre(comp, cfgd):
    return comp.frame_shift >= 1 and precondition(cfgd["style"] == "centered", comp.frame_shift,
                                                  comp._max_support, comp._translation)


def close(np, a, b, log):
    a = np.asarray(a, dtype=np.float64)
    b = np.asarray(b, dtype=np.float64)
    if a.shape != b.shape:
        return False, "shape %r != %r" % (a.shape, b.shape)
    if not a.size:
        return True, ""
    if log:
        ok = np.abs(a - b) <= 1e-7 + 1e-7 * np.abs(b)
    else:
        scale = max(1e-300, float(np.max(np.abs(b))))
        ok = np.abs(a - b) <= 1e-9 * scale + 1e-9 * np.abs(b)
    if np.all(ok):
        return True, ""
    k = np.argwhere(~ok)[0]
    return False, "value [%d,%d]: got %r expected %r" % (k[0], k[1], float(a[tuple(k)]), float(b[tuple(k)]))


def signal_lengths(rng, S, L, V, k):
    pool = [0, 1, S // 2, max(S // 2 - 1, 0), S // 2 + 1, S, S + S // 2, 2 * S + S // 2, 4 * S + S // 2,
            L - 1, L, L + 1, V, V + 1, 2 * V + S // 2, 3 * V]
    return [rng.choice(pool) if rng.random() < 0.7 else rng.randint(0, 3 * V) for _ in range(k)]


FLOATS = ["float16", "float32", "float64", "longdouble"]


def check_definition(np, cfgd, xs, dtname):
    """compute_full against the independent definition; -> list of failure texts."""
    comp = build_real_computer(cfgd)
    dt = np.dtype(getattr(np, dtname))
    x = np.array(xs, dtype=np.float64).astype(dt)
    S, N = comp.frame_shift, len(xs)
    try:
        got = comp.compute_full(x)
    except Exception as e:  # noqa
        return ["compute_full raised %s: %s on a %s signal of length %d inside the precondition"
                % (type(e).__name__, e, dtname, N)], False
    bad = []
    if got.dtype != dt:
        bad.append("compute_full returned dtype %s for %s input" % (got.dtype, dtname))
    ref, _ = reference_full(np, comp, np.asarray(x, dtype=np.float64), cfgd)
    if got.shape != ref.shape:
        bad.append("compute_full returned shape %r, the definition gives %r (N=%d, frame_shift=%d)"
                   % (got.shape, ref.shape, N, S))
    elif dt.itemsize >= 8:
        ok, why = close(np, got, ref, cfgd["log"])
        if not ok:
            bad.append("compute_full differs from the documented definition: %s" % why)
    else:
        tol = 2e-3 if dtname == "float32" else 0.1
        g = np.asarray(got, np.float64)
        if g.size and not np.all((np.abs(g - ref) <= tol * (1 + np.abs(ref))) | ~np.isfinite(g)):
            bad.append("compute_full (%s) differs from the documented definition beyond the output precision"
                       % dtname)
    return bad, len(got) > 0


def definition_oracle(ctx, np, nconf):
    """compute_full of real banks against the independent definition (float, 1e-9)."""
    rng = ctx.rng
    done = tries = 0
    while done < nconf and tries < 20 * nconf:
        tries += 1
        comp, cfgd = make_real_computer(rng)
        if not comp_pre(comp, cfgd):
            ctx.count("oracle:skipped-outside-precondition")
            continue
        done += 1
        S, M = comp.frame_shift, comp._max_support
        V = comp._dft_size - M + 1
        ctx.count("oracle:dft:%s" % ("padded" if cfgd["pad"] else ("odd" if comp._dft_size % 2 else "even")))
        for N in signal_lengths(rng, S, comp.frame_length, V, 3):
            dtname = rng.choice(["float64", "float64", "float64", "float32", "float16", "longdouble"])
            amp = rng.choice([1.0, 1e-3, 30.0])
            xs = [0.0] * N if rng.random() < 0.1 else [amp * rng.gauss(0, 1) for _ in range(N)]
            xs = [float(v) for v in np.array(xs, dtype=np.float64).astype(getattr(np, dtname))]
            ctx.count("oracle:%s:%s" % (cfgd["bank"], cfgd["style"]))
            ctx.count("oracle:dtype:%s" % dtname)
            bad, nt = check_definition(np, cfgd, xs, dtname)
            ctx.case(dict(kind="definition-oracle", cfg=cfgd, N=N, dtype=dtname), nontrivial=nt)
            for msg in bad[:1]:
                ctx.fail(msg, dict(kind="definition", config=cfgd, dtype=dtname, N=N, frame_shift=S,
                                   max_support=M, translation=comp._translation, dft_size=comp._dft_size,
                                   signal=xs), kind="impl")


def check_chunking(np, cfgd, xs, dtname, parts, cs):
    import pydrobert.speech.compute as compute

    comp = build_real_computer(cfgd)
    dt = np.dtype(getattr(np, dtname))
    x = np.array(xs, dtype=np.float64).astype(dt)
    N = len(xs)
    try:
        full = comp.compute_full(x)
        outs, pos = [], 0
        for m in parts:
            outs.append(comp.compute_chunk(x[pos:pos + m]))
            pos += m
        outs.append(comp.finalize())
        st = np.concatenate(outs)
        fb = compute.frame_by_frame_calculation(comp, x, cs)
    except Exception as e:  # noqa
        return ["streaming raised %s: %s inside the precondition" % (type(e).__name__, e)], False
    bad = []
    tol = 1e-9 if dt.itemsize >= 8 else 1e-3
    for name, got in (("chunks + finalize", st), ("frame_by_frame_calculation", fb)):
        if got.shape != full.shape:
            bad.append("%s gives shape %r, compute_full %r" % (name, got.shape, full.shape))
        elif got.size and not np.allclose(np.asarray(got, np.float64), np.asarray(full, np.float64),
                                          rtol=tol, atol=tol * max(1.0, float(np.max(np.abs(full))))):
            bad.append("%s differs from compute_full (max %g)" % (name, float(np.max(np.abs(
                np.asarray(got, np.float64) - np.asarray(full, np.float64))))))
        elif N > 0 and got.dtype != full.dtype:
            bad.append("%s has dtype %s, compute_full %s" % (name, got.dtype, full.dtype))
    nt = any(len(o_) for o_ in outs[:-1]) and len(outs[-1]) > 0
    return bad, nt


def chunk_oracle(ctx, np, nconf):
    """Any chunking + finalize and frame_by_frame_calculation equal compute_full (float)."""
    rng = ctx.rng
    done = tries = 0
    while done < nconf and tries < 20 * nconf:
        tries += 1
        comp, cfgd = make_real_computer(rng)
        if not comp_pre(comp, cfgd):
            continue
        done += 1
        S, M = comp.frame_shift, comp._max_support
        V = comp._dft_size - M + 1
        for N in signal_lengths(rng, S, comp.frame_length, V, 2):
            dtname = rng.choice(["float64", "float64", "float32"])
            xs = [float(v) for v in np.array([rng.gauss(0, 1) for _ in range(N)]).astype(getattr(np, dtname))]
            parts = gen_chunking(rng, N, S, V)
            cs = rng.choice([1, S, V, V + 1, 7, 1024]) if N < 400 else rng.choice([S, V, V + 1, 1024])
            ctx.count("chunk-oracle:%s:%s" % (cfgd["bank"], cfgd["style"]))
            bad, nt = check_chunking(np, cfgd, xs, dtname, parts, cs)
            ctx.case(dict(kind="chunk-oracle", cfg=cfgd, N=N, parts=parts, cs=cs), nontrivial=nt)
            for msg in bad[:1]:
                ctx.fail(msg, dict(kind="chunking", config=cfgd, dtype=dtname, N=N, chunk_lengths=parts,
                                   chunk_size=cs, frame_shift=S, max_support=M, translation=comp._translation,
                                   dft_size=comp._dft_size, signal=xs), kind="impl")


def check_dtype(np, cfgd, dtname, N, seed):
    import random

    comp = build_real_computer(cfgd)
    r = random.Random(seed)
    dt = np.dtype(getattr(np, dtname))
    x = np.array([r.gauss(0, 1) for _ in range(N)] if dt.kind == "f" else [1] * N).astype(dt)
    if dt.kind == "f":
        try:
            got = comp.compute_full(x)
        except Exception as e:  # noqa
            return ["compute_full rejects %s input of length %d: %s: %s" % (dtname, N, type(e).__name__, e)]
        bad = []
        if got.dtype != dt:
            bad.append("compute_full returned %s for %s input" % (got.dtype, dtname))
        if got.shape != ((N + comp.frame_shift // 2) // comp.frame_shift, comp.num_coeffs):
            bad.append("compute_full returned shape %r for N=%d, frame_shift=%d, num_coeffs=%d"
                       % (got.shape, N, comp.frame_shift, comp.num_coeffs))
        return bad
    try:
        comp.compute_full(x)
        return ["compute_full accepted a %s signal" % dtname]
    except ValueError:
        return []
    except Exception as e:  # noqa
        return ["compute_full raised %s (not ValueError) for a %s signal" % (type(e).__name__, dtname)]


def dtype_oracle(ctx, np):
    """Floating dtypes accepted and preserved; others rejected."""
    rng = ctx.rng
    for _ in range(ctx.scale(3, 12)):
        while True:
            comp, cfgd = make_real_computer(rng)
            if comp_pre(comp, cfgd):
                break
        V = comp._dft_size - comp._max_support + 1
        for dtname in FLOATS + ["int32", "int64", "bool_", "complex64", "complex128"]:
            lens = (0, 1, comp.frame_shift, V, V + 3, 2 * comp._dft_size + 1) if dtname in FLOATS else (5,)
            for N in lens:
                ctx.count("dtype-oracle:%s" % dtname)
                seed = rng.randint(0, 1 << 30)
                for msg in check_dtype(np, cfgd, dtname, N, seed)[:1]:
                    ctx.fail(msg, dict(kind="dtype", config=cfgd, dtype=dtname, N=N, seed=seed), kind="impl")
        # compute_full on a started computer is refused
        comp = build_real_computer(cfgd)
        comp.compute_chunk(np.zeros(3))
        try:
            comp.compute_full(np.zeros(3))
            ctx.fail("compute_full accepted a signal while an utterance is in progress",
                     dict(kind="started", config=cfgd), kind="impl")
        except ValueError:
            pass


HIST_FLOATS = ["float64", "float32", "float16"]


def history_signal(np, dtname, N, seed):
    import random

    r = random.Random(seed)
    amp = 0.05 if dtname == "float16" else 1.0  # keeps float16 power features far from overflow
    return np.array([amp * r.gauss(0, 1) for _ in range(N)], dtype=np.float64).astype(getattr(np, dtname))


def check_dtype_history(np, cfgd, utts):
    """ONE computer processes the utterances in order (each its own floating dtype, whole via
    compute_full or as chunks + finalize).  Every utterance must be accepted, leave the computer
    idle, and give that utterance's dtype and - to that dtype's precision - the values a fresh
    computer gives for the same calls.  -> (failure texts, non-trivial)"""
    comp = build_real_computer(cfgd)

    def feed(c, x, parts):
        if parts is None:
            return c.compute_full(x)
        outs, pos = [], 0
        for m in parts:
            outs.append(c.compute_chunk(x[pos:pos + m]))
            pos += m
        outs.append(c.finalize())
        return np.concatenate(outs)

    bad, nt, seen = [], False, []
    for k, u in enumerate(utts):
        if (u["seed"] + k) % 3 == 0:
            # a non-floating signal in between (raw int16 PCM handed over by mistake): it is refused with ValueError and
            # must leave the computer idle and usable
            xi = (np.arange(max(1, u["N"])) % 7 - 3).astype(np.int16)
            try:
                comp.compute_full(xi) if u["parts"] is None else comp.compute_chunk(xi)
                bad.append("an int16 signal is accepted (utterance #%d of the history)" % (k + 1))
                break
            except ValueError:
                pass
            except Exception as e:  # noqa
                bad.append("an int16 signal raises %s instead of ValueError" % type(e).__name__)
                break
            if comp.started:
                bad.append("after an int16 signal was refused the computer reports started=True "
                           "(history so far: %s)" % (", ".join(seen) if seen else "nothing"))
                break
            seen.append("int16 (refused)")
        dt = np.dtype(getattr(np, u["dtype"]))
        x = history_signal(np, u["dtype"], u["N"], u["seed"])
        how = "compute_full" if u["parts"] is None else "%d chunks + finalize" % len(u["parts"])
        what = "utterance #%d (%s, %d samples, %s) on a computer that already processed %s" % (
            k + 1, u["dtype"], u["N"], how, ", ".join(seen) if seen else "nothing")
        seen.append("%s x %d" % (u["dtype"], u["N"]))
        try:
            got = feed(comp, x, u["parts"])
        except Exception as e:  # noqa
            bad.append("%s is rejected: %s: %s%s" % (what, type(e).__name__, e,
                                                     " (and the computer is left started)" if comp.started else ""))
            break
        if comp.started:
            bad.append("%s: the computer is still started after the utterance was finalized" % what)
            break
        try:
            ref = feed(build_real_computer(cfgd), x, u["parts"])
        except Exception as e:  # noqa
            bad.append("a fresh computer rejects a %s utterance of %d samples (%s): %s: %s"
                       % (u["dtype"], u["N"], how, type(e).__name__, e))
            break
        if got.dtype != dt:
            bad.append("%s: result has dtype %s" % (what, got.dtype))
        if got.shape != ref.shape:
            bad.append("%s: result has shape %r, a fresh computer gives %r" % (what, got.shape, ref.shape))
        elif got.size:
            tol = max(1e-9, 8 * float(np.finfo(dt).eps))
            g, r = np.asarray(got, np.float64), np.asarray(ref, np.float64)
            fin = np.isfinite(r)
            if not np.all(np.abs(g[fin] - r[fin]) <= tol * (1 + np.abs(r[fin]))):
                bad.append("%s: values differ from a fresh computer's beyond %s precision (max %g)"
                           % (what, u["dtype"], float(np.max(np.abs(g[fin] - r[fin])))))
        if k and len(got) and u["dtype"] != utts[k - 1]["dtype"]:
            nt = True
    return bad, nt


def retuned_floor_oracle(ctx, np, nconf):
    """The log is floored at config.LOG_FLOOR_VALUE - the package setting, which may be re-assigned at run time: a
    computer built BEFORE the setting was changed and one built after it must agree (both use the value in force), on
    signals whose integrated coefficients fall on both sides of the old and the new floor."""
    C.ensure_impl_path()
    from pydrobert.speech import config

    rng = ctx.rng
    nprng = np.random.RandomState(ctx.seed + 404)
    shipped = config.LOG_FLOOR_VALUE
    try:
        for rep in range(nconf):
            config.LOG_FLOOR_VALUE = shipped
            built_before, cfgd = make_real_computer(rng)
            if not cfgd["log"]:
                cfgd = dict(cfgd, log=True)
                built_before = build_real_computer(cfgd)
            if not comp_pre(built_before, cfgd):
                continue
            floor = rng.choice([1e-2, 1e-12, 1.0, 1e-8, 3e-4])
            config.LOG_FLOOR_VALUE = floor
            built_after = build_real_computer(cfgd)
            n = rng.randint(2, 8) * built_before.frame_shift + rng.randint(0, 3)
            x = np.concatenate([nprng.randn(max(1, n // 4)) * a for a in rng.sample([1.0, 1e-2, 1e-4, 1e-7, 0.0], 4)])
            a = built_before.compute_full(x)
            b = built_after.compute_full(x)
            ctx.count("retuned-floor")
            ctx.case(dict(kind="retuned-floor", cfg=cfgd, floor=floor, n=len(x)), nontrivial=a.shape[0] > 0)
            if a.shape != b.shape or not np.array_equal(a, b):
                k = int(np.argmax(np.abs(a - b))) if a.shape == b.shape and a.size else 0
                ctx.fail("short-integration computer built before config.LOG_FLOOR_VALUE was re-assigned to %g does not use the floor in force "
                         "(it differs from a computer built afterwards)" % floor,
                         dict(cfg=cfgd, LOG_FLOOR_VALUE=floor, shipped=shipped, x=[float(v) for v in x],
                              built_before=[float(v) for v in a.reshape(-1)[:40]], built_after=[float(v) for v in b.reshape(-1)[:40]],
                              first_differing_flat_index=k, log_of_floor=float(np.log(floor))), kind="impl")
                return
    finally:
        config.LOG_FLOOR_VALUE = shipped


def dtype_history_oracle(ctx, np, nconf):
    """'Input of any floating dtype is accepted and the result has that dtype' holds for every
    utterance a computer processes, not only its first: sequences of utterances of different
    floating dtypes on ONE computer (whole and chunked)."""
    rng = ctx.rng
    done = tries = 0
    while done < nconf and tries < 20 * nconf:
        tries += 1
        comp, cfgd = make_real_computer(rng)
        if not comp_pre(comp, cfgd):
            continue
        done += 1
        S, M = comp.frame_shift, comp._max_support
        V = comp._dft_size - M + 1
        utts, prev = [], None
        for N in signal_lengths(rng, S, comp.frame_length, V, rng.randint(2, 4)):
            if rng.random() < 0.6:
                N = max(N, rng.choice([S, 2 * S + S // 2, comp.frame_length, V + 1]))  # mostly utterances with frames
            dtname = rng.choice([d for d in HIST_FLOATS if d != prev] if rng.random() < 0.8 else HIST_FLOATS)
            prev = dtname
            # (at least one compute_chunk call per utterance: without one the computer never sees the dtype)
            parts = None if rng.random() < 0.5 else (gen_chunking(rng, N, S, V) or [0])
            utts.append(dict(dtype=dtname, N=N, seed=rng.randint(0, 1 << 30), parts=parts))
            ctx.count("dtype-history:%s:%s" % (dtname, "full" if parts is None else "chunked"))
        ctx.count("dtype-history:utterances", len(utts))
        bad, nt = check_dtype_history(np, cfgd, utts)
        ctx.case(dict(kind="dtype-history", cfg=cfgd,
                      utts=[(u["dtype"], u["N"], u["parts"]) for u in utts]), nontrivial=nt)
        for msg in bad[:1]:
            ctx.fail(msg, dict(kind="dtype-history", config=cfgd, utterances=utts, frame_shift=S, max_support=M,
                               translation=comp._translation, dft_size=comp._dft_size,
                               how="harness/c03.py:check_dtype_history(np, config, utterances); the signal of an "
                                   "utterance is history_signal(np, dtype, N, seed)"), kind="impl")


def replay(ctx, rp):
    """./check C03 --replay <file>: re-run exactly the recorded case."""
    C.ensure_impl_path()
    import numpy as np

    r = rp.get("failure", {}).get("replay", {})
    kind = r.get("kind")
    bad = []
    if kind == "integer":
        cfg = cfg_from_json(r["cfg"])
        try:
            info, outs = run_impl(np, cfg)
            case = (cfg, info, outs)
            if compare_cases(ctx, [case], "replay"):
                what, rep = explain_case(ctx, 0, case, "replay")
                bad.append(what)
                print(rep.get("model"))
                print("implementation:", [o[:4] for o in outs])
        except NotExact as e:
            bad.append("integer-coded run is not exact: %s" % e)
    elif kind == "definition":
        bad = check_definition(np, r["config"], r["signal"], r["dtype"])[0]
    elif kind == "chunking":
        bad = check_chunking(np, r["config"], r["signal"], r["dtype"], r["chunk_lengths"], r["chunk_size"])[0]
    elif kind == "dtype":
        bad = check_dtype(np, r["config"], r["dtype"], r["N"], r["seed"])
    elif kind == "dtype-history":
        bad = check_dtype_history(np, r["config"], r["utterances"])[0]
    else:
        print("nothing to re-run on the implementation:", r)
        return 0
    for b_ in bad:
        print("REPRODUCED:", b_)
    if not bad:
        print("not reproduced on", C.REPO)
    return 1 if bad else 0


# --------------------------------------------------------------------------


def run(ctx):
    C.ensure_impl_path()
    import numpy as np

    search_needed = []
    from . import stft as _stft

    _stft.regenerate_si(ctx)
    pr = C.proof_step(ctx)
    gate = C.grep_gate(["C03/Exec.v"])
    ok, out = C.coq_make(["C03/Exec.v"])
    if gate or not ok:
        ctx.fail("coq/C03 model no longer compiles" if not gate else "forbidden vernacular: %s" % gate[:3],
                 dict(correspondence="coq/C03/Exec.v", log_tail=out[-1500:]), kind="tie", no_input=True)
    else:
        integer_correspondence(ctx, ctx.scale(1200, 8000), label="si")
        if ctx.thorough:
            integer_correspondence(ctx, 400, label="sibig", big=True)
    definition_oracle(ctx, np, ctx.scale(200, 1500))
    chunk_oracle(ctx, np, ctx.scale(100, 800))
    dtype_oracle(ctx, np)
    dtype_history_oracle(ctx, np, ctx.scale(150, 1000))
    retuned_floor_oracle(ctx, np, ctx.scale(40, 400))
    ctx.cov["rule"] = (
        "integer-coded cases: one computer built by the real constructor on a stub bank (integer impulse "
        "responses, real or complex) and stub window, 1-3 utterances (compute_full / random chunk stream + "
        "finalize / frame_by_frame_calculation, floating and rejected dtypes) compared exactly with the Coq "
        "model (geometry, prepared taps, every outcome) and with si_spec evaluated in Coq; float cases: real "
        "banks against an independent np.convolve evaluation of the definition and chunked against full; "
        "sequences of 2-4 utterances of different floating dtypes on ONE computer against a fresh computer.  "
        "distinct = distinct (configuration, operation shapes); non-trivial = a stream in which a non-final "
        "compute_chunk call AND finalize both returned frames (compute_full / fbf: >= 2 frames; definition "
        "oracle: >= 1 frame)"
    )
    ctx.cov["trusted_base"] += [
        "np.fft: IDFT(DFT(buf).DFT(taps)) is the circular convolution (modelled as such; its valid part being "
        "a linear convolution is proved, not assumed)",
        "correspondence harness harness/c03.py (stub bank/window, integer rounding after a 1e-6 distance check)",
    ]
    ctx.assumptions += [
        "float rounding is not modelled (K is an exact number type); float comparisons use 1e-9 relative",
        "np.log/np.maximum and |.|^p are abstract functions in the theorems (post, phi)",
        "NumPy slice/assignment semantics as modelled in coq/C03/Model.v",
    ]
    return C.finish(ctx, "proof")
