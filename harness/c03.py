"""C03 - short-integration coefficients equal their documented definition, and
the short-integration half of C01 (chunked streaming = whole-signal computation).

Proof: coq/C03 (Model.v = statement-by-statement model of
ShortIntegrationFrameComputer; Props.v = compute_full / any stream of chunks /
frame_by_frame_calculation equal the documented definition [si_spec]).

Tie (hand-written model + correspondence, re-run on every check):
 * integer-coded runs: computers are built by the real constructor on a stub
   bank with integer impulse responses (real -> rfft path, complex -> fft path)
   and a stub integer window; integer signals; use_log=False.  Geometry
   (max_support, translation, dft_size, y-blocks), the prepared filters
   (inverse transform of ``_filts``), and the outcome of every operation
   (compute_full, arbitrary chunk streams + finalize, frame_by_frame_calculation,
   several utterances on one computer, wrong dtypes) are compared *exactly*
   with the model evaluated by vm_compute inside Coq (Z / Gaussian integers),
   and with the documented definition ``si_spec`` evaluated in Coq.
 * real banks (float): compute_full against an independent NumPy evaluation of
   the definition (np.convolve), chunked against full, dtype rule.
"""

import itertools
import math
import os

from . import common as C

PID = "C03"
DTYPES = ["float16", "float32", "float64", "longdouble", "int32", "bool", "complex64"]
REQ = (
    "From Coq Require Import ZArith List Bool.\n"
    "From Verif Require Import lib.C03_ListZ C03.Model C03.Exec.\n"
    "Import ListNotations.\nOpen Scope Z_scope.\n"
)

_STUBS = {}


def stubs():
    """Stub bank / window classes (created once, after the implementation is importable)."""
    if _STUBS:
        return _STUBS["bank"], _STUBS["window"]
    import numpy as np
    from pydrobert.speech.filters import LinearFilterBank, WindowFunction

    class VerifStubBank(LinearFilterBank):
        """Integer impulse responses with declared supports (wrapping into the buffer)."""

        aliases = set()

        def __init__(self, supports, tables, real, rate, width_hz):
            self._sup = tuple((int(a), int(b)) for a, b in supports)
            self._tables = tables  # per filter: dict n -> int or (re, im)
            self._real = real
            self._rate = rate
            self._width_hz = width_hz
            self.calls = []

        is_real = property(lambda self: self._real)
        is_analytic = property(lambda self: False)
        is_zero_phase = property(lambda self: False)
        num_filts = property(lambda self: len(self._sup))
        sampling_rate = property(lambda self: self._rate)
        supports = property(lambda self: self._sup)
        supports_hz = property(lambda self: tuple((0.0, self._width_hz) for _ in self._sup))

        def get_impulse_response(self, filt_idx, width):
            res = np.zeros(width, dtype=np.float64 if self._real else np.complex128)
            for n, v in self._tables[filt_idx].items():
                res[n % width] += v if self._real else complex(v[0], v[1])
            self.calls.append((filt_idx, width, res.copy()))
            return res

        def get_frequency_response(self, filt_idx, width, half=False):
            raise NotImplementedError

        def get_truncated_response(self, filt_idx, width):
            raise NotImplementedError

    class VerifStubWindow(WindowFunction):
        aliases = set()

        def __init__(self, weights):
            self._w = list(weights)

        def get_impulse_response(self, width):
            assert width == len(self._w), (width, len(self._w))
            return np.array(self._w, dtype=np.float64)

    _STUBS["bank"], _STUBS["window"] = VerifStubBank, VerifStubWindow
    return VerifStubBank, VerifStubWindow


# --------------------------------------------------------------------------
# case generation (integer-coded)


def precondition(centered, S, M, tr):
    """The hypothesis of si_full_eq_spec (coq/C03/Proofs.v, [pre])."""
    if centered:
        return M >= 1 and 2 * M >= S + 1
    return S + tr + 1 <= M


def geometry(centered, sup, S, dmin, pad):
    if centered:
        M = max(r - l for l, r in sup)
        tr = M // 2
    else:
        tr = max([0] + [-l for l, r in sup])
        M = max([0] + [r for l, r in sup]) + tr
    d = max(M + S - 1, dmin)
    if pad:
        d = 1 << max(0, (d - 1).bit_length())
    return M, tr, d


def gen_config(rng, big=False, want_pre=True):
    centered = rng.random() < 0.5
    real = rng.random() < 0.6
    S = rng.choice([1, 2, 2, 3, 4, 4, 5, 6, 8] + ([12, 16] if big else []))
    nf = rng.choice([1, 1, 2, 3])
    for _ in range(200):
        sup = []
        for _i in range(nf):
            if centered:
                l = rng.randint(-8, 2)
                r = l + rng.randint(1, 14 if not big else 30)
            else:
                l = rng.randint(-5, 3)
                r = rng.randint(max(l + 1, -1), 14 if not big else 30)
            sup.append((l, r))
        M, tr, _ = geometry(centered, sup, S, 1, False)
        if M < 1:
            continue
        if precondition(centered, S, M, tr) == want_pre and tr < M:
            # (tr >= M, possible only outside the precondition, puts the energy impulse beyond
            # the clamp length: _filts[0] is then not an M-tap filter and the model does not apply)
            break
    else:
        return None
    u = rng.random()
    if u < 0.35:
        dmin = 1
    elif u < 0.75:
        dmin = M + S - 1 + rng.randint(0, 9)
    else:
        dmin = rng.randint(M + S - 1, 3 * (M + S) + 8)
    pad = rng.random() < 0.4
    energy = rng.random() < 0.4
    power = True if not real else rng.random() < 0.6
    return dict(centered=centered, real=real, S=S, sup=sup, dmin=dmin, pad=pad, energy=energy, power=power)


def gen_tables(rng, cfg, amp):
    """Integer taps on (and slightly beyond) each declared support."""
    tabs = []
    for l, r in cfg["sup"]:
        t = {}
        for n in range(l - 2, r + 2):
            if rng.random() < 0.85:
                v = rng.randint(-amp, amp)
                t[n] = v if cfg["real"] else (v, rng.randint(-amp, amp))
        tabs.append(t)
    return tabs


def gen_lengths(rng, S, M, D, k):
    V = D - M + 1
    L = M + S - 1
    pool = [0, 0, 1, S // 2, S // 2 + 1, max(0, S // 2 - 1), S, S + S // 2, 2 * S, 2 * S + S // 2,
            3 * S + S // 2, L - 1, L, L + 1, V - 1, V, V + 1, 2 * V, 2 * V + 1, D, D + 1, 3 * V + S // 2]
    out = []
    for _ in range(k):
        u = rng.random()
        if u < 0.55:
            n = rng.choice(pool)
        elif u < 0.8:
            q = rng.randint(0, 6)
            n = q * S + S // 2 + rng.choice([-1, 0, 0, 1])
        else:
            n = rng.randint(0, 3 * D + 5)
        out.append(max(0, n))
    return out


def gen_chunking(rng, n, S, V):
    """A composition of n (possibly with empty parts)."""
    u = rng.random()
    if u < 0.1:
        return [n]
    if u < 0.2:
        return [1] * n
    parts, left = [], n
    style = rng.random()
    while left > 0:
        if rng.random() < 0.2:
            parts.append(0)
            continue
        if style < 0.3:
            m = rng.randint(1, 3)
        elif style < 0.6:
            m = rng.choice([S, V, V + 1, V - 1, 1, 2 * V, S // 2 + 1])
        else:
            m = rng.randint(1, max(1, left))
        m = max(1, min(m, left))
        parts.append(m)
        left -= m
    if rng.random() < 0.3:
        parts.append(0)
    if rng.random() < 0.15:
        parts.insert(0, 0)
    return parts


def out_bound(cfg, M, amp_x, amp_t, amp_w):
    y = M * amp_t * amp_x * (1 if cfg["real"] else 2)
    y = max(y, amp_x)
    v = y * y if cfg["power"] else y
    if not cfg["real"]:
        v = 2 * y * y
    return 2 * cfg["S"] * amp_w * v


def gen_case(rng, big=False, want_pre=True):
    cfg = gen_config(rng, big, want_pre)
    if cfg is None:
        return None
    M, tr, D = geometry(cfg["centered"], cfg["sup"], cfg["S"], cfg["dmin"], cfg["pad"])
    dti = rng.choice([2, 2, 2, 2, 1, 1, 0, 3])
    amp_x, amp_t, amp_w = 9, 4, 5
    if dti == 0:
        amp_x, amp_t, amp_w = 1, 1, 1
    elif dti == 1:
        amp_x, amp_t, amp_w = 3, 2, 2
    cap = {0: 2048, 1: 1 << 24}.get(dti, 1 << 50)
    if out_bound(cfg, M, amp_x, amp_t, amp_w) > cap:
        dti = 2
        amp_x, amp_t, amp_w = 9, 4, 5
    cfg["tables"] = gen_tables(rng, cfg, amp_t)
    cfg["window"] = [rng.randint(-1 if dti != 0 else 0, amp_w) for _ in range(2 * cfg["S"])]
    ops = []
    nutt = rng.choice([1, 2, 2, 3])
    lens = gen_lengths(rng, cfg["S"], M, D, nutt)
    V = D - M + 1
    for n in lens:
        xs = [rng.randint(-amp_x, amp_x) for _ in range(n)]
        u = rng.random()
        if u < 0.3:
            ops.append(dict(op="full", dt=dti, xs=xs))
        elif u < 0.45:
            ops.append(dict(op="fbf", dt=dti, xs=xs, cs=rng.choice([1, 2, cfg["S"], V, V + 1, D, 2 * D + 1, 1024])))
        else:
            parts = gen_chunking(rng, n, cfg["S"], V)
            chunks, pos = [], 0
            for m in parts:
                chunks.append([dti, xs[pos:pos + m]])
                pos += m
            ops.append(dict(op="stream", chunks=chunks, xs=xs, dt=dti))
    # occasionally end with an operation that must be rejected
    u = rng.random()
    if u < 0.08:
        ops.append(dict(op="full", dt=rng.choice([4, 5, 6]), xs=[1, 0, 1]))
    elif u < 0.14 and cfg["S"] > 0:
        other = rng.choice([d for d in (0, 1, 2, 3) if d != dti])
        ops.append(dict(op="stream", dt=dti, xs=[1, 1, 0, 1],
                        chunks=[[dti, [1, 1]], [other, [0, 1]]]))
    cfg["ops"] = ops
    cfg["pre"] = want_pre
    return cfg


# --------------------------------------------------------------------------
# implementation side


def np_dtype(np, code):
    return [np.float16, np.float32, np.float64, np.longdouble, np.int32, np.bool_, np.complex64][code]


def dtype_code(np, dt):
    for i in range(7):
        if np.dtype(dt) == np.dtype(np_dtype(np, i)):
            return i
    return 99


def build_computer(cfg, use_log=False):
    import numpy as np
    import pydrobert.speech.compute as compute

    Bank, Window = stubs()
    rate = 1000.0 * cfg["dmin"]  # so that ceil(2 * rate / width_hz) == dmin exactly
    bank = Bank(cfg["sup"], cfg["tables"], cfg["real"], rate, 2000.0)
    # frame_shift_ms such that int(0.001 * ms * rate) == S
    ms = (cfg["S"] + 0.5) / (0.001 * rate)
    comp = compute.ShortIntegrationFrameComputer(
        bank,
        frame_shift_ms=ms,
        frame_style="centered" if cfg["centered"] else "causal",
        include_energy=cfg["energy"],
        pad_to_nearest_power_of_two=cfg["pad"],
        window_function=Window(cfg["window"]),
        use_power=cfg["power"],
        use_log=use_log,
    )
    return comp, bank


def int_rows(np, arr, what):
    a = np.asarray(arr, dtype=np.float64)
    if a.size and not np.all(np.isfinite(a)):
        raise ValueError("non-finite value in %s" % what)
    r = np.rint(a)
    if a.size and float(np.max(np.abs(a - r))) > 1e-6:
        raise ValueError("integer-coded run produced a non-integer in %s: max distance %g"
                         % (what, float(np.max(np.abs(a - r)))))
    return [[int(v) for v in row] for row in r]


def exc_code(e):
    if isinstance(e, ValueError):
        return 1
    if isinstance(e, AssertionError):
        return 2
    if isinstance(e, IndexError):
        return 3
    return 9


def run_ops_impl(np, comp, ops):
    """-> list of outcomes (err, dtype code, rows); stops after the first error."""
    import pydrobert.speech.compute as compute

    outs = []
    for o in ops:
        try:
            if o["op"] == "full":
                res = comp.compute_full(np.array(o["xs"], dtype=np_dtype(np, o["dt"])))
            elif o["op"] == "fbf":
                res = compute.frame_by_frame_calculation(
                    comp, np.array(o["xs"], dtype=np_dtype(np, o["dt"])), o["cs"])
            else:
                parts = []
                for d, ch in o["chunks"]:
                    parts.append(comp.compute_chunk(np.array(ch, dtype=np_dtype(np, d))))
                parts.append(comp.finalize())
                res = np.concatenate(parts)
            if res.ndim != 2 or res.shape[1] != comp.num_coeffs:
                raise RuntimeError("bad result shape %r" % (res.shape,))
            outs.append([0, dtype_code(np, res.dtype), int_rows(np, res, o["op"])])
        except (ValueError, AssertionError, IndexError, ZeroDivisionError, RuntimeError, TypeError) as e:
            outs.append([exc_code(e), 0, [], "%s: %s" % (type(e).__name__, e)])
            break
    return outs


def run_impl(np, cfg):
    comp, bank = build_computer(cfg)
    irs = {}
    for idx, width, arr in bank.calls:
        irs[idx] = arr
    geom = [int(comp._max_support), int(comp._translation), int(comp._dft_size), int(comp._y_buf.shape[0])]
    S_impl = int(comp.frame_shift)
    taps = []
    D = comp._dft_size
    for F in comp._filts:
        t = np.fft.irfft(F, n=D) if cfg["real"] else np.fft.ifft(F)
        M = geom[0]
        if np.max(np.abs(t[M:]), initial=0.0) > 1e-6:
            taps.append(None)  # energy beyond max_support: cannot be a <= M tap filter
            continue
        if cfg["real"]:
            taps.append(int_rows(np, [t[:M]], "filter taps")[0])
        else:
            re = int_rows(np, [t[:M].real], "filter taps")[0]
            im = int_rows(np, [t[:M].imag], "filter taps")[0]
            taps.append([(a, b) for a, b in zip(re, im)])
    info = dict(geom=geom, S=S_impl, taps=taps, frame_length=int(comp.frame_length),
                num_coeffs=int(comp.num_coeffs), irs=irs)
    outs = run_ops_impl(np, comp, cfg["ops"])
    return info, outs


# --------------------------------------------------------------------------
# Coq side


def kval(real, v):
    if real:
        return C.zlist(int(v))
    if isinstance(v, (tuple, list)):
        return "(%s, %s)" % (C.zlist(int(v[0])), C.zlist(int(v[1])))
    return "(%s, 0)" % C.zlist(int(v))


def klist(real, xs):
    return "[" + "; ".join(kval(real, v) for v in xs) + "]"


def coq_op(real, o):
    if o["op"] == "full":
        return "OpFull %d %s" % (o["dt"], klist(real, o["xs"]))
    if o["op"] == "fbf":
        return "OpFbf %d %s %d" % (o["dt"], klist(real, o["xs"]), o["cs"])
    return "OpStream [" + "; ".join("(%d, %s)" % (d, klist(real, ch)) for d, ch in o["chunks"]) + "]"


def coq_case(i, cfg, info, outs):
    """Definitions c_i, ok_i for one case; ok_i is a list of booleans
    [geometry; taps; outcomes; spec]."""
    real = cfg["real"]
    n = len(cfg["sup"])
    D = info["geom"][2]
    irs = []
    for k in range(n):
        arr = info["irs"].get(k)
        if arr is None:
            irs.append([0] * D)
        elif real:
            irs.append([int(round(float(v))) for v in arr])
        else:
            irs.append([(int(round(v.real)), int(round(v.imag))) for v in arr])
    mk = "cfgZ" if real else "cfgG"
    s = "Definition c_%d := %s %s %d %s %d %s %s [%s] %s.\n" % (
        i, mk, C.zlist(cfg["centered"]), info["S"], C.zlist([tuple(x) for x in cfg["sup"]]), cfg["dmin"],
        C.zlist(cfg["pad"]), C.zlist(cfg["energy"]), "; ".join(klist(real, ir) for ir in irs),
        klist(real, cfg["window"]))
    K = "Z" if real else "G"
    geom_ok = "list_eqb Z.eqb (geometry %s c_%d) %s" % (K, i, C.zlist(info["geom"]))
    if any(t is None for t in info["taps"]):
        taps_ok = "false"
    elif real:
        taps_ok = "list_eqb (list_eqb Z.eqb) (cTaps Z c_%d) [%s]" % (i, "; ".join(klist(True, t) for t in info["taps"]))
    else:
        taps_ok = ("list_eqb (list_eqb (fun a b => (fst a =? fst b) && (snd a =? snd b))) (cTaps G c_%d) [%s]"
                   % (i, "; ".join(klist(False, t) for t in info["taps"])))
    nops = len(outs)
    ops = "[" + "; ".join(coq_op(real, o) for o in cfg["ops"][:nops]) + "]"
    exp = "[" + "; ".join("(%d, %d, %s)" % (o[0], o[1], C.zlist(o[2])) for o in outs) + "]"
    runner = ("run_opsZ %s" % C.zlist(cfg["power"])) if real else "run_opsG"
    outs_ok = "list_eqb outcome_eqb (%s c_%d %s) %s" % (runner, i, ops, exp)
    # the documented definition against every successful float result
    spec_terms = []
    if cfg["pre"]:
        specf = ("specZ %s" % C.zlist(cfg["power"])) if real else "specG"
        for o, r in zip(cfg["ops"], outs):
            if r[0] == 0:
                spec_terms.append("rows_eqb (%s c_%d %s) %s" % (specf, i, klist(real, o["xs"]), C.zlist(r[2])))
    spec_ok = " && ".join(spec_terms) if spec_terms else "true"
    s += "Definition ok_%d := [%s; %s; %s; %s].\n" % (i, geom_ok, taps_ok, outs_ok, spec_ok)
    return s


def coq_debug(i, cfg, outs):
    real = cfg["real"]
    K = "Z" if real else "G"
    nops = len(outs)
    ops = "[" + "; ".join(coq_op(real, o) for o in cfg["ops"][:nops]) + "]"
    runner = ("run_opsZ %s" % C.zlist(cfg["power"])) if real else "run_opsG"
    return ("Eval vm_compute in (geometry %s c_%d).\nEval vm_compute in (%s c_%d %s).\n" % (K, i, runner, i, ops))


def case_summary(cfg, info=None, outs=None):
    d = dict(centered=cfg["centered"], real=cfg["real"], S=cfg["S"], supports=cfg["sup"], dmin=cfg["dmin"],
             pad=cfg["pad"], energy=cfg["energy"], power=cfg["power"], window=cfg["window"],
             taps={str(k): {str(n): v for n, v in t.items()} for k, t in enumerate(cfg["tables"])},
             ops=[{k: v for k, v in o.items()} for o in cfg["ops"]], precondition=cfg["pre"])
    if info is not None:
        d["impl_geometry_M_tr_D_nblk"] = info["geom"]
    if outs is not None:
        d["impl_outcomes"] = [o[:3] + o[3:] for o in outs]
    return d


def nontrivial(cfg, outs):
    """At least one frame from a non-final compute_chunk and one from finalize
    is approximated by: some successful operation returned >= 2 frames."""
    return any(o[0] == 0 and len(o[2]) >= 2 for o in outs)


def integer_correspondence(ctx, ncases, label="si", big=False):
    """Build cases, run the implementation, evaluate the model in Coq, compare."""
    import numpy as np

    rng = ctx.rng
    cases = []
    while len(cases) < ncases:
        want_pre = rng.random() < 0.85
        cfg = gen_case(rng, big=big, want_pre=want_pre)
        if cfg is None:
            continue
        try:
            info, outs = run_impl(np, cfg)
        except ValueError as e:
            ctx.fail("integer-coded run of the implementation is not exact: %s" % e,
                     dict(case=case_summary(cfg)), kind="impl")
            continue
        except IndexError as e:
            # the constructor itself fails (energy impulse beyond the DFT buffer): only outside
            # the precondition, where translation >= dft_size is possible
            if cfg["pre"]:
                ctx.fail("constructor raised IndexError inside the precondition: %s" % e,
                         dict(case=case_summary(cfg)), kind="impl")
            ctx.count("%s:constructor-error-outside-pre" % label)
            continue
        cases.append((cfg, info, outs))
        ctx.count("%s:%s:%s:%s" % (label, "centered" if cfg["centered"] else "causal",
                                   "real" if cfg["real"] else "complex", "pre" if cfg["pre"] else "outside-pre"))
        for o, r in zip(cfg["ops"], outs):
            ctx.count("%s:op:%s:%s" % (label, o["op"], "ok" if r[0] == 0 else "err%d" % r[0]))
            ctx.count("%s:dtype:%s" % (label, DTYPES[o["dt"]]))
            if o["op"] == "stream":
                ctx.count("%s:chunks" % label, len(o["chunks"]))
                ctx.count("%s:empty-chunks" % label, sum(1 for _, ch in o["chunks"] if not ch))
    shard = 40
    files = []
    for b in range(0, len(cases), shard):
        body = ""
        for j, (cfg, info, outs) in enumerate(cases[b:b + shard]):
            body += coq_case(b + j, cfg, info, outs)
        body += "Eval vm_compute in (mismatches (forallb (fun b => b)) [%s]).\n" % "; ".join(
            "ok_%d" % (b + j) for j in range(len(cases[b:b + shard])))
        files.append(("%s_cases_%d" % (label, b), body))
    res = C.coq_eval_many(ctx, files, REQ)
    bad = []
    for (name, body), (ans, log), b in zip(files, res, range(0, len(cases), shard)):
        if ans is None or len(ans) != 1:
            ctx.fail("correspondence file %s did not compile" % name,
                     dict(correspondence="coq/C03 model evaluation", log_tail=(log or "")[-1500:]),
                     kind="tie", no_input=True)
            continue
        idx = C.parse_coq(ans[0])
        ctx.cov["traces_validated_against_impl"] += len(cases[b:b + shard]) - len(idx)
        for k in idx:
            bad.append(b + k)
    for (cfg, info, outs) in cases:
        ctx.case(dict(kind=label, centered=cfg["centered"], real=cfg["real"], S=cfg["S"], sup=cfg["sup"],
                      dmin=cfg["dmin"], pad=cfg["pad"], energy=cfg["energy"], power=cfg["power"],
                      ops=[(o["op"], len(o["xs"]), [len(c[1]) for c in o.get("chunks", [])], o.get("cs"))
                           for o in cfg["ops"]]),
                 nontrivial=nontrivial(cfg, outs))
    for k in bad[:5]:
        cfg, info, outs = cases[k]
        body = coq_case(k, cfg, info, outs) + "Eval vm_compute in ok_%d.\n" % k + coq_debug(k, cfg, outs)
        ans, log = C.coq_eval(ctx, "%s_debug_%d" % (label, k), body, REQ)
        parts = ["geometry", "prepared filter taps", "operation outcomes", "documented definition (si_spec)"]
        which, model = "?", None
        if ans and len(ans) >= 3:
            flags = C.parse_coq(ans[0])
            which = ", ".join(p for p, f in zip(parts, flags) if not f)
            model = dict(geometry=ans[1][:2000], outcomes=ans[2][:6000])
        ctx.fail("short-integration computer disagrees with the Coq model on: %s (%s, S=%d, supports=%r)"
                 % (which, "centered" if cfg["centered"] else "causal", cfg["S"], cfg["sup"]),
                 dict(case=case_summary(cfg, info, outs), model=model, disagreement=which,
                      how="build the computer as harness/c03.py:build_computer does and run the listed ops"),
                 kind="correspondence")
    return cases, bad


def run_si_stream_correspondence(ctx, ncases=None):
    """C01 (short-integration half): chunk streams / frame_by_frame_calculation of
    the implementation against the Coq model and against compute_full.  Called by
    harness/c01.py with its own ctx."""
    C.ensure_impl_path()
    import numpy as np

    n = ncases if ncases is not None else ctx.scale(120, 1500)
    ok, out = C.coq_make(["C03/Exec.v"])
    if not ok:
        ctx.fail("coq/C03 model no longer compiles", dict(correspondence="coq/C03/Exec.v", log_tail=out[-1500:]),
                 kind="tie", no_input=True)
        return
    integer_correspondence(ctx, n, label="si-stream")
    chunk_oracle(ctx, np, ctx.scale(25, 200))


# --------------------------------------------------------------------------
# direct oracles on the implementation (float)


def reference_full(np, comp, x, cfgd):
    """The documented definition, evaluated independently with np.convolve."""
    import pydrobert.speech.config as config

    bank = comp.bank
    S = comp.frame_shift
    sups = bank.supports
    if cfgd["style"] == "causal":
        tr = max([0] + [-l for l, r in sups])
        M = max([0] + [r for l, r in sups]) + tr
    else:
        M = max(r - l for l, r in sups)
        tr = M // 2
    L = M + S - 1
    min_hz = min(r - l for l, r in bank.supports_hz)
    D = max(L, int(np.ceil(2 * bank.sampling_rate / min_hz)))
    if cfgd["pad"]:
        D = int(2 ** np.ceil(np.log2(D)))
    w = comp_window(np, cfgd, S)
    N = len(x)
    nf = (N + S // 2) // S
    hs = []
    if cfgd["energy"]:
        h = np.zeros(M)
        h[tr] = 1
        hs.append(h)
    for i in range(bank.num_filts):
        ir = bank.get_impulse_response(i, D)
        if cfgd["style"] == "centered":
            l, r = sups[i]
            ir = np.roll(ir, tr - (l + r) // 2 + 1)
        else:
            ir = np.roll(ir, tr)
        hs.append(ir[:M])
    off = tr - S if cfgd["style"] == "centered" else tr
    out = np.empty((nf, len(hs)))
    xd = np.asarray(x, dtype=np.float64)
    padl = 2 * S + M
    xp = np.concatenate([np.zeros(padl), xd, np.zeros((nf + 3) * S + M)])
    for i, h in enumerate(hs):
        y = np.convolve(xp, h)
        y = np.abs(y) ** (2 if cfgd["power"] else 1)
        for k in range(nf):
            st = padl + k * S + off
            out[k, i] = np.sum(w * y[st:st + 2 * S])
    if cfgd["log"]:
        out = np.log(np.maximum(out, config.LOG_FLOOR_VALUE))
    return out, (M, tr, D)


def comp_window(np, cfgd, S):
    from pydrobert.speech.alias import alias_factory_subclass_from_arg
    from pydrobert.speech.filters import WindowFunction, GammaWindow, HannWindow

    if cfgd["window"] is None:
        wf = GammaWindow() if cfgd["style"] == "causal" else HannWindow()
    else:
        wf = alias_factory_subclass_from_arg(WindowFunction, cfgd["window"])
    return wf.get_impulse_response(2 * S)


BANKS = [
    ("tri", dict(name="tri", scaling_function="mel", num_filts=3, sampling_rate=2000, low_hz=60, high_hz=900)),
    ("tri-analytic", dict(name="tri", scaling_function="bark", num_filts=2, sampling_rate=2000, low_hz=80,
                          high_hz=950, analytic=True)),
    ("fbank", dict(name="fbank", num_filts=3, sampling_rate=2000, low_hz=60, high_hz=1000)),
    ("gabor", dict(name="gabor", scaling_function="mel", num_filts=3, sampling_rate=2000, low_hz=60, high_hz=900)),
    ("gabor-erb", dict(name="gabor", scaling_function="linear", num_filts=2, sampling_rate=2000, low_hz=100,
                       high_hz=800, erb=True)),
    ("tonebank", dict(name="tonebank", scaling_function="mel", num_filts=3, sampling_rate=2000, low_hz=100,
                      high_hz=900)),
    ("tonebank-o2", dict(name="tonebank", scaling_function="mel", num_filts=2, sampling_rate=2000, low_hz=150,
                         high_hz=900, order=2, max_centered=True)),
]


def make_real_computer(rng, bank_key=None):
    import pydrobert.speech.compute as compute

    bk, bargs = rng.choice(BANKS) if bank_key is None else [b for b in BANKS if b[0] == bank_key][0]
    cfgd = dict(
        bank=bk,
        style=rng.choice(["causal", "centered"]),
        ms=rng.choice([2.0, 3.0, 4.0, 5.5, 8.0, 8.5, 12.5]),
        pad=rng.random() < 0.5,
        window=rng.choice([None, "hann", "hamming", "bartlett", "blackman", "gamma"]),
        power=rng.random() < 0.5,
        log=rng.random() < 0.5,
        energy=rng.random() < 0.5,
    )
    comp = compute.ShortIntegrationFrameComputer(
        dict(bargs), frame_shift_ms=cfgd["ms"], frame_style=cfgd["style"], include_energy=cfgd["energy"],
        pad_to_nearest_power_of_two=cfgd["pad"], window_function=cfgd["window"], use_power=cfgd["power"],
        use_log=cfgd["log"])
    return comp, cfgd


def close(np, a, b, log):
    a = np.asarray(a, dtype=np.float64)
    b = np.asarray(b, dtype=np.float64)
    if a.shape != b.shape:
        return False, "shape %r != %r" % (a.shape, b.shape)
    if not a.size:
        return True, ""
    if log:
        # compare in the linear domain relative to the frame's scale, and in the log domain
        d = np.abs(a - b)
        ok = d <= 1e-7 + 1e-7 * np.abs(b)
    else:
        scale = max(1e-300, float(np.max(np.abs(b))))
        ok = np.abs(a - b) <= 1e-9 * scale + 1e-9 * np.abs(b)
    if np.all(ok):
        return True, ""
    k = np.argwhere(~ok)[0]
    return False, "value [%d,%d]: got %r expected %r" % (k[0], k[1], float(a[tuple(k)]), float(b[tuple(k)]))


def signal_lengths(rng, S, L, V, k):
    pool = [0, 1, S // 2, max(S // 2 - 1, 0), S // 2 + 1, S, S + S // 2, 2 * S + S // 2, L - 1, L, L + 1,
            V, V + 1, 2 * V + S // 2, 3 * V]
    return [rng.choice(pool) if rng.random() < 0.7 else rng.randint(0, 3 * V) for _ in range(k)]


def definition_oracle(ctx, np, nconf):
    """compute_full of real banks against the independent definition (float, 1e-9)."""
    rng = ctx.rng
    done = 0
    tries = 0
    while done < nconf and tries < 20 * nconf:
        tries += 1
        comp, cfgd = make_real_computer(rng)
        S = comp.frame_shift
        M, tr = comp._max_support, comp._translation
        if S < 1 or not precondition(cfgd["style"] == "centered", S, M, tr):
            ctx.count("oracle:skipped-outside-precondition")
            continue
        done += 1
        V = comp._dft_size - M + 1
        for N in signal_lengths(rng, S, comp.frame_length, V, 3):
            dt = rng.choice([np.float64, np.float64, np.float32, np.float16, np.longdouble])
            x = (rng.choice([1.0, 1e-3, 30.0]) * np.array([rng.gauss(0, 1) for _ in range(N)])).astype(dt)
            if rng.random() < 0.1:
                x = np.zeros(N, dtype=dt)  # silence: the log floor is what comes out
            inp = dict(config=cfgd, frame_shift=S, max_support=M, translation=tr, dft_size=comp._dft_size,
                       dtype=np.dtype(dt).name, N=N, signal=[float(v) for v in x][:400])
            ctx.count("oracle:%s:%s" % (cfgd["bank"], cfgd["style"]))
            ctx.count("oracle:dtype:%s" % np.dtype(dt).name)
            try:
                got = comp.compute_full(x)
            except Exception as e:  # noqa
                ctx.fail("compute_full raised %s: %s on a floating-point signal inside the precondition"
                         % (type(e).__name__, e), dict(input=inp), kind="impl")
                break
            ctx.case(dict(kind="definition-oracle", cfg=cfgd, N=N, dtype=np.dtype(dt).name), nontrivial=len(got) > 0)
            if got.dtype != np.dtype(dt):
                ctx.fail("compute_full returned dtype %s for %s input" % (got.dtype, np.dtype(dt).name),
                         dict(input=inp), kind="impl")
            ref, _ = reference_full(np, comp, np.asarray(x, dtype=np.float64), cfgd)
            if got.shape != ref.shape:
                ctx.fail("compute_full returned shape %r, the definition gives %r (N=%d, frame_shift=%d)"
                         % (got.shape, ref.shape, N, S), dict(input=inp), kind="impl")
                continue
            if np.dtype(dt).itemsize >= 8:
                ok, why = close(np, got, ref, cfgd["log"])
                if not ok:
                    ctx.fail("compute_full differs from the documented definition: %s" % why,
                             dict(input=inp), kind="impl")
            else:
                tol = 2e-3 if dt == np.float32 else 0.1
                g, r_ = np.asarray(got, np.float64), ref
                if g.size and not np.all((np.abs(g - r_) <= tol * (1 + np.abs(r_))) | ~np.isfinite(g)):
                    ctx.fail("compute_full (%s) differs from the documented definition beyond the output precision"
                             % np.dtype(dt).name, dict(input=inp), kind="impl")


def chunk_oracle(ctx, np, nconf):
    """Any chunking + finalize and frame_by_frame_calculation equal compute_full (float)."""
    import pydrobert.speech.compute as compute

    rng = ctx.rng
    done = tries = 0
    while done < nconf and tries < 20 * nconf:
        tries += 1
        comp, cfgd = make_real_computer(rng)
        S = comp.frame_shift
        M, tr = comp._max_support, comp._translation
        if S < 1 or not precondition(cfgd["style"] == "centered", S, M, tr):
            continue
        done += 1
        V = comp._dft_size - M + 1
        for N in signal_lengths(rng, S, comp.frame_length, V, 2):
            dt = rng.choice([np.float64, np.float64, np.float32])
            x = np.array([rng.gauss(0, 1) for _ in range(N)]).astype(dt)
            parts = gen_chunking(rng, N, S, V)
            cs = rng.choice([1, S, V, V + 1, 7, 1024]) if N < 400 else rng.choice([S, V, V + 1, 1024])
            inp = dict(config=cfgd, frame_shift=S, max_support=M, translation=tr, dft_size=comp._dft_size,
                       dtype=np.dtype(dt).name, N=N, chunk_lengths=parts, chunk_size=cs,
                       signal=[float(v) for v in x][:400])
            ctx.count("chunk-oracle:%s:%s" % (cfgd["bank"], cfgd["style"]))
            try:
                full = comp.compute_full(x)
                outs, pos = [], 0
                for m in parts:
                    outs.append(comp.compute_chunk(x[pos:pos + m]))
                    pos += m
                outs.append(comp.finalize())
                st = np.concatenate(outs)
                fb = compute.frame_by_frame_calculation(comp, x, cs)
            except Exception as e:  # noqa
                ctx.fail("streaming raised %s: %s inside the precondition" % (type(e).__name__, e),
                         dict(input=inp), kind="impl")
                break
            ctx.case(dict(kind="chunk-oracle", cfg=cfgd, N=N, parts=parts, cs=cs),
                     nontrivial=len(full) > 0 and len(parts) > 1)
            tol = 1e-9 if dt == np.float64 else 1e-3
            for name, got in (("chunks + finalize", st), ("frame_by_frame_calculation", fb)):
                if got.shape != full.shape:
                    ctx.fail("%s gives shape %r, compute_full %r" % (name, got.shape, full.shape),
                             dict(input=inp), kind="impl")
                elif got.size and not np.allclose(got, full, rtol=tol, atol=tol):
                    ctx.fail("%s differs from compute_full (max %g)" % (name, float(np.max(np.abs(
                        np.asarray(got, np.float64) - np.asarray(full, np.float64))))), dict(input=inp), kind="impl")
                elif N > 0 and got.dtype != full.dtype:
                    ctx.fail("%s has dtype %s, compute_full %s" % (name, got.dtype, full.dtype),
                             dict(input=inp), kind="impl")


def dtype_oracle(ctx, np):
    """Floating dtypes accepted and preserved; others rejected; restart rules."""
    import pydrobert.speech.compute as compute

    rng = ctx.rng
    comp, cfgd = make_real_computer(rng, "gabor")
    V = comp._dft_size - comp._max_support + 1
    for dt in (np.float16, np.float32, np.float64, np.longdouble):
        for N in (0, 1, comp.frame_shift, V, V + 3, 2 * comp._dft_size + 1):
            x = np.array([rng.gauss(0, 1) for _ in range(N)]).astype(dt)
            inp = dict(config=cfgd, dtype=np.dtype(dt).name, N=N)
            ctx.count("dtype-oracle:%s" % np.dtype(dt).name)
            try:
                got = comp.compute_full(x)
            except Exception as e:  # noqa
                ctx.fail("compute_full rejects %s input of length %d: %s: %s"
                         % (np.dtype(dt).name, N, type(e).__name__, e), dict(input=inp), kind="impl")
                comp, cfgd = make_real_computer(rng, "gabor")
                continue
            if got.dtype != np.dtype(dt):
                ctx.fail("compute_full returned %s for %s input" % (got.dtype, np.dtype(dt).name),
                         dict(input=inp), kind="impl")
            if got.shape != ((N + comp.frame_shift // 2) // comp.frame_shift, comp.num_coeffs):
                ctx.fail("compute_full returned shape %r for N=%d, frame_shift=%d"
                         % (got.shape, N, comp.frame_shift), dict(input=inp), kind="impl")
    for dt in (np.int32, np.int64, np.bool_, np.complex64, np.complex128):
        x = np.ones(5).astype(dt)
        try:
            comp.compute_full(x)
            ctx.fail("compute_full accepted a %s signal" % np.dtype(dt).name,
                     dict(input=dict(config=cfgd, dtype=np.dtype(dt).name, N=5)), kind="impl")
        except ValueError:
            pass
        except Exception as e:  # noqa
            ctx.fail("compute_full raised %s (not ValueError) for a %s signal" % (type(e).__name__, np.dtype(dt).name),
                     dict(input=dict(config=cfgd, dtype=np.dtype(dt).name, N=5)), kind="impl")
        if comp.started:
            comp, cfgd = make_real_computer(rng, "gabor")


# --------------------------------------------------------------------------


def run(ctx):
    C.ensure_impl_path()
    import numpy as np

    search_needed = []
    pr = C.proof_step(ctx)
    ok, out = C.coq_make(["C03/Exec.v"])
    if not ok:
        ctx.fail("coq/C03 model no longer compiles", dict(correspondence="coq/C03/Exec.v", log_tail=out[-1500:]),
                 kind="tie", no_input=True)
    else:
        integer_correspondence(ctx, ctx.scale(240, 4000), label="si")
        if ctx.thorough:
            integer_correspondence(ctx, 300, label="si-big", big=True)
    definition_oracle(ctx, np, ctx.scale(30, 300))
    chunk_oracle(ctx, np, ctx.scale(15, 150))
    dtype_oracle(ctx, np)
    ctx.cov["rule"] = (
        "integer-coded cases: one computer built by the real constructor on a stub bank (integer impulse "
        "responses, real or complex) and stub window, 1-3 utterances (compute_full / random chunk stream + "
        "finalize / frame_by_frame_calculation, floating and rejected dtypes) compared exactly with the Coq "
        "model (geometry, prepared taps, every outcome) and with si_spec evaluated in Coq; float cases: real "
        "banks against an independent np.convolve evaluation of the definition and chunked against full.  "
        "distinct = distinct (configuration, operation shapes); non-trivial = some operation returned >= 2 "
        "frames (integer-coded) / at least one frame (oracles)"
    )
    ctx.cov["trusted_base"] += [
        "np.fft: IDFT(DFT(buf).DFT(taps)) is the circular convolution (modelled as such; its valid part being "
        "a linear convolution is proved, not assumed)",
        "correspondence harness harness/c03.py (stub bank/window, integer rounding after a 1e-6 distance check)",
    ]
    ctx.assumptions += [
        "float rounding is not modelled (K is an exact number type); float comparisons use 1e-9 relative",
        "np.log/np.maximum and |.|^p are abstract functions in the theorems (post, phi)",
        "NumPy slice/assignment semantics as modelled in coq/C03/Model.v",
    ]
    return C.finish(ctx, "proof")
