"""C04 - a computer's output depends only on the current utterance.

Proof: coq/C04/Props.v - for ALL histories of compute_chunk / finalize /
compute_full / frame_by_frame_calculation on one STFT instance (arbitrary stale
buffer contents), outputs after an idle point equal those of a fresh instance;
`started` is a fold over the history; mid-utterance refusal leaves the state
untouched.  Tie: correspondence of random histories (index-coded, exact) with the
model inside Coq.  Search: "fresh twin" comparison, bit for bit, on real features
for both frame computers; read-only inputs; input arrays unmodified.
"""

import numpy as np

from . import common as C
from . import stft


def gen_history(rng, cfg, max_utts=4):
    ops, base = [], 0
    for u in range(rng.randint(1, max_utts)):
        N = rng.choice(stft.interesting_lengths(cfg) + [rng.randint(0, 4 * cfg[0])] * 2)
        x = list(range(base, base + N))
        base += 1000
        kind = rng.random()
        if kind < 0.55:
            parts = stft.rand_composition(rng, N, rng.choice(["one", "ones", "small", "big", "mix"]))
            p = 0
            for k in parts:
                ops.append(("chunk", x[p:p + k]))
                p += k
                u2 = rng.random()
                if u2 < 0.08:
                    ops.append(("full", x))  # must refuse
                elif u2 < 0.12:
                    ops.append(("fbf", x, rng.choice([1, 3, 1024])))  # must refuse
            if rng.random() < 0.9:
                ops.append(("finalize",))
            if rng.random() < 0.25:
                ops.append(("finalize",))
        elif kind < 0.75:
            ops.append(("full", x))
        elif kind < 0.9:
            ops.append(("fbf", x, rng.choice([1, 2, cfg[1], cfg[0], 5, 1024])))
        else:
            ops.append(("finalize",))
    return ops


def twin_oracle(ctx):
    """After finalize (or a completed compute_full) an instance is indistinguishable
    from a fresh one: bit-identical features, same `started`, same refusals."""
    C.ensure_impl_path()
    from pydrobert.speech import compute, filters

    rng = ctx.rng
    nprng = np.random.RandomState(ctx.seed + 23)
    bad = []

    def mk(kind):
        if kind == "stft":
            bank = rng.choice([lambda: filters.Fbank(num_filts=6, sampling_rate=8000),
                               lambda: filters.GaborFilterBank("mel", num_filts=4, sampling_rate=8000)])
            args = dict(frame_length_ms=rng.choice([5.0, 10.0, 25.0]), frame_shift_ms=rng.choice([2.5, 5.0]),
                        frame_style=rng.choice(["causal", "centered"]), kaldi_shift=rng.random() < 0.4,
                        include_energy=rng.random() < 0.5)
            if rng.random() < 0.15:
                # frames shorter than the shift ("all computer configurations"): utterances may end inside the skipped gap
                fl, fs = rng.choice([(5.0, 6.0), (10.0, 10.5), (5.0, 12.0), (2.5, 10.0)])
                args.update(frame_length_ms=fl, frame_shift_ms=fs, kaldi_shift=False)
            return lambda: compute.STFTFrameComputer(bank(), **args), args
        bank = rng.choice([lambda: filters.GaborFilterBank("mel", num_filts=4, sampling_rate=8000),
                           lambda: filters.ComplexGammatoneFilterBank("mel", num_filts=4, sampling_rate=8000),
                           lambda: filters.Fbank(num_filts=5, sampling_rate=8000)])
        args = dict(frame_shift_ms=rng.choice([2.5, 5.0, 10.0]), frame_style=rng.choice(["causal", "centered"]),
                    include_energy=rng.random() < 0.5, pad_to_nearest_power_of_two=rng.random() < 0.7)
        return lambda: compute.SIFrameComputer(bank(), **args), args

    def drive(c, script, sig):
        outs = []
        for o in script:
            try:
                if o[0] == "chunk":
                    x = sig[o[1]:o[2]].copy()
                    h = x.tobytes()
                    x.setflags(write=False)
                    r = c.compute_chunk(x)
                    assert x.tobytes() == h, "input modified"
                elif o[0] == "finalize":
                    r = c.finalize()
                elif o[0] == "full":
                    x = sig.copy()
                    if len(o) > 1 and o[1] == "other-dtype":  # a probe in another precision than the utterance in progress
                        x = sig.astype(np.float32 if sig.dtype == np.float64 else np.float64)
                    h = x.tobytes()
                    x.setflags(write=False)
                    r = c.compute_full(x)
                    assert x.tobytes() == h, "input modified"
                else:
                    x = sig.copy()
                    x.setflags(write=False)
                    r = compute.frame_by_frame_calculation(c, x, o[1])
                outs.append((r.shape, str(r.dtype), r.tobytes(), bool(c.started)))
                try:
                    r[...] = 7.25  # the returned matrix belongs to the caller: scribbling on it must not matter later
                except (ValueError, TypeError):
                    pass
            except ValueError as e:
                outs.append(("ValueError", bool(c.started)))
        return outs

    def rand_script(N, allow_mid=True):
        u = rng.random()
        if u < 0.5:
            parts = stft.rand_composition(rng, N, rng.choice(["one", "small", "mix", "big"]) if N < 300 else "mix")
            s, p = [], 0
            for k in parts:
                s.append(("chunk", p, p + k))
                p += k
                if allow_mid and rng.random() < 0.1:
                    s.append(("full", rng.choice(["same-dtype", "other-dtype"])))
                if allow_mid and rng.random() < 0.05:
                    s.append(("fbf", 64))
            s.append(("finalize",))
            if rng.random() < 0.2:
                s.append(("finalize",))
            return s
        if u < 0.8:
            return [("full",)]
        return [("fbf", rng.choice([1, 17, 1024]))]

    for rep in range(ctx.scale(40, 300)):
        kind = rng.choice(["stft", "si"])
        ctor, args = mk(kind)
        used, fresh = ctor(), None
        Lv = used.frame_length
        hist_desc, refused, unrunnable = [], None, False
        for u in range(rng.randint(1, 4)):
            N = rng.choice([0, 1, used.frame_shift // 2, Lv // 2, Lv // 2 + 1, Lv, rng.randint(0, 4 * Lv), rng.randint(0, 40)])
            # earlier utterances may have another floating dtype than the next one (a dtype must not stick to the instance)
            hdt = rng.choice(["float64", "float64", "float32", "float16"])
            sig = nprng.randn(N).astype(hdt)
            sc = rand_script(N)
            ho = drive(used, sc, sig)
            ctx.count("twin:history_dtype=" + hdt)
            hist_desc.append(dict(N=N, dtype=hdt, script=[list(o) for o in sc]))
            # an utterance of the history is itself a "next utterance" of what came before it: a fresh
            # instance accepts every compute_chunk / finalize of these scripts (one floating dtype per
            # utterance) and refuses only compute_full / frame_by_frame_calculation mid-utterance, and every
            # script ends with finalize, after which `started` is false
            wrong = [i for i, (o, r) in enumerate(zip(sc, ho))
                     if r[0] == "ValueError" and (o[0] in ("chunk", "finalize") or len(sc) == 1)]
            if wrong and [r[0] for r in drive(ctor(), sc, sig)] == [r[0] for r in ho]:
                # a FRESH instance refuses the same call of the same script on the same signal: the library cannot run this
                # configuration on this signal at all (a short-integration computer whose frame shift is not shorter than its
                # filters' one-sided support is outside its working domain) - that says nothing about histories
                ctx.count("twin:configuration-not-runnable")
                unrunnable = True
                break
            if wrong or used.started:
                i = wrong[0] if wrong else len(sc) - 1
                refused = dict(kind=kind, args={k: str(v) for k, v in args.items()}, history=hist_desc[:-1],
                               next=hist_desc[-1], first_difference_at_op=i,
                               used=("%s raised ValueError; started=%s afterwards" % (sc[i][0], used.started)) if wrong
                               else "started is still True after the last finalize",
                               fresh="a fresh instance accepts this call and is idle after finalize")
                break
        if unrunnable:
            continue
        if refused is not None:
            # reported with the history that led to it; this instance is in no state to go on
            ctx.count("twin:" + kind)
            ctx.case(dict(kind=kind, args=refused["args"], history=refused["history"], next=refused["next"]), nontrivial=True)
            bad.append(refused)
            continue
        N = rng.choice([Lv // 2 + 1, Lv, Lv + 3, rng.randint(0, 5 * Lv)])
        ndt = rng.choice(["float64", "float64", "float64", "float32"])
        sig = nprng.randn(N).astype(ndt)
        sc = rand_script(N)
        a = drive(used, sc, sig)
        fresh = ctor()
        b = drive(fresh, sc, sig)
        # "leave the utterance in progress undisturbed": the refused mid-utterance calls taken out of the script, a third
        # instance gives the same answers to everything else
        probes = [i for i, o in enumerate(sc) if o[0] in ("full", "fbf") and len(sc) > 1]
        if probes and all(b[i][0] == "ValueError" for i in probes):
            sc0 = [o for i, o in enumerate(sc) if i not in probes]
            c0 = drive(ctor(), sc0, sig)
            b0 = [r for i, r in enumerate(b) if i not in probes]
            ctx.count("twin:undisturbed-by-refused-calls")
            if c0 != b0:
                first = next(i for i, (p, q) in enumerate(zip(b0, c0)) if p != q)
                bad.append(dict(kind=kind, args={k: str(v) for k, v in args.items()}, history=[],
                                next=dict(N=N, dtype=ndt, script=[list(o) for o in sc]), first_difference_at_op=first,
                                used="with the refused mid-utterance calls: " + str(b0[first][:2]),
                                fresh="the same script without them: " + str(c0[first][:2])))
                continue
        ctx.count("twin:" + kind)
        ctx.case(dict(kind=kind, args={k: str(v) for k, v in args.items()}, history=hist_desc, next=dict(N=N, dtype=ndt, script=[list(o) for o in sc])),
                 nontrivial=any(isinstance(o[0], tuple) and o[0][0] > 0 for o in a))
        if a != b:
            first = next(i for i, (p, q) in enumerate(zip(a, b)) if p != q)
            bad.append(dict(kind=kind, args={k: str(v) for k, v in args.items()}, history=hist_desc,
                            next=dict(N=N, dtype=ndt, script=[list(o) for o in sc]), first_difference_at_op=first,
                            used=str(a[first][:2]), fresh=str(b[first][:2])))
    return bad


def corner_histories(ctx):
    """Two families the random histories reach too rarely.  (a) A refused mid-utterance call in ANOTHER precision than the
    utterance in progress, right before finalize: the frames finalize flushes (values and dtype) are those of the same
    stream without the refused call.  (b) Frames shorter than the shift: for EVERY utterance length over three shifts,
    streaming ends with a finalize that returns, leaves the computer idle, and the next utterance equals a fresh
    instance's."""
    C.ensure_impl_path()
    from pydrobert.speech import compute, filters

    nprng = np.random.RandomState(ctx.seed + 29)
    bad = []
    mk = {
        "stft": lambda **kw: compute.STFTFrameComputer(filters.Fbank(num_filts=5, sampling_rate=8000), **kw),
        "si": lambda **kw: compute.SIFrameComputer(filters.GaborFilterBank("mel", num_filts=3, sampling_rate=8000), **kw),
    }
    cfgs = [("stft", dict(frame_length_ms=10.0, frame_shift_ms=5.0, frame_style="centered")),
            ("stft", dict(frame_length_ms=10.0, frame_shift_ms=5.0, frame_style="causal", include_energy=True)),
            ("stft", dict(frame_length_ms=25.0, frame_shift_ms=10.0, frame_style="centered", kaldi_shift=True)),
            ("si", dict(frame_shift_ms=5.0, frame_style="centered")),
            ("si", dict(frame_shift_ms=5.0, frame_style="causal", include_energy=True))]
    for kind, kw in cfgs:
        for sdt, pdt in (("float32", "float64"), ("float64", "float32"), ("float32", "float16")):
            for N in (130, 411):
                x = nprng.randn(N).astype(sdt)
                for probe in ("compute_full", "frame_by_frame_calculation"):
                    a, b = mk[kind](**kw), mk[kind](**kw)
                    cut = N // 2
                    outs = []
                    for c, with_probe in ((a, True), (b, False)):
                        o = [c.compute_chunk(x[:cut]), c.compute_chunk(x[cut:])]
                        if with_probe:
                            try:
                                if probe == "compute_full":
                                    c.compute_full(nprng.randn(300).astype(pdt))
                                else:
                                    compute.frame_by_frame_calculation(c, nprng.randn(300).astype(pdt), 64)
                                bad.append(dict(kind=kind, args={k: str(v) for k, v in kw.items()}, what="%s mid-utterance was not refused" % probe))
                            except ValueError:
                                pass
                        o.append(c.finalize())
                        outs.append(o)
                    ctx.count("corner:refused-probe-other-dtype")
                    ctx.case(dict(corner="refused-probe", kind=kind, args={k: str(v) for k, v in kw.items()}, N=N, stream_dtype=sdt, probe=probe, probe_dtype=pdt),
                             nontrivial=True)
                    for i, (p, q) in enumerate(zip(*outs)):
                        if p.dtype != q.dtype or p.shape != q.shape or p.tobytes() != q.tobytes():
                            bad.append(dict(kind=kind, args={k: str(v) for k, v in kw.items()},
                                            what="a refused %s(%s signal) disturbed the %s utterance in progress: output #%d of "
                                                 "[chunk, chunk, finalize] is %s %s with the refused call, %s %s without"
                                                 % (probe, pdt, sdt, i, p.dtype, p.shape, q.dtype, q.shape), N=N))
                            break
    for style, fl, fs in (("centered", 5.0, 6.0), ("centered", 10.0, 10.5), ("causal", 5.0, 12.0), ("causal", 2.5, 10.0), ("centered", 2.5, 10.0)):
        kw = dict(frame_length_ms=fl, frame_shift_ms=fs, frame_style=style)
        used = mk["stft"](**kw)
        Lv, Sv = used.frame_length, used.frame_shift
        nxt = nprng.randn(2 * Sv + Lv)
        want = None
        for N in range(0, 3 * Sv + Lv + 1):
            x = nprng.randn(N)
            ctx.count("corner:shift>length:every-length")
            try:
                used.compute_chunk(x[: N // 3])
                used.compute_chunk(x[N // 3:])
                used.finalize()
                idle = not used.started
                got = used.compute_full(nxt)
            except Exception as e:  # noqa: BLE001
                bad.append(dict(kind="stft", args={k: str(v) for k, v in kw.items()}, N=N,
                                what="streaming an utterance of %d samples (frame_length %d, frame_shift %d): %s: %s; started=%s afterwards"
                                     % (N, Lv, Sv, type(e).__name__, str(e)[:80], used.started)))
                break
            if want is None:
                want = mk["stft"](**kw).compute_full(nxt)
            if not idle or got.tobytes() != want.tobytes():
                bad.append(dict(kind="stft", args={k: str(v) for k, v in kw.items()}, N=N,
                                what="after an utterance of %d samples (frame_length %d, frame_shift %d) the computer is %s and the next "
                                     "utterance %s a fresh instance's" % (N, Lv, Sv, "idle" if idle else "still started",
                                                                         "equals" if got.tobytes() == want.tobytes() else "differs from")))
                break
        ctx.case(dict(corner="shift>length", args={k: str(v) for k, v in kw.items()}, lengths="0..%d" % (3 * Sv + Lv)), nontrivial=True)
    return bad


def run(ctx):
    C.ensure_impl_path()
    stft.regenerate(ctx)
    stft.regenerate_si(ctx)
    pr = C.proof_step(ctx)
    rng = ctx.rng
    cases = []
    for _ in range(ctx.scale(500, 4000)):
        cfg = stft.rand_cfg(rng, maxL=16)
        ops = gen_history(rng, cfg)
        outs, sts, shapes_ok = stft.run_history(cfg, ops)
        kinds = [o[0] for o in ops]
        refused = sum(1 for r in outs if r is None)
        ctx.case(dict(L=cfg[0], S=cfg[1], centered=cfg[2], kaldi_shift=cfg[3], ops=[(o[0], len(o[1]) if len(o) > 1 else None) for o in ops][:30],
                      refused=refused), nontrivial=len(ops) >= 3 and any(r for r in outs if r))
        ctx.count("ops:%d" % min(len(ops), 12))
        ctx.count("refusals:%d" % min(refused, 3))
        for kd in set(kinds):
            ctx.count("has:" + kd)
        if not shapes_ok:
            ctx.fail("returned matrix shape differs from number of frames computed", dict(cfg=cfg, ops=str(ops)[:1500]), kind="impl")
        # the property's `started` clause, directly on the implementation
        st = False
        for o, got, r in zip(ops, sts, outs):
            exp = True if o[0] == "chunk" else False if o[0] == "finalize" else st
            if got != exp or ((o[0] in ("full", "fbf")) and ((r is None) != st)):
                ctx.fail("`started` / refusal behaviour wrong", dict(cfg=cfg, ops=str(ops)[:1500], started_seen=sts, outputs_none=[r is None for r in outs]), kind="impl")
                break
            st = exp
        cases.append((cfg, ops, outs, sts))
    bad = stft.compare_with_model(ctx, cases, "c04")
    tw = twin_oracle(ctx)
    for b in tw[:5]:
        ctx.fail("used instance differs from a fresh one on the next utterance", b, kind="impl")
    ch = corner_histories(ctx)
    for b in ch[:4]:
        ctx.fail("history property violated: %s" % b.get("what"), b, kind="impl")
    tw = tw + ch
    if bad:
        k = bad[0]
        rp = dict(correspondence="coq/Stft/Model.v histories vs one ShortTimeFourierTransformFrameComputer instance",
                  cfg=cases[k][0], ops=str(cases[k][1])[:3000], impl_outputs=str(cases[k][2])[:2000],
                  impl_started=cases[k][3], model_outputs=stft.model_output(ctx, cases[k])[:2000], mismatching_cases=len(bad))
        ctx.fail("model and implementation disagree on %d histories" % len(bad), rp, kind="correspondence", no_input=not tw)
    elif bad is not None:
        ctx.cov["traces_validated_against_impl"] += len(cases)
    ctx.cov["rule"] = (
        "random histories (1-4 utterances; chunkings with empty chunks, repeated finalize, finalize on a fresh instance, "
        "too-short utterances, compute_full / frame_by_frame_calculation both idle and mid-utterance) on ONE STFT instance, "
        "index-coded (utterance u carries 1000u+i), outputs/exception/started compared with the Coq model; plus fresh-twin runs on "
        "real STFT and SI computers (tobytes equality). non-trivial = >= 3 operations and at least one frame; distinct by full history."
    )
    ctx.cov["trusted_base"] += [
        "coq/Stft/Model.v (validated by the correspondence); SI computer covered by the fresh-twin comparison only",
        "input arrays are passed read-only and hashed before/after (run-time aliasing fact, not provable in the model)",
    ]
    ctx.assumptions += ["0 < frame_shift <= frame_length; chunk_size > 0 for frame_by_frame_calculation"]
    return C.finish(ctx, "proof")
