"""C04 - a computer's output depends only on the current utterance.

Proof: coq/C04/Props.v - for ALL histories of compute_chunk / finalize /
compute_full / frame_by_frame_calculation on one STFT instance (arbitrary stale
buffer contents), outputs after an idle point equal those of a fresh instance;
`started` is a fold over the history; mid-utterance refusal leaves the state
untouched.  Tie: correspondence of random histories (index-coded, exact) with the
model inside Coq.  Search: "fresh twin" comparison, bit for bit, on real features
for both frame computers; read-only inputs; input arrays unmodified.
"""

import numpy as np

from . import common as C
from . import stft


def gen_history(rng, cfg, max_utts=4):
    ops, base = [], 0
    for u in range(rng.randint(1, max_utts)):
        N = rng.choice(stft.interesting_lengths(cfg) + [rng.randint(0, 4 * cfg[0])] * 2)
        x = list(range(base, base + N))
        base += 1000
        kind = rng.random()
        if kind < 0.55:
            parts = stft.rand_composition(rng, N, rng.choice(["one", "ones", "small", "big", "mix"]))
            p = 0
            for k in parts:
                ops.append(("chunk", x[p:p + k]))
                p += k
                u2 = rng.random()
                if u2 < 0.08:
                    ops.append(("full", x))  # must refuse
                elif u2 < 0.12:
                    ops.append(("fbf", x, rng.choice([1, 3, 1024])))  # must refuse
            if rng.random() < 0.9:
                ops.append(("finalize",))
            if rng.random() < 0.25:
                ops.append(("finalize",))
        elif kind < 0.75:
            ops.append(("full", x))
        elif kind < 0.9:
            ops.append(("fbf", x, rng.choice([1, 2, cfg[1], cfg[0], 5, 1024])))
        else:
            ops.append(("finalize",))
    return ops


def twin_oracle(ctx):
    """After finalize (or a completed compute_full) an instance is indistinguishable
    from a fresh one: bit-identical features, same `started`, same refusals."""
    C.ensure_impl_path()
    from pydrobert.speech import compute, filters

    rng = ctx.rng
    nprng = np.random.RandomState(ctx.seed + 23)
    bad = []

    def mk(kind):
        if kind == "stft":
            bank = rng.choice([lambda: filters.Fbank(num_filts=6, sampling_rate=8000),
                               lambda: filters.GaborFilterBank("mel", num_filts=4, sampling_rate=8000)])
            args = dict(frame_length_ms=rng.choice([5.0, 10.0, 25.0]), frame_shift_ms=rng.choice([2.5, 5.0]),
                        frame_style=rng.choice(["causal", "centered"]), kaldi_shift=rng.random() < 0.4,
                        include_energy=rng.random() < 0.5)
            return lambda: compute.STFTFrameComputer(bank(), **args), args
        bank = rng.choice([lambda: filters.GaborFilterBank("mel", num_filts=4, sampling_rate=8000),
                           lambda: filters.ComplexGammatoneFilterBank("mel", num_filts=4, sampling_rate=8000),
                           lambda: filters.Fbank(num_filts=5, sampling_rate=8000)])
        args = dict(frame_shift_ms=rng.choice([2.5, 5.0, 10.0]), frame_style=rng.choice(["causal", "centered"]),
                    include_energy=rng.random() < 0.5, pad_to_nearest_power_of_two=rng.random() < 0.7)
        return lambda: compute.SIFrameComputer(bank(), **args), args

    def drive(c, script, sig):
        outs = []
        for o in script:
            try:
                if o[0] == "chunk":
                    x = sig[o[1]:o[2]].copy()
                    h = x.tobytes()
                    x.setflags(write=False)
                    r = c.compute_chunk(x)
                    assert x.tobytes() == h, "input modified"
                elif o[0] == "finalize":
                    r = c.finalize()
                elif o[0] == "full":
                    x = sig.copy()
                    h = x.tobytes()
                    x.setflags(write=False)
                    r = c.compute_full(x)
                    assert x.tobytes() == h, "input modified"
                else:
                    x = sig.copy()
                    x.setflags(write=False)
                    r = compute.frame_by_frame_calculation(c, x, o[1])
                outs.append((r.shape, str(r.dtype), r.tobytes(), bool(c.started)))
                try:
                    r[...] = 7.25  # the returned matrix belongs to the caller: scribbling on it must not matter later
                except (ValueError, TypeError):
                    pass
            except ValueError as e:
                outs.append(("ValueError", bool(c.started)))
        return outs

    def rand_script(N, allow_mid=True):
        u = rng.random()
        if u < 0.5:
            parts = stft.rand_composition(rng, N, rng.choice(["one", "small", "mix", "big"]) if N < 300 else "mix")
            s, p = [], 0
            for k in parts:
                s.append(("chunk", p, p + k))
                p += k
                if allow_mid and rng.random() < 0.1:
                    s.append(("full",))
                if allow_mid and rng.random() < 0.05:
                    s.append(("fbf", 64))
            s.append(("finalize",))
            if rng.random() < 0.2:
                s.append(("finalize",))
            return s
        if u < 0.8:
            return [("full",)]
        return [("fbf", rng.choice([1, 17, 1024]))]

    for rep in range(ctx.scale(40, 300)):
        kind = rng.choice(["stft", "si"])
        ctor, args = mk(kind)
        used, fresh = ctor(), None
        Lv = used.frame_length
        hist_desc, refused = [], None
        for u in range(rng.randint(1, 4)):
            N = rng.choice([0, 1, used.frame_shift // 2, Lv // 2, Lv // 2 + 1, Lv, rng.randint(0, 4 * Lv), rng.randint(0, 40)])
            # earlier utterances may have another floating dtype than the next one (a dtype must not stick to the instance)
            hdt = rng.choice(["float64", "float64", "float32", "float16"])
            sig = nprng.randn(N).astype(hdt)
            sc = rand_script(N)
            ho = drive(used, sc, sig)
            ctx.count("twin:history_dtype=" + hdt)
            hist_desc.append(dict(N=N, dtype=hdt, script=[list(o) for o in sc]))
            # an utterance of the history is itself a "next utterance" of what came before it: a fresh
            # instance accepts every compute_chunk / finalize of these scripts (one floating dtype per
            # utterance) and refuses only compute_full / frame_by_frame_calculation mid-utterance, and every
            # script ends with finalize, after which `started` is false
            wrong = [i for i, (o, r) in enumerate(zip(sc, ho))
                     if r[0] == "ValueError" and (o[0] in ("chunk", "finalize") or len(sc) == 1)]
            if wrong or used.started:
                i = wrong[0] if wrong else len(sc) - 1
                refused = dict(kind=kind, args={k: str(v) for k, v in args.items()}, history=hist_desc[:-1],
                               next=hist_desc[-1], first_difference_at_op=i,
                               used=("%s raised ValueError; started=%s afterwards" % (sc[i][0], used.started)) if wrong
                               else "started is still True after the last finalize",
                               fresh="a fresh instance accepts this call and is idle after finalize")
                break
        if refused is not None:
            # reported with the history that led to it; this instance is in no state to go on
            ctx.count("twin:" + kind)
            ctx.case(dict(kind=kind, args=refused["args"], history=refused["history"], next=refused["next"]), nontrivial=True)
            bad.append(refused)
            continue
        N = rng.choice([Lv // 2 + 1, Lv, Lv + 3, rng.randint(0, 5 * Lv)])
        ndt = rng.choice(["float64", "float64", "float64", "float32"])
        sig = nprng.randn(N).astype(ndt)
        sc = rand_script(N)
        a = drive(used, sc, sig)
        fresh = ctor()
        b = drive(fresh, sc, sig)
        ctx.count("twin:" + kind)
        ctx.case(dict(kind=kind, args={k: str(v) for k, v in args.items()}, history=hist_desc, next=dict(N=N, dtype=ndt, script=[list(o) for o in sc])),
                 nontrivial=any(isinstance(o[0], tuple) and o[0][0] > 0 for o in a))
        if a != b:
            first = next(i for i, (p, q) in enumerate(zip(a, b)) if p != q)
            bad.append(dict(kind=kind, args={k: str(v) for k, v in args.items()}, history=hist_desc,
                            next=dict(N=N, dtype=ndt, script=[list(o) for o in sc]), first_difference_at_op=first,
                            used=str(a[first][:2]), fresh=str(b[first][:2])))
    return bad


def run(ctx):
    C.ensure_impl_path()
    stft.regenerate(ctx)
    stft.regenerate_si(ctx)
    pr = C.proof_step(ctx)
    rng = ctx.rng
    cases = []
    for _ in range(ctx.scale(500, 4000)):
        cfg = stft.rand_cfg(rng, maxL=16)
        ops = gen_history(rng, cfg)
        outs, sts, shapes_ok = stft.run_history(cfg, ops)
        kinds = [o[0] for o in ops]
        refused = sum(1 for r in outs if r is None)
        ctx.case(dict(L=cfg[0], S=cfg[1], centered=cfg[2], kaldi_shift=cfg[3], ops=[(o[0], len(o[1]) if len(o) > 1 else None) for o in ops][:30],
                      refused=refused), nontrivial=len(ops) >= 3 and any(r for r in outs if r))
        ctx.count("ops:%d" % min(len(ops), 12))
        ctx.count("refusals:%d" % min(refused, 3))
        for kd in set(kinds):
            ctx.count("has:" + kd)
        if not shapes_ok:
            ctx.fail("returned matrix shape differs from number of frames computed", dict(cfg=cfg, ops=str(ops)[:1500]), kind="impl")
        # the property's `started` clause, directly on the implementation
        st = False
        for o, got, r in zip(ops, sts, outs):
            exp = True if o[0] == "chunk" else False if o[0] == "finalize" else st
            if got != exp or ((o[0] in ("full", "fbf")) and ((r is None) != st)):
                ctx.fail("`started` / refusal behaviour wrong", dict(cfg=cfg, ops=str(ops)[:1500], started_seen=sts, outputs_none=[r is None for r in outs]), kind="impl")
                break
            st = exp
        cases.append((cfg, ops, outs, sts))
    bad = stft.compare_with_model(ctx, cases, "c04")
    tw = twin_oracle(ctx)
    for b in tw[:5]:
        ctx.fail("used instance differs from a fresh one on the next utterance", b, kind="impl")
    if bad:
        k = bad[0]
        rp = dict(correspondence="coq/Stft/Model.v histories vs one ShortTimeFourierTransformFrameComputer instance",
                  cfg=cases[k][0], ops=str(cases[k][1])[:3000], impl_outputs=str(cases[k][2])[:2000],
                  impl_started=cases[k][3], model_outputs=stft.model_output(ctx, cases[k])[:2000], mismatching_cases=len(bad))
        ctx.fail("model and implementation disagree on %d histories" % len(bad), rp, kind="correspondence", no_input=not tw)
    elif bad is not None:
        ctx.cov["traces_validated_against_impl"] += len(cases)
    ctx.cov["rule"] = (
        "random histories (1-4 utterances; chunkings with empty chunks, repeated finalize, finalize on a fresh instance, "
        "too-short utterances, compute_full / frame_by_frame_calculation both idle and mid-utterance) on ONE STFT instance, "
        "index-coded (utterance u carries 1000u+i), outputs/exception/started compared with the Coq model; plus fresh-twin runs on "
        "real STFT and SI computers (tobytes equality). non-trivial = >= 3 operations and at least one frame; distinct by full history."
    )
    ctx.cov["trusted_base"] += [
        "coq/Stft/Model.v (validated by the correspondence); SI computer covered by the fresh-twin comparison only",
        "input arrays are passed read-only and hashed before/after (run-time aliasing fact, not provable in the model)",
    ]
    ctx.assumptions += ["0 < frame_shift <= frame_length; chunk_size > 0 for frame_by_frame_calculation"]
    return C.finish(ctx, "proof")
