"""C05 - filter banks are laid out on the scale as documented, with unit gain.

Tie: translator (gen/banks.py regenerates coq/gen/Banks.v - range tests, vertices /
edges, Gabor sigma, gammatone alpha / c, support half-widths, per-bin values - from
filters.py, util.py, config.py; gen/scales.py regenerates coq/gen/Scales.v) with the
theorems of coq/C05 re-checked against the regenerated text, plus a correspondence:
values observed on the implementation (centers_hz, supports_hz, frequency / impulse
responses, measured ERB / L2 norm, constructor ValueError) are certified against the
model by Interval / lra inside Coq.  Search: direct executable statement of the
property on the implementation.
"""

import json
import math
import os
import re
import sys
import warnings
from fractions import Fraction

from . import common as C

sys.path.insert(0, os.path.join(C.ROOT, "gen"))

TWO_PI = 2 * math.pi


def q(x):
    """Exact rational of a float / int / Fraction as a Coq R term."""
    fr = Fraction(x)
    n, d = fr.numerator, fr.denominator
    s = "(%d)" % n if n < 0 else "%d" % n
    return s if d == 1 else "(%s / %d)" % (s, d)


def b(x):
    return "true" if x else "false"


# --------------------------------------------------------------------------
# regeneration


def regenerate(ctx):
    import banks as gen_banks
    import scales as gen_scales
    from pyexpr import Unsupported

    ok = True
    try:
        gen_scales.main(os.path.join(C.SRC, "scales.py"), os.path.join(C.COQ, "gen", "Scales.v"))
    except (Unsupported, SyntaxError, OSError) as e:
        if not C.tie_fallback(ctx, "translator gen/scales.py no longer recognises scales.py: %s" % e,
                 dict(correspondence="gen/scales.py -> coq/gen/Scales.v", error=str(e)), kind="tie", no_input=True):
            ok = False
    try:
        gen_banks.main(C.SRC, os.path.join(C.COQ, "gen", "Banks.v"))
    except (Unsupported, SyntaxError, OSError, KeyError) as e:
        if not C.tie_fallback(ctx, "translator gen/banks.py no longer recognises filters.py/util.py/config.py: %s" % str(e)[:600],
                 dict(correspondence="gen/banks.py -> coq/gen/Banks.v", error=str(e)[:2000]), kind="tie", no_input=True):
            ok = False
    return ok


# --------------------------------------------------------------------------
# bank configurations

RATES = [8000, 16000, 11025, 22050, 44100, 16000.0, 8001.0]


def scale_of(ctx, name, low):
    """(constructor argument for the implementation, coq h2s, coq s2h, python pair)"""
    r = ctx.rng
    if name == "mel":
        return dict(name="mel", arg="mel", h2s="mel_h2s", s2h="mel_s2h")
    if name == "bark":
        return dict(name="bark", arg="bark", h2s="bark_h2s", s2h="bark_s2h")
    if name == "linear":
        lo = r.choice([0.0, low, 10.0])
        m = r.choice([1.0, 0.5, 2.0, 3.25])
        return dict(name="linear", arg=dict(name="linear", low_hz=lo, slope_hz=m), params=[lo, m],
                    h2s="(linear_h2s %s %s)" % (q(lo), q(m)), s2h="(linear_s2h %s %s)" % (q(lo), q(m)))
    lo = r.choice([low, 20.0, 1.0]) if low > 0 else r.choice([20.0, 1.0])
    return dict(name="octave", arg=dict(name="octave", low_hz=lo), params=[lo],
                h2s="(octave_h2s %s)" % q(lo), s2h="(octave_s2h %s)" % q(lo))


def gen_config(ctx, cls=None, scale=None):
    r = ctx.rng
    cls = cls or r.choice(["tri", "fbank", "gabor", "gammatone"])
    rate = r.choice(RATES)
    nyq = rate / 2
    n = r.choice([1, 2, 3, 5, 8, 11, 20, 40]) if r.random() < 0.8 else r.randint(1, 60)
    sname = "mel" if cls == "fbank" else (scale or r.choice(["mel", "bark", "linear", "octave"]))
    u = r.random()
    if sname == "octave":
        low = r.choice([20.0, 55.0, 1.0, r.uniform(5, 300)])
    else:
        low = 0.0 if u < 0.2 else 20.0 if u < 0.5 else round(r.uniform(0, 500), 3)
    u = r.random()
    if u < 0.25:
        high = None
    elif u < 0.4:
        high = float(math.floor(nyq))
    else:
        high = round(r.uniform(low + 0.2 * (nyq - low), math.floor(nyq)), 3)
    if cls == "tri" and r.random() < 0.15:
        high = nyq + r.choice([0.0, 0.5, 1.0])  # the documented 1 Hz leeway
    cfg = dict(cls=cls, rate=rate, n=n, low=low, high=high, scale=scale_of(ctx, sname, low))
    if cls in ("tri", "fbank"):
        cfg["analytic"] = r.random() < 0.4
    else:
        cfg["l2"] = r.random() < 0.4
        cfg["erb"] = r.random() < 0.5
    if cls == "gammatone":
        cfg["order"] = r.choice([1, 2, 3, 4, 4, 4, 5])
        cfg["mc"] = r.random() < 0.4
    return cfg


SCALE_ATTRS = {"linear": ("low_hz", "slope_hz"), "octave": ("low_hz",)}  # documented public parameters


def gen_scale_history(ctx, cfg):
    """A history for the scaling-function OBJECT handed to the bank: constructed with other parameters, possibly
    used, then its documented public attributes re-assigned to the parameters of cfg["scale"]."""
    r = ctx.rng
    name, new = cfg["scale"]["name"], cfg["scale"]["params"]
    if name == "octave":
        old = [r.choice([x for x in (20.0, 1.0, 55.0, 100.0, 440.0, 27.5) if x != new[0]])]
    else:
        old = [r.choice([x for x in (0.0, 10.0, 40.0, 123.5) if x != new[0]]), r.choice([x for x in (1.0, 0.5, 2.0, 3.25) if x != new[1]])]
        if r.random() < 0.3:
            k = r.randrange(2)
            old[k] = new[k]  # only the other parameter is re-tuned
    return dict(constructed_with=old, used_before_reassignment=r.random() < 0.5)


def retuned_scale(S, cfg):
    """Replay the recorded history of the scaling-function object."""
    name, hist = cfg["scale"]["name"], cfg["scale_history"]
    obj = (S.LinearScaling if name == "linear" else S.OctaveScaling)(*hist["constructed_with"])
    if hist["used_before_reassignment"]:
        obj.scale_to_hertz(obj.hertz_to_scale(1000.0))
    for attr, v in zip(SCALE_ATTRS[name], cfg["scale"]["params"]):
        setattr(obj, attr, v)
    return obj


def build(F, cfg):
    kw = dict(num_filts=cfg["n"], high_hz=cfg["high"], low_hz=cfg["low"], sampling_rate=cfg["rate"])
    arg = cfg["scale"]["arg"]
    if cfg.get("scale_history"):
        arg = retuned_scale(sys.modules[F.ScalingFunction.__module__], cfg)
    if cfg["cls"] == "tri":
        return F.TriangularOverlappingFilterBank(arg, analytic=cfg["analytic"], **kw)
    if cfg["cls"] == "fbank":
        return F.Fbank(analytic=cfg["analytic"], **kw)
    if cfg["cls"] == "gabor":
        return F.GaborFilterBank(arg, scale_l2_norm=cfg["l2"], erb=cfg["erb"], **kw)
    return F.ComplexGammatoneFilterBank(arg, order=cfg["order"], max_centered=cfg["mc"],
                                        scale_l2_norm=cfg["l2"], erb=cfg["erb"], **kw)


def fresh_twin(F, cfg):
    """The same bank on a freshly constructed scale with the same parameters (None if that cannot be built)."""
    twin = {k: v for k, v in cfg.items() if k != "scale_history"}
    with warnings.catch_warnings():
        warnings.simplefilter("ignore")
        try:
            return build(F, twin)
        except Exception:  # noqa: BLE001
            return None


def eff_high(cfg):
    """Effective upper edge as an exact rational (what <cls>_high_none/_some must give)."""
    rate = Fraction(cfg["rate"])
    if cfg["cls"] == "tri":
        return rate / 2 if cfg["high"] is None else min(Fraction(cfg["high"]), rate / 2)
    if cfg["high"] is None or cfg["high"] == 0:
        return Fraction(math.floor(rate / 2))
    return Fraction(cfg["high"])


def pyscale(S, cfg):
    sc = cfg["scale"]
    if sc["name"] == "mel":
        return S.MelScaling()
    if sc["name"] == "bark":
        return S.BarkScaling()
    if sc["name"] == "linear":
        return S.LinearScaling(*sc["params"])
    return S.OctaveScaling(*sc["params"])


def short(cfg):
    d = {k: v for k, v in cfg.items() if k != "scale"}
    d["scale"] = cfg["scale"]["name"]
    if "params" in cfg["scale"]:
        d["scale_params"] = cfg["scale"]["params"]
    return d


# --------------------------------------------------------------------------
# Coq terms for one bank


class Terms:
    def __init__(self, cfg):
        self.cfg = cfg
        sc = cfg["scale"]
        self.he = eff_high(cfg)
        self.lay = "%s %s %d%%nat %s %s" % (sc["h2s"], sc["s2h"], cfg["n"], q(cfg["low"]), q(self.he))
        self.rate = q(cfg["rate"])

    def center(self, i):
        c = self.cfg["cls"]
        if c == "tri":
            return "(tri_center %s %d%%nat)" % (self.lay, i)
        if c == "fbank":
            return "(fbank_vertex %d%%nat %s %s %d%%nat)" % (self.cfg["n"], q(self.cfg["low"]), q(self.he), i + 1)
        return "(%s_center %s %d%%nat)" % (c, self.lay, i)

    def edge(self, i):
        return "(%s_edge %s %d%%nat)" % (self.cfg["cls"], self.lay, i)

    def flags(self, with_l2=True):
        c = self.cfg
        if c["cls"] == "gabor":
            return ("%s %s" % (b(c["l2"]), b(c["erb"]))) if with_l2 else b(c["erb"])
        return ("%s %s %d%%nat" % (b(c["l2"]), b(c["erb"]), c["order"])) if with_l2 else "%s %d%%nat" % (b(c["erb"]), c["order"])

    def support(self, i, end):
        c = self.cfg["cls"]
        if c == "tri":
            return "(tri_support_%s %s %d%%nat)" % ("lo" if end == 0 else "hi", self.lay, i)
        if c == "fbank":
            return "(fbank_vertex %d%%nat %s %s %d%%nat)" % (self.cfg["n"], q(self.cfg["low"]), q(self.he), i + 2 * end)
        return "(%s_self_supports_hz_elt_%d %s %s %s %s)" % (c, end, self.flags(), self.rate, self.edge(i), self.edge(i + 1))

    # Gabor
    def g_std(self, i):
        return "(gabor_self_stds_elt %s %s %s %s)" % (b(self.cfg["erb"]), self.rate, self.edge(i), self.edge(i + 1))

    def g_center_ang(self, i):
        return "(gabor_self_centers_ang_elt %s %s %s)" % (self.rate, self.edge(i), self.edge(i + 1))

    def g_supp_ang(self, i, end):
        return "(gabor_self_supports_ang_elt_%d %s %s %s %s)" % (end, self.flags(), self.rate, self.edge(i), self.edge(i + 1))

    # gammatone
    def t_alpha(self, i):
        return "(gammatone_self_alphas_elt %s %s %s %s)" % (self.flags(False), self.rate, self.edge(i), self.edge(i + 1))

    def t_c(self, i):
        return "(gammatone_self_cs_elt %s %s %s %s)" % (self.flags(), self.rate, self.edge(i), self.edge(i + 1))

    def t_xi(self, i):
        return "(gammatone_self_xis_elt %s %s %s)" % (self.rate, self.edge(i), self.edge(i + 1))

    def t_offset(self, i):
        c = self.cfg
        return "(gammatone_self_offsets_elt %s %s %d%%nat %s %s %s)" % (
            b(c["erb"]), b(c["mc"]), c["order"], self.rate, self.edge(i), self.edge(i + 1))


class Goals:
    """Collects certified-comparison goals; each is (coq text, case dict, weight)."""

    def __init__(self):
        self.items = []

    def near(self, term, v, tol, tactic, case, weight=1, extra_tol=None):
        rhs = q(tol) if extra_tol is None else "(%s + %s)" % (extra_tol, q(tol))
        self.items.append((
            "Goal Rabs (%s - %s) <= %s.\nProof. %s Qed.\n" % (term, q(v), rhs, tactic), case, weight))

    def raw(self, text, case, weight=1):
        self.items.append((text, case, weight))


# --------------------------------------------------------------------------
# python-side measurements used by both the correspondence and the search


def log_interp_peak(H, k):
    """Parabolic interpolation of log|H| around bin k -> (peak value, fractional bin)."""
    import numpy as np

    n = len(H)
    a, c0, c = (math.log(max(H[(k + d) % n], 1e-300)) for d in (-1, 0, 1))
    den = a - 2 * c0 + c
    if den >= 0:
        return H[k], float(k)
    d = 0.5 * (a - c) / den
    return math.exp(c0 - 0.25 * (a - c) * d), k + d


def value_at(H, rate, hz):
    """log-quadratic interpolation of a magnitude response at frequency hz (exact for a Gaussian)."""
    n = len(H)
    x = hz * n / rate
    k = int(round(x))
    a, c0, c = (math.log(max(H[(k + d) % n], 1e-300)) for d in (-1, 0, 1))
    t = x - k
    return math.exp(c0 + 0.5 * (c - a) * t + 0.5 * (a - 2 * c0 + c) * t * t)


def expected_layout(S, cfg):
    """The documented layout, computed independently of filters.py (floats)."""
    sc = pyscale(S, cfg)
    he = float(eff_high(cfg))
    sl, sh = float(sc.hertz_to_scale(cfg["low"])), float(sc.hertz_to_scale(he))
    d = (sh - sl) / (cfg["n"] + 1)
    if cfg["cls"] in ("tri", "fbank"):
        v = [float(sc.scale_to_hertz(sl + d * i)) for i in range(cfg["n"] + 2)]
        return dict(vertices=v, centers=v[1:-1], edges=None, delta=d, sl=sl)
    e = [float(sc.scale_to_hertz(sl + d * (i + 0.5))) for i in range(cfg["n"] + 1)]
    return dict(edges=e, centers=[(a + c) / 2 for a, c in zip(e[:-1], e[1:])], delta=d, sl=sl)


def documented_span(cfg, bw_hz):
    """Width (Hz) of the region where the documented unit-gain response exceeds the support threshold."""
    eps = 5e-4
    if cfg["cls"] == "gabor":
        B = math.sqrt(math.pi) / 2 if cfg["erb"] else math.sqrt(0.3 * math.log(10))
        # sigma (in 1/Hz units) = B / (bw/2); half-width = sqrt(-2 ln eps) / sigma
        return 2 * math.sqrt(-2 * math.log(eps)) * (bw_hz / 2) / B
    n = cfg["order"]
    if cfg["erb"]:
        a = bw_hz * 2 ** (2 * n - 1) * math.factorial(n - 1) ** 2 / (math.factorial(2 * n - 2) * 2 * math.pi)
    else:
        a = bw_hz / (2 * math.sqrt(2 ** (1 / n) - 1))
    return 2 * a * math.sqrt(eps ** (-2 / n) - 1)


def is_valid(cfg):
    he = eff_high(cfg)
    if not (0 <= cfg["low"] < he <= Fraction(cfg["rate"]) / 2):
        return False
    if cfg["scale"]["name"] == "octave" and cfg["low"] <= 0:
        return False
    return True


# --------------------------------------------------------------------------
# the search: direct statement of the property on the implementation


def check_bank(ctx, F, S, np, cfg, bad, deep=True):
    """Evaluate the property clauses on one bank of the implementation."""

    def chk(name, cond, **detail):
        if not cond:
            bad.append((name, dict(config=short(cfg), **detail)))
        return cond

    with warnings.catch_warnings():
        warnings.simplefilter("ignore")
        try:
            bank = build(F, cfg)
        except ValueError as e:
            if cfg.get("scale_history") and fresh_twin(F, cfg) is not None:
                chk("retuned_scale_like_fresh", False, error="%s: %s (the bank on a fresh scale with these parameters is built)" % (type(e).__name__, e))
                return None
            if "NaN" in str(e) and cfg["cls"] in ("gabor", "gammatone"):
                # a filter so narrow-band that its impulse response never exceeds the support threshold:
                # the temporal support (C07's subject) is sqrt(negative); the bank cannot be built
                ctx.count("bank:not-constructible-nan-temporal-support")
                return None
            chk("constructible", False, error="%s: %s" % (type(e).__name__, e))
            return None
        except Exception as e:  # noqa: BLE001
            chk("constructible", False, error="%s: %s" % (type(e).__name__, e))
            return None
    rate, n = cfg["rate"], cfg["n"]
    cen, sup = [float(x) for x in bank.centers_hz], [(float(a), float(c)) for a, c in bank.supports_hz]
    # what a property getter hands out belongs to the caller (e.g. centres converted to kHz in place): scribbling on it
    # must not change the bank
    for getter in ("centers_hz", "supports_hz", "supports"):
        try:
            handed = np.asarray(getattr(bank, getter))
            if handed.dtype.kind in "fiu" and handed.size and handed.flags.writeable:
                handed *= 0
                handed += 7
        except (TypeError, ValueError, AttributeError):
            pass
    cen2, sup2 = [float(x) for x in bank.centers_hz], [(float(a), float(c)) for a, c in bank.supports_hz]
    chk("getters_hand_out_copies", cen2 == cen and sup2 == sup, centres_first_read=cen[:4], centres_after_caller_wrote=cen2[:4])
    chk("num_filts", bank.num_filts == n == len(cen) == len(sup), got=bank.num_filts)
    lay = expected_layout(S, cfg)
    tol = lambda x: 1e-9 * max(1.0, abs(x))  # noqa: E731
    if cfg.get("scale_history"):
        # the scaling-function object was re-tuned through its documented public attributes before the bank was
        # built: the bank is laid out like the one on a freshly constructed scale with the current parameters
        ctx.count("bank:retuned-scale-object:%s:%s" % (cfg["cls"], cfg["scale"]["name"]))
        twin = fresh_twin(F, cfg)
        if twin is not None:
            tc, ts_ = [float(x) for x in twin.centers_hz], [(float(a), float(c)) for a, c in twin.supports_hz]
            same = len(tc) == len(cen) and len(ts_) == len(sup)
            worst = None
            if same:
                for i in range(len(cen)):
                    for got, want in ((cen[i], tc[i]), (sup[i][0], ts_[i][0]), (sup[i][1], ts_[i][1])):
                        if not abs(got - want) <= tol(want):
                            same, worst = False, worst or dict(filt=i, got=got, on_fresh_scale=want)
            chk("retuned_scale_like_fresh", same, centres=cen[:4], centres_on_fresh_scale=tc[:4], first_difference=worst)
    for i in range(n):
        chk("centre_on_scale", abs(cen[i] - lay["centers"][i]) <= tol(cen[i]), filt=i, centre=cen[i], documented=lay["centers"][i])
        chk("centre_in_support", sup[i][0] < cen[i] < sup[i][1], filt=i, centre=cen[i], support=sup[i])
        if i:
            chk("centres_increasing", cen[i - 1] < cen[i], filt=i, prev=cen[i - 1], centre=cen[i])
    sc = pyscale(S, cfg)
    if cfg["cls"] in ("tri", "fbank"):
        v = [sup[0][0]] + cen + [sup[-1][1]]
        chk("first_vertex_is_low", abs(v[0] - cfg["low"]) <= tol(v[0]), got=v[0])
        chk("last_vertex_is_high", abs(v[-1] - float(eff_high(cfg))) <= tol(v[-1]), got=v[-1], want=float(eff_high(cfg)))
        sv = [float(sc.hertz_to_scale(x)) for x in v]
        for i in range(len(v) - 1):
            chk("equally_spaced", abs((sv[i + 1] - sv[i]) - lay["delta"]) <= 1e-9 * max(1.0, abs(lay["delta"]), abs(sv[i + 1])),
                vertex=i, step=sv[i + 1] - sv[i], delta=lay["delta"])
        for i in range(n):
            chk("supports_are_vertices", abs(sup[i][0] - v[i]) <= tol(v[i]) and abs(sup[i][1] - v[i + 2]) <= tol(v[i + 2]), filt=i)
    else:
        # edges recovered from the centres: e_0 documented, e_{i+1} = 2 c_i - e_i
        e = lay["edges"][0]
        for i in range(n):
            e = 2 * cen[i] - e
            s = float(sc.hertz_to_scale(e))
            want = lay["sl"] + lay["delta"] * (i + 1.5)
            chk("equally_spaced", abs(s - want) <= 1e-7 * max(1.0, abs(want)), edge=i + 1, scale_value=s, documented=want)
    if not deep:
        return bank
    r = ctx.rng
    idxs = sorted(set([0, n - 1, r.randrange(n)]))
    for i in idxs:
        span = sup[i][1] - sup[i][0]
        narrow = span < rate / 2
        if cfg["cls"] in ("gabor", "gammatone"):
            # also judged by the DOCUMENTED support width (peak-normalised formulas), so that a bank whose
            # reported supports_hz is itself wrong cannot exempt itself from the gain / ERB / L2 clauses
            narrow = narrow or documented_span(cfg, lay["edges"][i + 1] - lay["edges"][i]) < rate / 2
        ctx.count("search:%s:%s" % (cfg["cls"], "narrow" if narrow else "wide"))
        if cfg["cls"] in ("tri", "fbank"):
            check_triangle(ctx, np, S, cfg, bank, i, [sup[i][0], cen[i], sup[i][1]], chk)
            continue
        if not narrow:
            continue
        e_l, e_r = lay["edges"][i], lay["edges"][i + 1]
        bw = e_r - e_l
        W, cap = (1 << 12, 1 << 14) if cfg["cls"] == "gabor" else (1 << 15, 1 << 21)
        while bw * W / rate < 16 and W < cap:
            W *= 2
        if bw * W / rate < 16:
            ctx.count("search:unresolved-narrow-filter")
            continue
        with warnings.catch_warnings():
            warnings.simplefilter("ignore")
            H = np.abs(bank.get_frequency_response(i, W))
        if not chk("finite_response", bool(np.all(np.isfinite(H))), filt=i):
            continue
        k = int(np.argmax(H))
        pk, kf = log_interp_peak(H, k)
        fpk = kf * rate / W
        chk("peak_at_centre", abs(fpk - cen[i]) <= max(0.02 * bw, 1.5 * rate / W), filt=i, peak_hz=fpk, centre=cen[i])
        l2 = cfg["l2"]
        if not l2:
            chk("unit_gain", abs(pk - 1.0) <= 2e-3, filt=i, gain=pk)
        erb_meas = float((H ** 2).sum() * rate / W / pk ** 2)
        if cfg["erb"]:
            chk("erb_is_edge_spacing", abs(erb_meas - bw) <= 5e-3 * bw, filt=i, erb=erb_meas, edge_spacing=bw)
        else:
            lvl = 10 ** (-3 / 20) if cfg["cls"] == "gabor" else math.sqrt(0.5)
            for edge in (e_l, e_r):
                if 0 < edge < rate / 2:
                    v = value_at(H, rate, edge) / pk
                    chk("crosses_at_3dB", abs(20 * math.log10(v) - 20 * math.log10(lvl)) <= 0.05, filt=i, edge=edge,
                        level_db=20 * math.log10(v))
        if l2:
            ts = bank.supports[i]
            wt = int(min(max(4 * (ts[1] - ts[0]), 64), 1 << 17))
            if wt >= 2 * (ts[1] - ts[0]):
                with warnings.catch_warnings():
                    warnings.simplefilter("ignore")
                    h = bank.get_impulse_response(i, wt)
                nrm = float(np.sqrt((np.abs(h) ** 2).sum()))
                chk("unit_l2_norm", abs(nrm - 1.0) <= 2e-3, filt=i, l2_norm=nrm, width=wt)
    return bank


def check_triangle(ctx, np, S, cfg, bank, i, v, chk):
    """Every bin of get_frequency_response equals the documented triangle."""
    r = ctx.rng
    rate = cfg["rate"]
    mel = S.MelScaling()
    widths = sorted(set([r.choice([8, 9, 16, 31, 64, 100]), r.choice([255, 256, 512, 1000, 1023]), r.randint(2, 2048)]))
    # the same bank object is then asked for a width whose full response has as many bins as the half response it
    # has just returned (same array size, other bin frequencies): its answer must not depend on earlier questions
    wl = widths[-1]
    widths.append(wl // 2 + 1 if wl % 2 == 0 else (wl + 1) // 2)
    for width in widths:
        if width < 2:
            continue
        for half in ((False, True) if r.random() < 0.5 else (True, False)):
            with warnings.catch_warnings():
                warnings.simplefilter("ignore")
                try:
                    res = bank.get_frequency_response(i, width, half=half)
                except Exception as e:  # noqa: BLE001
                    chk("response_computable", False, filt=i, width=width, half=half, error="%s: %s" % (type(e).__name__, e))
                    continue
            ds = (width + 1) // 2 if (half and width % 2) else (width // 2 + 1 if half else width)
            if not chk("response_length", len(res) == ds, filt=i, width=width, half=half, got=len(res)):
                continue
            folded = (not half) and (not cfg["analytic"])
            ks = np.arange(ds)
            kk = np.minimum(ks, width - ks) if folded else ks
            hz = rate * kk / width
            if cfg["cls"] == "tri":
                want = np.maximum(0, np.minimum((hz - v[0]) / (v[1] - v[0]), (v[2] - hz) / (v[2] - v[1])))
                err = np.abs(res - want)
                lim = 1e-9
            else:
                m = [float(mel.hertz_to_scale(x)) for x in v]
                mh = mel.hertz_to_scale(hz)
                want = np.maximum(0, np.minimum((mh - m[0]) / (m[1] - m[0]), (m[2] - mh) / (m[2] - m[1])))
                err = np.abs(res ** 2 - want)
                lim = 1e-9
            worst = int(np.argmax(np.where(np.isfinite(err), err, np.inf)))
            chk("response_is_triangle", bool(np.all(err <= lim)), filt=i, width=width, half=half, bin=worst,
                got=float(res[worst]), documented=float(want[worst]) if cfg["cls"] == "tri" else float(want[worst]) ** 0.5)
            ctx.count("search:bins", int(ds))


def gen_range(ctx):
    r = ctx.rng
    rate = r.choice(RATES)
    nyq = rate / 2
    u = r.random()
    low = r.choice([-1.0, -1e-9, -20.0]) if u < 0.2 else r.choice([0.0, 20.0, round(r.uniform(0, nyq), 2)])
    u = r.random()
    fl = float(math.floor(nyq))
    if u < 0.1:
        high = None
    elif u < 0.45:
        high = r.choice([nyq, nyq + 0.5, nyq + 1.0, nyq + 1.5, nyq + 1.0000001, nyq + 2, fl, fl + 0.25, fl + 1, 2 * nyq])
    elif u < 0.6:
        high = r.choice([low, low - 1.0, max(low, 0) / 2, low + 1e-9]) if low > 0 else r.choice([low, 1e-3, -5.0])
    else:
        high = round(r.uniform(0.1, nyq + 3), 3)
    return dict(cls=r.choice(["tri", "fbank", "gabor", "gammatone"]), low=low, high=high, rate=rate)


def run_range(F, g):
    kw = dict(num_filts=3, low_hz=g["low"], high_hz=g["high"], sampling_rate=g["rate"])
    with warnings.catch_warnings():
        warnings.simplefilter("ignore")
        try:
            if g["cls"] == "tri":
                F.TriangularOverlappingFilterBank("mel", **kw)
            elif g["cls"] == "fbank":
                F.Fbank(**kw)
            elif g["cls"] == "gabor":
                F.GaborFilterBank("mel", **kw)
            else:
                F.ComplexGammatoneFilterBank("mel", **kw)
            return "accept"
        except ValueError as e:
            return "reject" if "Invalid frequency range" in str(e) else "other:ValueError:%s" % e
        except Exception as e:  # noqa: BLE001
            return "other:%s" % type(e).__name__


def must_reject(g):
    low, high, rate = g["low"], g["high"], g["rate"]
    if low < 0:
        return True
    return high is not None and high > 0 and (high <= low or high > rate / 2 + 1)


# --------------------------------------------------------------------------
# correspondence goals


def unfold_tactic():
    names = []
    for f in ("Banks.v", "Scales.v"):
        names += re.findall(r"^Definition (\w+)", open(os.path.join(C.COQ, "gen", f)).read(), re.M)
    names = [x for x in names if not x.endswith("_rejects") and "_rejects_" not in x]
    names += ["tri_vertex", "tri_center", "tri_support_lo", "tri_support_hi", "gabor_edge", "gabor_center",
              "gammatone_edge", "gammatone_center", "fbank_vertex", "gabor_image", "gabor_ir_abs", "gauss_integral",
              "gabor_erb_ang", "gabor_l2sq_time", "gabor_l2sq_freq", "gammatone_H_abs", "gammatone_h_abs",
              "gammatone_erb_ang", "gammatone_l2sq", "Nat.mul", "Nat.add", "Nat.sub", "fact"]
    return "Ltac c05_unfold := cbv beta iota zeta delta [%s].\n" % " ".join(names)


REQ = (
    "From Coq Require Import Reals ZArith Lra Lia Bool.\nFrom Interval Require Import Tactic.\n"
    "From Flocq Require Import Core.Raux.\n"
    "From Verif Require Import gen.Scales gen.Banks C05.Model C05.Proofs C05.Gabor C05.Gammatone C05.Response lib.Cert lib.C05_Cert.\n"
    "Open Scope R_scope.\n"
)
CERT = "c05_unfold; c05_cert."


def bank_goals(ctx, F, S, np, cfg, bank, G):
    """Certified comparisons of one implementation bank against the model."""
    r = ctx.rng
    T = Terms(cfg)
    n, rate, cls = cfg["n"], cfg["rate"], cfg["cls"]
    cen = [float(x) for x in bank.centers_hz]
    sup = [(float(a), float(c)) for a, c in bank.supports_hz]
    tol = lambda x: 1e-9 * max(1.0, abs(x))  # noqa: E731
    base = dict(config=short(cfg))
    heavy = cfg["scale"]["name"] == "bark" and cls in ("gabor", "gammatone")
    idxs = sorted(set([0, n - 1, r.randrange(n)]))
    if not ctx.thorough:
        idxs = sorted(set([r.choice([0, n - 1]), r.randrange(n)]))
    if heavy:
        idxs = idxs[:1]
    # effective upper edge (default / clipping logic of the constructor)
    mode = "none" if cfg["high"] is None else "some"
    pre = {"tri": "tri", "fbank": "fbank", "gabor": "gabor", "gammatone": "gammatone"}[cls]
    if mode == "some":
        args = ("%s %s" % (q(cfg["high"]), q(rate))) if cls == "tri" else q(cfg["high"])
    else:
        args = q(rate)
    fl = math.floor(Fraction(rate) / 2)
    G.raw("Goal %s_high_%s %s = %s.\nProof. cbv beta iota zeta delta [%s_high_%s]; c05_floor (%d)%%Z; simpl IZR; "
          "try (unfold Rmin; destruct (Rle_dec _ _)); lra. Qed.\n" % (pre, mode, args, q(T.he), pre, mode, fl),
          dict(kind="effective_high", value=float(T.he), **base))
    for i in idxs:
        G.near(T.center(i), cen[i], tol(cen[i]), CERT, dict(kind="center", filt=i, value=cen[i], **base), 9 if heavy else 1)
        for end in (0, 1):
            if heavy and (end or not ctx.thorough):
                continue
            G.near(T.support(i, end), sup[i][end], tol(sup[i][end]), CERT,
                   dict(kind="support", filt=i, end=end, value=sup[i][end], **base), 30 if heavy else 1)
    if heavy:
        return
    i = r.choice(idxs)
    span = sup[i][1] - sup[i][0]
    if cls in ("tri", "fbank"):
        l, m, rr = sup[i][0], cen[i], sup[i][1]
        if not (0 <= l < m < rr <= rate / 2):
            return
        for _ in range(2):
            width = r.choice([8, 9, 16, 31, 64, 100, 255, 256, 512, 1000, r.randint(2, 1500)])
            half = r.random() < 0.4
            with warnings.catch_warnings():
                warnings.simplefilter("ignore")
                res = bank.get_frequency_response(i, width, half=half)
            ds = len(res)
            li, ri = math.ceil(Fraction(width) * Fraction(l) / Fraction(rate)), math.floor(Fraction(width) * Fraction(rr) / Fraction(rate))
            cand = [0, ds - 1, li, li - 1, ri, ri + 1, (li + ri) // 2, round(m * width / rate), width - li, width - ri, width - (li + ri) // 2,
                    r.randrange(ds)]
            ks = sorted(set(k for k in cand if 0 <= k < ds))
            for k in r.sample(ks, min(4, len(ks))):
                v = float(res[k])
                if not math.isfinite(v):
                    continue  # reported by the search
                term = "%s_freq_resp %s %s %s %s %s %s (%d)%%Z (%d)%%Z" % (
                    "tri" if cls == "tri" else "fbank", b(cfg["analytic"]), b(half), q(rate), q(l), q(m), q(rr), width, k)
                case = dict(kind="response", filt=i, width=width, half=half, bin=k, value=v, **base)
                if cls == "tri":
                    G.near("(%s)" % term, v, 1e-9, "c05_tri; unfold Rmax, Rmin; c05_cert.", case)
                else:
                    G.near("(%s) ^ 2" % term, v * v, 1e-9, "c05_fbank; unfold mel_h2s, Rmax, Rmin; c05_cert.", case)
        return
    if cls == "gabor":
        std, cang = T.g_std(i), T.g_center_ang(i)
        lo_a, hi_a = sup[i][0] * TWO_PI / rate, sup[i][1] * TWO_PI / rate
        if -TWO_PI * 0.999 < lo_a and 0 <= hi_a < TWO_PI * 0.999:
            width = r.choice([16, 64, 100, 255, 256, 1000])
            with warnings.catch_warnings():
                warnings.simplefilter("ignore")
                res = bank.get_frequency_response(i, width)
            kc = int(round(cen[i] * width / rate)) % width
            for k in sorted(set([kc, (kc + 1) % width, (kc - 2) % width, r.randrange(width)]))[:ctx.scale(2, 3)]:
                v = float(res[k])
                term = "(gabor_freq_resp %s %s %s %s %s (%d)%%Z (%d)%%Z)" % (
                    b(cfg["l2"]), std, cang, T.g_supp_ang(i, 0), T.g_supp_ang(i, 1), width, k)
                tac = ("rewrite gabor_freq_resp_three_images_l; [ c05_unfold; c05_cert | c05_unfold; c05_cert "
                       "| split; c05_unfold; c05_cert ].")
                G.near(term, v, 1e-9 * max(1.0, abs(v)), tac, dict(kind="gabor_fr", filt=i, width=width, bin=k, value=v, **base), 3)
        ts = bank.supports[i]
        wt = int(4 * (ts[1] - ts[0]) + 8)
        if wt <= 1 << 15:
            with warnings.catch_warnings():
                warnings.simplefilter("ignore")
                h = bank.get_impulse_response(i, wt)
            pk = float(np.max(np.abs(h)))
            for t in sorted(set([0, 1, r.randint(0, max(1, ts[1] // 2)), ts[1]])):
                v = float(abs(h[t]))
                # res[t] = val(t) + conj(val(width - t)): the second image bounds the difference
                G.near("(gabor_ir_abs %s %s %s)" % (b(cfg["l2"]), std, q(t)), v, 1e-9 * pk, CERT,
                       dict(kind="gabor_ir", filt=i, width=wt, t=t, value=v, **base),
                       extra_tol="(gabor_ir_abs %s %s %s)" % (b(cfg["l2"]), std, q(wt - t)))
        if span < rate / 2:
            measure_goals(ctx, np, cfg, bank, T, G, i, base)
        return
    # gammatone
    order = cfg["order"]
    alpha, cc, xi, off = T.t_alpha(i), T.t_c(i), T.t_xi(i), T.t_offset(i)
    ts = bank.supports[i]
    wt = int(4 * (ts[1] - ts[0]) + 8)
    if wt <= 1 << 16:
        with warnings.catch_warnings():
            warnings.simplefilter("ignore")
            h = bank.get_impulse_response(i, wt)
        pk = float(np.max(np.abs(h)))
        cand = [1, 2, r.randint(1, max(2, ts[1] // 3)), max(1, ts[1] // 2)]
        if cfg["mc"] and ts[0] < -1:
            cand += [0, -1, ts[0] // 2]
        hab = lambda t: "(gammatone_h_abs %s %s %d%%nat %s %s)" % (cc, alpha, order, off, q(t))  # noqa: E731
        for t in sorted(set(cand))[:3]:
            v = float(abs(h[t % wt]))
            # res[idx] = sum over periods of h(idx + p width): the neighbouring periods bound the difference
            G.near(hab(t), v, 1e-9 * pk + 1e-300, "c05_unfold; unfold Rminus; c05_cert.",
                   dict(kind="gammatone_ir", filt=i, width=wt, t=t, value=v, **base), 3,
                   extra_tol="(%s + %s)" % (hab(t - wt), hab(t + wt)))
    width = r.choice([64, 256, 1000, 4096])
    with warnings.catch_warnings():
        warnings.simplefilter("ignore")
        res = bank.get_frequency_response(i, width)
    kc = int(round(cen[i] * width / rate)) % width
    # the implementation sums periods floor(left/2pi) .. ceil(right/2pi); a superset is sound here
    xl, xr = sup[i][0] / rate, sup[i][1] / rate
    lp = math.floor(xl) - (1 if xl - math.floor(xl) < 1e-9 else 0)
    rp = math.ceil(xr) + (1 if math.ceil(xr) - xr < 1e-9 else 0)
    if rp - lp <= 4:
        for k in sorted(set([kc, r.randrange(width)]))[:ctx.scale(1, 2)]:
            v = float(abs(res[k]))
            if not math.isfinite(v):
                continue
            om = lambda p: "((%s + %d) * 2 * PI)" % (q(Fraction(k, width)), p)  # noqa: E731
            Hh = lambda p: "(gammatone_H_abs %s %s %s %d%%nat %s)" % (cc, alpha, xi, order, om(p))  # noqa: E731
            others = " + ".join(Hh(p) for p in range(lp, rp + 1) if p != 0)
            G.near(Hh(0), v, 1e-9 * max(1.0, v), CERT, dict(kind="gammatone_fr", filt=i, width=width, bin=k, value=v,
                                                             periods=[lp, rp], **base), 3, extra_tol="(%s)" % others)
    if span < rate / 2:
        measure_goals(ctx, np, cfg, bank, T, G, i, base)


def measure_goals(ctx, np, cfg, bank, T, G, i, base):
    """ERB and L2 norm measured numerically on the implementation vs the closed forms of
    the model (which the ERB / L2 theorems are about)."""
    rate, cls = cfg["rate"], cfg["cls"]
    W = 1 << 12 if cls == "gabor" else 1 << 15
    with warnings.catch_warnings():
        warnings.simplefilter("ignore")
        H = np.abs(bank.get_frequency_response(i, W))
    if not np.all(np.isfinite(H)):
        return
    k = int(np.argmax(H))
    pk, _ = log_interp_peak(H, k)
    erb = float((H ** 2).sum() * rate / W / pk ** 2)
    if erb < 30 * rate / W:
        return  # too narrow for this grid to integrate
    l2sq = float((H ** 2).sum() / W)  # Parseval: sum |h[t]|^2 = (1/W) sum |H[k]|^2
    if cls == "gabor":
        erb_t = "(angular_to_hertz (gabor_erb_ang %s %s) %s)" % (b(cfg["l2"]), T.g_std(i), T.rate)
        l2_t = "(gabor_l2sq_freq %s %s)" % (b(cfg["l2"]), T.g_std(i))
    else:
        erb_t = "(angular_to_hertz (gammatone_erb_ang %s %d%%nat) %s)" % (T.t_alpha(i), cfg["order"], T.rate)
        l2_t = "(gammatone_l2sq %s %s %d%%nat)" % (T.t_c(i), T.t_alpha(i), cfg["order"])
    G.near(erb_t, erb, 5e-3 * erb, CERT, dict(kind="erb_measured", filt=i, value=erb, **base), 2)
    G.near(l2_t, l2sq, 5e-3 * l2sq, CERT, dict(kind="l2sq_measured", filt=i, value=l2sq, **base), 2)


def guard_goal(g, outcome):
    cls, low, high, rate = g["cls"], g["low"], g["high"], g["rate"]
    fl = math.floor(Fraction(rate) / 2)
    if high is None:
        args = "%s %s" % (q(low), q(rate)) if cls == "tri" else q(low)
        term = "%s_rejects_none %s" % (cls, args)
    else:
        term = "%s_rejects_some %s %s %s" % (cls, q(low), q(high), q(rate))
    prop = term if outcome == "reject" else "~ %s" % term
    return "Goal %s.\nProof. c05_guard (%d)%%Z. Qed.\n" % (prop, fl)


# --------------------------------------------------------------------------


def run(ctx):
    C.ensure_impl_path()
    import importlib

    import numpy as np

    F = importlib.import_module("pydrobert.speech.filters")
    S = importlib.import_module("pydrobert.speech.scales")
    ok_gen = regenerate(ctx)
    pr = C.proof_step(ctx) if ok_gen else None
    ctx.cov["trusted_base"] += [
        "translators /verif/gen/banks.py, gen/scales.py, gen/pyexpr.py (Python ast -> R terms; statements they do not "
        "translate are pinned by AST comparison and modelled by hand in coq/C05/Model.v)",
        "Interval 4 (interval tactic) and Flocq's Zfloor/Zceil/Ztrunc for numeric certification",
        "closed forms taken as definitions: Gaussian integral sqrt(pi/a); gammatone ERB and L2 integrals "
        "(proved in coq/C05/Integrals.v where stated there)",
    ]
    bad = []
    G = Goals()
    # ---- banks: search on every one, certified comparison on a subset
    nb = ctx.scale(70, 700)
    ncert = ctx.scale(28, 300)
    classes = ["tri", "fbank", "gabor", "gammatone"]
    scales = ["mel", "bark", "linear", "octave"]
    for j in range(nb):
        cfg = gen_config(ctx, cls=classes[j % 4], scale=scales[(j // 4) % 4] if j < 32 else None)
        if not is_valid(cfg):
            ctx.count("bank:degenerate-range-skipped")
            continue
        ctx.count("bank:%s:%s" % (cfg["cls"], cfg["scale"]["name"]))
        if cfg["scale"]["name"] in SCALE_ATTRS and cfg["cls"] != "fbank" and ctx.rng.random() < 0.5:
            cfg["scale_history"] = gen_scale_history(ctx, cfg)
        if ctx.rng.random() < 0.5:
            # a sibling bank built just before, in the same process, from the same arguments except one (another
            # sampling rate, another number of filters, another lower edge): a bank's layout depends on its OWN arguments
            sib = dict(cfg)
            which = ctx.rng.choice(["rate", "rate", "n", "low"])
            if which == "rate":
                sib["rate"] = ctx.rng.choice([r_ for r_ in RATES if r_ != cfg["rate"]])
            elif which == "n":
                sib["n"] = cfg["n"] + ctx.rng.choice([1, 2])
            else:
                sib["low"] = cfg["low"] + 7.5
            try:
                with warnings.catch_warnings():
                    warnings.simplefilter("ignore")
                    sb = build(F, sib)
                    sb.centers_hz, sb.supports_hz
                    sb.get_frequency_response(0, 64)
                ctx.count("bank:sibling-built-before:" + which)
                cfg["built_just_before"] = {which: sib[which]}
            except Exception:  # noqa: BLE001
                pass
        bank = check_bank(ctx, F, S, np, cfg, bad, deep=True)
        if bank is not None and j < ncert and ok_gen:
            try:
                bank_goals(ctx, F, S, np, cfg, bank, G)
            except Exception as e:  # noqa: BLE001
                bad.append(("observation_failed", dict(config=short(cfg), error="%s: %s" % (type(e).__name__, e))))
    # corner configurations that random choice reaches too rarely: every gammatone order
    # 1..3 x {causal, max_centered} with unit L2 norm (order 1 has a non-vanishing onset)
    for order in (1, 2, 3):
        for mc in (False, True):
            cfg = gen_config(ctx, cls="gammatone", scale="mel")
            cfg.update(order=order, mc=mc, l2=True, erb=bool(order % 2), n=5, low=20.0, high=None, scale=scale_of(ctx, "mel", 20.0))
            if is_valid(cfg):
                ctx.count("bank:corner-gammatone-order%d" % order)
                check_bank(ctx, F, S, np, cfg, bad, deep=True)
    # every class on every scale from the scale's lowest usable edge (0 Hz; the octave scale's own low_hz): the scales'
    # end corrections (e.g. Bark is negative below ~13 Hz) must carry over to the layout
    for cls in classes:
        for sname in scales:
            if cls == "fbank" and sname != "mel":
                continue
            cfg = gen_config(ctx, cls=cls, scale=sname)
            if sname != "octave":
                cfg.update(low=0.0, scale=scale_of(ctx, sname, 0.0))
            cfg.update(high=None)
            if is_valid(cfg):
                ctx.count("bank:corner-lowest-edge:%s" % sname)
                check_bank(ctx, F, S, np, cfg, bad, deep=True)
    # every class on a linear / octave scaling-function object whose documented public parameters were re-assigned
    # after construction (one object re-used while sweeping low_hz / slope_hz)
    for cls in classes:
        for sname in SCALE_ATTRS:
            if cls == "fbank":
                continue
            for _ in range(ctx.scale(2, 6)):
                cfg = gen_config(ctx, cls=cls, scale=sname)
                if is_valid(cfg):
                    cfg["scale_history"] = gen_scale_history(ctx, cfg)
                    check_bank(ctx, F, S, np, cfg, bad, deep=False)
    ctx.log("searched %d banks, %d certification goals so far" % (nb, len(G.items)))
    # ---- range test
    ranges = []
    for cls in classes:  # boundary cases, every class
        for rate in (16000, 8001.0):
            nyq = rate / 2
            for high in (nyq, nyq + 1, nyq + 1.5, float(math.floor(nyq)), math.floor(nyq) + 0.5, 20.0, 10.0, -3.0):
                ranges.append(dict(cls=cls, low=20.0, high=high, rate=rate))
            ranges.append(dict(cls=cls, low=-0.5, high=None, rate=rate))
            ranges.append(dict(cls=cls, low=-0.5, high=100.0, rate=rate))
    # regression of a repaired defect (/repo 82a0881): the triangular bank's 1 Hz leeway admitted a lower edge
    # above the Nyquist frequency (the clipped upper edge then lay below it and the centres came out decreasing)
    ranges += [dict(cls="tri", low=8000.5, high=8000.9, rate=16000), dict(cls="tri", low=8000.0, high=8001.0, rate=16000),
               dict(cls="tri", low=4000.75, high=4001.2, rate=8001.0), dict(cls="tri", low=8000.5, high=None, rate=16000)]
    ranges += [gen_range(ctx) for _ in range(ctx.scale(240, 2400))]  # fixed boundary / regression cases come first
    nguard = 0
    known_typeerror = []
    leeway_inverted = []
    for g in ranges:
        out = run_range(F, g)
        ctx.count("range:%s:%s" % (g["cls"], out.split(":")[0]))
        if g["cls"] == "tri" and g["low"] >= g["rate"] / 2 and out != "reject":
            leeway_inverted.append(dict(range=g, outcome=out))
        if must_reject(g) and out != "reject":
            if out == "other:TypeError" and g["cls"] != "tri" and g["high"] is None and g["low"] < 0:
                # finding: the message formats high_hz=None with {:.2f} before the default is applied
                known_typeerror.append(dict(range=g, outcome=out))
            else:
                bad.append(("range_not_rejected", dict(range=g, outcome=out)))
        if out.startswith("other") and not must_reject(g) and g["high"] is not None and g["low"] >= 0 \
                and g["high"] - g["low"] >= 50 and g["high"] <= math.floor(g["rate"] / 2):
            # (very narrow Gabor / gammatone ranges overflow to NaN: not "constructible", not judged)
            bad.append(("valid_range_failed", dict(range=g, outcome=out)))
        if out in ("accept", "reject"):
            exp = out
            if nguard < ctx.scale(120, 1500) and ok_gen:
                G.raw(guard_goal(g, exp), dict(kind="range", range=g, outcome=exp))
                nguard += 1
    ctx.cov["rule"] = (
        "each case is one value observed on the implementation - centers_hz / supports_hz entries, the effective upper "
        "edge, single bins of get_frequency_response (edge, centre, mirrored and random bins; several widths, half/full), "
        "samples of |get_impulse_response|, numerically measured ERB / L2 norm, constructor accept/reject - certified "
        "inside Coq (Interval / lra) to lie within tolerance of the model generated from filters.py; distinct = distinct "
        "(bank configuration, observable, index); all are non-trivial (they evaluate generated formulas)"
    )
    # ---- compile the goals
    ctx.log("compiling %d certification goals (total weight %d)" % (len(G.items), sum(x[2] for x in G.items)))
    mism = []
    if ok_gen and G.items:
        okb, out = C.coq_make(["lib/C05_Cert.v"])
        if not okb:
            ctx.fail("generated model or its proofs no longer compile", dict(correspondence="coq/gen/Banks.v", log_tail=out[-1500:]),
                     kind="tie", no_input=True)
        else:
            head = REQ + unfold_tactic()
            # shards balanced by weight
            nshard = max(12, -(-len(G.items) // 350))  # at most ~350 goals per file; 12 compile in parallel
            order = sorted(range(len(G.items)), key=lambda t: -G.items[t][2])
            shards, loads = [[] for _ in range(nshard)], [0] * nshard
            for t in order:
                s = loads.index(min(loads))
                shards[s].append(t)
                loads[s] += G.items[t][2]
            files = [("cert_%d" % s, "".join(G.items[t][0] for t in sh)) for s, sh in enumerate(shards) if sh]
            res = C.coq_eval_many(ctx, files, head, timeout=1200)
            for (name, _), (ans, log), sh in zip(files, res, [s for s in shards if s]):
                if ans is not None:
                    for t in sh:
                        ctx.case(G.items[t][1])
                        ctx.count("cert:" + G.items[t][1]["kind"])
                    ctx.cov["traces_validated_against_impl"] += len(sh)
                    continue
                # bisect: compile the goals of this shard one by one (bounded)
                ctx.log("shard %s failed; isolating" % name)
                singles = [("one_%s_%d" % (name, t), G.items[t][0]) for t in sh]
                r2 = C.coq_eval_many(ctx, singles, head, timeout=600)
                for t, (a2, l2) in zip(sh, r2):
                    ctx.case(G.items[t][1])
                    ctx.count("cert:" + G.items[t][1]["kind"])
                    if a2 is None:
                        mism.append((G.items[t][1], l2[-600:]))
                    else:
                        ctx.cov["traces_validated_against_impl"] += 1
    for case, log in mism[:10]:
        ctx.fail("implementation value not certified against the generated model: %r" % (case,),
                 dict(case=case, correspondence="Interval-certified comparison against coq/gen/Banks.v via coq/C05/Model.v", coq_log_tail=log),
                 kind="correspondence")
    if known_typeerror:
        ctx.fail("low_hz < 0 with the default high_hz=None raises TypeError instead of ValueError (the message formats "
                 "None with {:.2f}): %r" % (known_typeerror[0],), dict(check="range_not_rejected", input=known_typeerror[0],
                                                                      occurrences=len(known_typeerror)),
                 kind="impl", key="neg-low-default-high-typeerror")
    if leeway_inverted:
        ctx.fail("the triangular bank accepts low_hz at or above the Nyquist frequency (high_hz is then clipped below "
                 "low_hz and the centres decrease): %r" % (leeway_inverted[0],),
                 dict(check="range_not_rejected", input=leeway_inverted[0], occurrences=len(leeway_inverted)),
                 kind="impl", key="tri-leeway-inverted-range")
    seen = set()
    for name, detail in bad:
        if name in seen and len(seen) > 6:
            continue
        seen.add(name)
        ctx.fail("property violated on the implementation (%s): %r" % (name, detail), dict(check=name, input=detail), kind="impl")
        if len(ctx.failures) > 25:
            break
    if (pr is not None and not pr["ok"]) and not bad and not mism:
        ctx.log("search found no failing input on the implementation")
    ctx.assumptions += [
        "float64 rounding is not modelled: comparisons use 1e-9 (relative; absolute for responses in [0,1]); measured "
        "ERB / L2 norm 5e-3 relative",
        "np.exp/np.log/np.sqrt/np.ceil/int() compute exp/ln/sqrt/ceiling/truncation",
        "the moduli of the complex-valued gammatone _H/_h and Gabor impulse loop are modelled by hand (source pinned by "
        "AST comparison) and checked pointwise",
        "ERB and L2 norm are DEFINED by textbook closed forms of the Gaussian / gammatone integrals; the implementation's "
        "numerically integrated responses are compared with them",
        "validity of a range means 0 <= low_hz < effective high_hz <= Nyquist; every range the triangular bank accepts "
        "is valid (theorem tri_accepted_is_valid); Fbank / Gabor / gammatone accept high_hz=None with low_hz >= rate//2 "
        "and read high_hz=0 as 'not given' (observations, outside the property's rejection list)",
    ]
    return C.finish(ctx, "proof")


def _unshort(d):
    """Rebuild a bank configuration from its recorded (JSON) form."""
    cfg = {k: v for k, v in d.items() if k not in ("scale", "scale_params")}
    name = d["scale"]
    if name in ("mel", "bark"):
        cfg["scale"] = dict(name=name, arg=name, h2s=name + "_h2s", s2h=name + "_s2h")
    elif name == "linear":
        lo, m = d["scale_params"]
        cfg["scale"] = dict(name=name, arg=dict(name="linear", low_hz=lo, slope_hz=m), params=[lo, m],
                            h2s="(linear_h2s %s %s)" % (q(lo), q(m)), s2h="(linear_s2h %s %s)" % (q(lo), q(m)))
    else:
        (lo,) = d["scale_params"]
        cfg["scale"] = dict(name=name, arg=dict(name="octave", low_hz=lo), params=[lo],
                            h2s="(octave_h2s %s)" % q(lo), s2h="(octave_s2h %s)" % q(lo))
    return cfg


def replay(ctx, rp):
    """Re-run exactly the recorded case on the implementation (and, for a certified
    comparison, on the model)."""
    C.ensure_impl_path()
    import importlib

    import numpy as np

    F = importlib.import_module("pydrobert.speech.filters")
    S = importlib.import_module("pydrobert.speech.scales")
    f = rp["failure"]["replay"]
    inp = f.get("input") or f.get("case") or {}
    bad = []
    if "range" in inp:
        g = inp["range"]
        out = run_range(F, g)
        print("range %r -> %s (must reject: %s)" % (g, out, must_reject(g)))
        return 1 if (must_reject(g) and out != "reject") else 0
    if "config" in inp:
        cfg = _unshort(inp["config"])
        before = cfg.pop("built_just_before", None)
        if before:
            # the recorded history: a sibling bank was built in the same process just before this one
            sib = dict(cfg)
            sib.update(before)
            try:
                sb = build(F, sib)
                sb.centers_hz, sb.supports_hz
                sb.get_frequency_response(0, 64)
                print("built first: the same bank with", before)
            except Exception as e:  # noqa: BLE001
                print("sibling could not be built:", e)
        if cfg.get("scale_history"):
            print("scaling-function object: constructed with %r%s, then %s re-assigned to %r" % (
                cfg["scale_history"]["constructed_with"], ", used" if cfg["scale_history"]["used_before_reassignment"] else "",
                "/".join(SCALE_ATTRS[cfg["scale"]["name"]]), cfg["scale"]["params"]))
        bank = check_bank(ctx, F, S, np, cfg, bad, deep=False)
        n = cfg["n"]
        if bank is not None:
            # the deep clauses on every filter of this one bank
            for i in range(n):
                ctx.rng.seed(i)
            check_bank(ctx, F, S, np, cfg, bad, deep=True)
            if inp.get("kind") and regenerate(ctx):
                G = Goals()
                bank_goals(ctx, F, S, np, cfg, bank, G)
                okb, _ = C.coq_make(["lib/C05_Cert.v"])
                if okb and G.items:
                    ans, log = C.coq_eval(ctx, "replay", "".join(x[0] for x in G.items), REQ + unfold_tactic(), timeout=1200)
                    print("model comparison (%d goals): %s" % (len(G.items), "certified" if ans is not None else "NOT certified\n" + log[-800:]))
                    if ans is None:
                        bad.append(("model_comparison", {}))
        for name, detail in bad[:10]:
            print("VIOLATED %s: %r" % (name, detail))
        print("replayed %r: %d violated clause(s)" % (inp["config"], len(bad)))
        return 1 if bad else 0
    print(json.dumps(rp, indent=1)[:4000])
    return 0
